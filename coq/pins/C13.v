From SplVerif Require Import Lib.Base Pod.Ints Props.C13.
Local Open Scope N_scope.
(* PINS *)
Check C13_u_roundtrip : forall w x, x < 256 ^ N.of_nat w -> to_prim_u (of_prim_u w x) = x.
Check C13_u_roundtrip_bytes : forall l, of_prim_u (length l) (to_prim_u l) = l.
Check C13_little_endian : forall w x i, (i < w)%nat -> Byte.to_N (nth i (of_prim_u w x) x00) = (x / 256 ^ N.of_nat i) mod 256.
Check C13_i_roundtrip : forall w x, (0 < w)%nat -> (- modulus w <= 2 * x < modulus w)%Z -> to_prim_i (of_prim_i w x) = x.
Check C13_i_roundtrip_bytes : forall l, (0 < length l)%nat -> of_prim_i (length l) (to_prim_i l) = l.
Check C13_i_sign_in_top_byte : forall l, (0 < length l)%nat -> (to_prim_i l <? 0)%Z = (128 <=? Byte.to_N (last l x00)).
Check C13_bool_read : forall b, to_bool b = true <-> b <> x00.
Check C13_bool_write : forall b, of_bool b = x00 \/ of_bool b = x01.
Check C13_bool_roundtrip : forall b, to_bool (of_bool b) = b.
Check C13_usize_fits_iff : forall w n, (exists l, try_from_usize w n = Some l) <-> n < 256 ^ N.of_nat w.
Check C13_usize_roundtrip : forall w n l, n < USIZE_LIMIT -> try_from_usize w n = Some l -> to_usize l = Ok n /\ length l = w.
Check C13_cast_iff : forall sz l, (exists r, pod_from_bytes sz l = Ok r) <-> len l = sz.
Check C13_cast_aliases : forall sz l r, pod_from_bytes sz l = Ok r -> r = (0, len l).
Check C13_cast_slice_iff : forall sz l, sz <> 0 -> (exists k, pod_slice_from_bytes sz l = Ok k) <-> len l mod sz = 0.
Check C13_cast_slice_count : forall sz l k, sz <> 0 -> pod_slice_from_bytes sz l = Ok k -> k * sz = len l.
