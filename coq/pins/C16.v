From SplVerif Require Import Lib.Base Token.Model Token.Proofs Props.C16.
Local Open Scope N_scope.
(* PINS *)
Check C16_token_account : forall b st, ref_unpack_account b = Some st -> generic_account PToken b = Ok (Some (ra_mint st, ra_owner st, ra_amount st)) /\ generic_account PToken2022 b = Ok (Some (ra_mint st, ra_owner st, ra_amount st)).
Check C16_token_mint : forall b st, ref_unpack_mint b = Some st -> generic_mint PToken b = Ok (Some (rm_supply st, rm_decimals st)) /\ generic_mint PToken2022 b = Ok (Some (rm_supply st, rm_decimals st)).
Check C16_token2022_account : forall b st, ref22_unpack_account b = Some st -> generic_account PToken2022 b = Ok (Some (ra_mint st, ra_owner st, ra_amount st)).
Check C16_token2022_mint : forall b st, ref22_unpack_mint b = Some st -> generic_mint PToken2022 b = Ok (Some (rm_supply st, rm_decimals st)).
Check C16_uninitialised_never_parses : forall p b, (is_initialized_at b 108 = false -> generic_account p b = Ok None) /\ (is_initialized_at b 45 = false -> generic_mint p b = Ok None).
Check C16_base_same_under_both_ids : forall b, (len b = 165 -> acct_ok PToken2022 b = acct_ok PToken b) /\ (len b = 82 -> mint_ok PToken2022 b = mint_ok PToken b).
