From SplVerif Require Import Lib.Base Lib.Sha256 Macros.ErrorEnum Props.C19.
Local Open Scope N_scope.
(* PINS *)
Check C19_lookup_sound : forall cs c i, lookup cs c = Some i -> nth i cs 0 = c /\ (i < length cs)%nat.
Check C19_lookup_complete : forall cs i, NoDup cs -> (i < length cs)%nat -> lookup cs (nth i cs 0) = Some i.
Check C19_lookup_none : forall cs c, lookup cs c = None <-> ~ In c cs.
Check C19_hashed_codes_contiguous : forall d v vs i, no_explicit vs -> (i < S (length vs))%nat -> nth i (codes (with_start d (v :: vs))) 0 = d + N.of_nat i.
Check C19_hashed_lookup_inverse : forall d v vs i, no_explicit vs -> (i < S (length vs))%nat -> lookup (codes (with_start d (v :: vs))) (d + N.of_nat i) = Some i.
Check C19_contiguous_codes_distinct : forall vs next, no_explicit vs -> NoDup (codes_from next vs).
Check C19_one_code_per_variant : forall vs next, length (codes_from next vs) = length vs.
Check C19_hash_start_smallest : forall name fuel n0 d n, hash_start_loop fuel name n0 = Some (d, n) -> HASH_MIN <= d /\ d = hash_value name n /\ n0 <= n /\ forall k, n0 <= k < n -> hash_value name k < HASH_MIN.
Check C19_hash_value_is_u32 : forall name nonce, hash_value name nonce < 4294967296.
