From SplVerif Require Import Lib.Base Tlv.Model Tlv.Spec Tlv.Ops Tlv.Corollaries Props.C12.
From SplVerif Require Import ListView.Model Resolution.Account MetaList.Model MetaList.Proofs MetaList.Stored MetaList.Many.
Local Open Scope N_scope.
(* PINS *)
Check C12_size_formula : forall k, 35 * k + 4 < USIZE_LIMIT -> ml_size_of k = Ok (12 + (4 + 35 * k)).
Check C12_init : forall n es t ms, fits n es -> wf_tag t -> Forall wf_extra ms -> len ms < 100000000 -> if push_ok n es t (4 + 35 * len ms) false then ml_init (render n es) t ms = (render n (es ++ [(t, lv_enc ms)]), Ok tt) /\ fits n (es ++ [(t, lv_enc ms)]) else exists e, ml_init (render n es) t ms = (render n es, Err e).
Check C12_reload : forall n es t a ms b, fits n es -> wf_tag t -> Forall wf_extra ms -> len ms < 4294967296 -> split_entry es t 0 = Some (a, lv_enc ms, b) -> ml_reload (render n es) t = Ok ms.
Check C12_reload_missing : forall n es t, fits n es -> wf_tag t -> split_entry es t 0 = None -> exists e, ml_reload (render n es) t = Err e.
Check C12_update : forall n es t a v b ms, fits n es -> wf_tag t -> Forall wf_extra ms -> len ms < 100000000 -> split_entry es t 0 = Some (a, v, b) -> let sz := 4 + 35 * len ms in if (len v <? sz) && (N.of_nat n <? len (enc es) + (sz - len v)) then exists e, ml_update (render n es) t ms = (render n es, Err e) else ml_update (render n es) t ms = (render n (a ++ (t, lv_enc ms) :: b), Ok tt) /\ fits n (a ++ (t, lv_enc ms) :: b).
Check C12_update_missing : forall n es t ms, fits n es -> wf_tag t -> len ms < 100000000 -> split_entry es t 0 = None -> exists e, ml_update (render n es) t ms = (render n es, Err e).
Check C12_other_lists_untouched : forall a t (v w : list byte) b t' r', (t' <> t \/ r' <> count t a) -> lookup_value (a ++ (t, w) :: b) t' r' = lookup_value (a ++ (t, v) :: b) t' r'.
Check C12_malformed : forall data t ms, (forall u, check_data data <> Ok u) -> (exists e, ml_init data t ms = (data, Err e)) /\ (exists e, ml_update data t ms = (data, Err e)) /\ (exists e, ml_reload data t = Err e).
Check C12_reload_any_bytes : forall data t, match ml_reload data t with | Ok cfgs => Forall wf_extra cfgs | Err _ => True | Panic => False end.
Check C12_exact_size : forall t ms, wf_tag t -> Forall wf_extra ms -> len ms < 100000000 -> let n := N.to_nat (12 + (4 + 35 * len ms)) in ml_init (zeros n) t ms = (render n [(t, lv_enc ms)], Ok tt) /\ exists e, ml_init (zeros (n - 1)) t ms = (zeros (n - 1), Err e).
Check C12_many_instructions : forall ls n, Forall wf_ilist ls -> NoDup (map fst ls) -> total_size ls <= N.of_nat n -> init_all (zeros n) ls = (render n (stored ls), Ok tt) /\ forall t ms, In (t, ms) ls -> ml_reload (render n (stored ls)) t = Ok ms.
Check C12_many_instructions_on_any_state : forall ls n es, fits n es -> Forall wf_ilist ls -> NoDup (map fst ls) -> (forall t, In t (map fst ls) -> ~ In t (map fst es)) -> len (enc es) + total_size ls <= N.of_nat n -> init_all (render n es) ls = (render n (es ++ stored ls), Ok tt) /\ fits n (es ++ stored ls).
Check C12_many_instructions_one_byte_less : forall ls t ms n, Forall wf_ilist (ls ++ [(t, ms)]) -> NoDup (map fst (ls ++ [(t, ms)])) -> N.of_nat n + 1 = total_size (ls ++ [(t, ms)]) -> exists e, init_all (zeros n) (ls ++ [(t, ms)]) = (render n (stored ls), Err e).
