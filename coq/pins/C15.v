From SplVerif Require Import Lib.Base Tlv.Model Tlv.Spec Tlv.Corollaries Props.C15.
From SplVerif Require Import AccountRealloc.Model AccountRealloc.Proofs AccountRealloc.Borsh.
Local Open Scope N_scope.
(* PINS *)
Check C15_exact : forall acct n es t r a old b e p, a_data acct = render n es -> fits n es -> wf_tag t -> split_entry es t r = Some (a, old, b) -> len e < U32_LIMIT -> N.of_nat n + (len e - len old) <= a_orig acct + MAX_PERMITTED_DATA_INCREASE -> let n' := (n + length e - length old)%nat in realloc_and_pack acct t r e p = ({| a_data := render n' (a ++ (t, e) :: b); a_orig := a_orig acct |}, Ok tt) /\ fits n' (a ++ (t, e) :: b).
Check C15_reads_back : forall n' (a : list entry) t (e : list byte) (b : list entry), fits n' (a ++ (t, e) :: b) -> wf_tag t -> get_bytes (render n' (a ++ (t, e) :: b)) t (count t a) = Ok (voff a, e).
Check C15_missing_entry : forall acct n es t r e p, a_data acct = render n es -> fits n es -> wf_tag t -> split_entry es t r = None -> exists c, realloc_and_pack acct t r e p = (acct, Err c).
Check C15_growth_limit : forall acct n es t r a old b e p, a_data acct = render n es -> fits n es -> wf_tag t -> split_entry es t r = Some (a, old, b) -> len old < len e -> a_orig acct + MAX_PERMITTED_DATA_INCREASE < N.of_nat n + (len e - len old) -> exists c, realloc_and_pack acct t r e p = (acct, Err c).
Check C15_borsh_prefix_decodable : forall t (v : val t) rest, wf t v -> decode t (encode t v ++ rest) = Some (v, rest).
