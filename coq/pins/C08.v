From SplVerif Require Import Lib.Base Tlv.Model Resolution.Seeds Resolution.Account Resolution.Proofs MetaList.Model MetaList.Stored Props.C08.
From Coq Require Import Permutation.
Local Open Scope N_scope.
(* PINS *)
Check C08_agree : forall find_pda fetch pool cfgs ix pid infos metas, fetch_matches fetch pool -> Forall2 (fun m i => m_key m = i_key i /\ fetch (i_key i) = Ok (Some (i_data i))) metas infos -> match cpi_loop find_pda pool cfgs ix pid infos metas with | Ok (ms, infos') => add_offchain find_pda fetch cfgs ix pid metas = Ok ms /\ (exists app, ms = metas ++ app /\ length app = length cfgs) /\ exists added, infos' = infos ++ added /\ map i_key added = map m_key (skipn (length metas) ms) | Err _ => exists e, add_offchain find_pda fetch cfgs ix pid metas = Err e | Panic => add_offchain find_pda fetch cfgs ix pid metas = Panic end.
Check C08_pool_order : forall find_pda p1 p2 cfgs ix pid, pools_equiv p1 p2 -> forall infos1 infos2 metas, kd_of infos1 = kd_of infos2 -> match cpi_loop find_pda p1 cfgs ix pid infos1 metas, cpi_loop find_pda p2 cfgs ix pid infos2 metas with | Ok (ms1, i1), Ok (ms2, i2) => ms1 = ms2 /\ kd_of i1 = kd_of i2 | Err _, Err _ => True | Panic, Panic => True | _, _ => False end.
Check C08_permuted_pool : forall pool pool', distinct_keys pool -> Permutation pool pool' -> pools_equiv pool pool'.
Check C08_cpi_total : forall find_pda pool data t ix pid infos metas, add_cpi_data find_pda pool data t ix pid infos metas <> Panic.
Check C08_offchain_total : forall find_pda fetch data t ix pid metas, (forall k, fetch k <> Panic) -> add_offchain_data find_pda fetch data t ix pid metas <> Panic.
