From SplVerif Require Import Lib.Base Tlv.Model Tlv.Spec Tlv.Walk Tlv.Parse Tlv.Ops Tlv.Refine Tlv.Corollaries Tlv.AnyTail Tlv.FailedHistory Props.C04.
Local Open Scope N_scope.
(* PINS *)
Check C04_atomic : forall n es o e, fits n es -> wf_op o -> is_pack_var o = false -> snd (step (render n es) o) = Err e -> fst (step (render n es) o) = render n es.
Check C04_still_opens : forall n es o e, fits n es -> wf_op o -> snd (step (render n es) o) = Err e -> check_data (fst (step (render n es) o)) = Ok tt.
Check C04_pack_confined : forall n es t r en p e a v b, fits n es -> wf_tag t -> split_entry es t r = Some (a, v, b) -> snd (step (render n es) (OPackVar t r en p)) = Err e -> let buf' := fst (step (render n es) (OPackVar t r en p)) in firstn (N.to_nat (voff a)) buf' = firstn (N.to_nat (voff a)) (render n es) /\ skipn (N.to_nat (voff a + len v)) buf' = skipn (N.to_nat (voff a + len v)) (render n es) /\ length buf' = length (render n es).
Check C04_spec_error_is_identity : forall n es o e, is_pack_var o = false -> snd (s_step n es o) = Err e -> fst (s_step n es o) = es.
Check C04_resize_error_identity_any_valid_slab : forall es (tail : list byte) t r a v b l e, Forall wf_entry es -> term tail -> wf_tag t -> split_entry es t r = Some (a, v, b) -> snd (realloc (enc es ++ tail) t l r) = Err e -> fst (realloc (enc es ++ tail) t l r) = enc es ++ tail /\ check_data (enc es ++ tail) = Ok tt.
Check C04_failed_ops_are_noops : forall ops n es, fits n es -> Forall wf_op ops -> Forall (fun o => is_pack_var o = false) ops -> run ops (render n es) = run_dropping_failed (render n es) ops /\ exists es', run ops (render n es) = render n es' /\ fits n es'.
Check C04_all_failed_identity : forall ops n es, fits n es -> Forall wf_op ops -> Forall (fun o => is_pack_var o = false) ops -> (forall o, In o ops -> exists e, snd (step (render n es) o) = Err e) -> run ops (render n es) = render n es.
