From SplVerif Require Import Lib.Base Token.Model Token.Proofs Token.Sets Props.C17.
Local Open Scope N_scope.
(* PINS *)
Check C17_account_spec : forall p b, generic_account p b = Ok (if acct_ok p b then Some (seg b 0 32, seg b 32 32, le_dec (seg b 64 8)) else None).
Check C17_mint_spec : forall p b, generic_mint p b = Ok (if mint_ok p b then Some (le_dec (seg b 36 8), nth 44 b x00) else None).
Check C17_total : forall p b, generic_account p b <> Panic /\ generic_mint p b <> Panic.
Check C17_no_confusion : forall p b r, generic_account p b = Ok (Some r) -> generic_mint p b = Ok None.
Check C17_unknown_id : forall b, generic_account POther b = Ok None /\ generic_mint POther b = Ok None.
Check C17_token_exact_lengths : forall b, (acct_ok PToken b = true -> len b = 165) /\ (mint_ok PToken b = true -> len b = 82).
Check C17_token2022_extended : forall b, 165 < len b -> (acct_ok PToken2022 b = true <-> (len b <> 355 /\ marker b = x02 /\ is_initialized_at b 108 = true)) /\ (mint_ok PToken2022 b = true <-> (len b <> 355 /\ marker b = x01 /\ is_initialized_at b 45 = true)).
Check C17_token_iff : forall b, (acct_ok PToken b = true <-> len b = 165 /\ is_initialized_at b 108 = true) /\ (mint_ok PToken b = true <-> len b = 82 /\ is_initialized_at b 45 = true).
Check C17_token2022_at_most_base_length : forall b, len b <= 165 -> acct_ok PToken2022 b = acct_ok PToken b /\ mint_ok PToken2022 b = mint_ok PToken b.
Check C17_token_subset_of_token2022 : forall b, (forall r, generic_account PToken b = Ok (Some r) -> generic_account PToken2022 b = Ok (Some r)) /\ (forall r, generic_mint PToken b = Ok (Some r) -> generic_mint PToken2022 b = Ok (Some r)).
Check C17_multisig_length_never_parses : forall p b, len b = 355 -> generic_account p b = Ok None /\ generic_mint p b = Ok None.
Check C17_other_short_lengths_never_parse : forall p b, len b <> 82 -> len b <> 165 -> len b <= 165 -> generic_account p b = Ok None /\ generic_mint p b = Ok None.
