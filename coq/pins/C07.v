From SplVerif Require Import Lib.Base Resolution.Seeds Resolution.Account Resolution.Proofs Props.C07.
Local Open Scope N_scope.
(* PINS *)
Check C07_iff : forall find_pda cfgs ix pid accounts, check_accounts find_pda cfgs ix pid accounts = Ok tt <-> ((length cfgs <= length accounts)%nat /\ forall i c, nth_error cfgs i = Some c -> position_ok find_pda c ix pid accounts (length accounts - length cfgs + i)).
Check C07_total : forall find_pda cfgs ix pid accounts, Forall (fun c => length (e_cfg c) = 32%nat) cfgs -> check_accounts find_pda cfgs ix pid accounts <> Panic.
Check C07_short_list : forall find_pda cfgs ix pid accounts, (length accounts < length cfgs)%nat -> check_accounts find_pda cfgs ix pid accounts <> Ok tt.
