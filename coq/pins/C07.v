From SplVerif Require Import Lib.Base Tlv.Model Resolution.Seeds Resolution.Account Resolution.Proofs MetaList.Model MetaList.Stored Props.C07.
Local Open Scope N_scope.
(* PINS *)
Check C07_iff : forall find_pda cfgs ix pid accounts, check_accounts find_pda cfgs ix pid accounts = Ok tt <-> ((length cfgs <= length accounts)%nat /\ forall i c, nth_error cfgs i = Some c -> position_ok find_pda c ix pid accounts (length accounts - length cfgs + i)).
Check C07_total : forall find_pda cfgs ix pid accounts, Forall (fun c => length (e_cfg c) = 32%nat) cfgs -> check_accounts find_pda cfgs ix pid accounts <> Panic.
Check C07_short_list : forall find_pda cfgs ix pid accounts, (length accounts < length cfgs)%nat -> check_accounts find_pda cfgs ix pid accounts <> Ok tt.
Check C07_total_any_bytes : forall find_pda data t ix pid accounts, check_account_infos find_pda data t ix pid accounts <> Panic.
Check C07_iff_from_bytes : forall find_pda data t ix pid accounts, check_account_infos find_pda data t ix pid accounts = Ok tt <-> exists cfgs, ml_reload data t = Ok cfgs /\ (length cfgs <= length accounts)%nat /\ forall i c, nth_error cfgs i = Some c -> position_ok find_pda c ix pid accounts (length accounts - length cfgs + i).
Check C07_changed_triple_rejected : forall find_pda cfgs ix pid accounts i c m a, (length cfgs <= length accounts)%nat -> nth_error cfgs i = Some c -> resolve find_pda c ix pid (info_getter accounts) = Ok m -> nth_error accounts (length accounts - length cfgs + i) = Some a -> (i_key a <> m_key m \/ i_signer a <> m_signer m \/ i_writable a <> m_writable m) -> check_accounts find_pda cfgs ix pid accounts <> Ok tt.
