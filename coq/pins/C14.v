From SplVerif Require Import Lib.Base Pod.Option Props.C14.
(* PINS *)
Check C14_none_iff : forall (T : Type) (eqb : T -> T -> bool), (forall a b, eqb a b = true <-> a = b) -> forall none p, get T eqb none p = None <-> p = none.
Check C14_some_iff : forall (T : Type) (eqb : T -> T -> bool), (forall a b, eqb a b = true <-> a = b) -> forall none p v, get T eqb none p = Some v <-> (p = v /\ p <> none).
Check C14_option_roundtrip : forall (T : Type) (eqb : T -> T -> bool), (forall a b, eqb a b = true <-> a = b) -> forall none o p, try_from_option T eqb none o = Ok p -> get T eqb none p = o.
Check C14_pod_roundtrip : forall (T : Type) (eqb : T -> T -> bool), (forall a b, eqb a b = true <-> a = b) -> forall none p, try_from_option T eqb none (get T eqb none p) = Ok p.
Check C14_only_some_none_rejected : forall (T : Type) (eqb : T -> T -> bool), (forall a b, eqb a b = true <-> a = b) -> forall none o, (exists e, try_from_option T eqb none o = Err e) <-> o = Some none.
Check C14_never_panics : forall (T : Type) (eqb : T -> T -> bool) none o, try_from_option T eqb none o <> Panic.
Check C14_default_is_none : forall (T : Type) (eqb : T -> T -> bool), (forall a b, eqb a b = true <-> a = b) -> forall none, get T eqb none (default T none) = None.
