From SplVerif Require Import Lib.Base Tlv.Model Tlv.Spec Tlv.Walk Tlv.Parse Tlv.Ops Tlv.Refine Tlv.Corollaries Tlv.AnyTail Props.C01.
Local Open Scope N_scope.
(* PINS *)
Check C01_refines : forall n ops es, fits n es -> Forall wf_op ops -> run ops (render n es) = render n (s_run n ops es) /\ fits n (s_run n ops es).
Check C01_step : forall n es o, fits n es -> wf_op o -> exists out', step (render n es) o = (render n (fst (s_step n es o)), out') /\ out_eq out' (snd (s_step n es o)) /\ fits n (fst (s_step n es o)).
Check C01_read_your_writes : forall n es t r, fits n es -> wf_tag t -> match split_entry es t r with | Some (a, v, b) => get_bytes (render n es) t r = Ok (voff a, v) | None => exists e, get_bytes (render n es) t r = Err e end.
Check C01_insertion_order : forall n es, fits n es -> get_discriminators (render n es) = Ok (map fst es).
Check C01_shape : forall n es o, if is_push o then fst (s_step n es o) = es \/ exists v, fst (s_step n es o) = es ++ [(op_tag o, v)] else fst (s_step n es o) = es \/ exists a v b w, split_entry es (op_tag o) (op_rep o) = Some (a, v, b) /\ fst (s_step n es o) = a ++ (op_tag o, w) :: b.
Check C01_isolation : forall n es o t' r', (is_push o = false -> t' <> op_tag o \/ r' <> op_rep o) -> lookup_value es t' r' <> None -> lookup_value (fst (s_step n es o)) t' r' = lookup_value es t' r'.
Check C01_order_kept : forall n es o, is_push o = false -> map fst (fst (s_step n es o)) = map fst es.
Check C01_reopen : forall n es, fits n es -> check_data (render n es) = Ok tt.
Check C01_resize_any_valid_slab : forall es (tail : list byte) t r a v b l, Forall wf_entry es -> term tail -> wf_tag t -> split_entry es t r = Some (a, v, b) -> realloc (enc es ++ tail) t l r = if (len v <? l) && (len (enc es ++ tail) <? len (enc es) + (l - len v)) then (enc es ++ tail, Err E_INVALID_ACCOUNT_DATA) else if U32_LIMIT <=? l then (enc es ++ tail, Err E_TOO_SMALL) else (enc (a ++ (t, resize l v) :: b) ++ tail_after tail (len v) l, Ok (voff a)).
Check C01_alloc_any_valid_slab : forall es (tail : list byte) t l a, Forall wf_entry es -> term tail -> wf_tag t -> (a || negb (has t es)) = true -> HDR + l <= len tail -> l < U32_LIMIT -> alloc (enc es ++ tail) t l a = (enc (es ++ [(t, firstn (N.to_nat l) (skipn 12 tail))]) ++ skipn (12 + N.to_nat l) tail, Ok (voff es, count t es)).
Check C01_shrink_keeps_valid : forall es (tail : list byte) t r a v b l, Forall wf_entry es -> term tail -> wf_tag t -> split_entry es t r = Some (a, v, b) -> l <= len v -> exists tail', term tail' /\ Forall wf_entry (a ++ (t, resize l v) :: b) /\ realloc (enc es ++ tail) t l r = (enc (a ++ (t, resize l v) :: b) ++ tail', Ok (voff a)).
