From SplVerif Require Import Lib.Base Lib.Sha256 Macros.Discriminator Props.C18.
Local Open Scope N_scope.
(* PINS *)
Check C18_digest_length : forall m, length (sha256 m) = 32%nat.
Check C18_padding_whole_blocks : forall m, (length (pad m) mod 64 = 0)%nat.
Check C18_padding_keeps_message : forall m, firstn (length m) (pad m) = m.
Check C18_disc_length : forall s, length (disc s) = 8%nat.
Check C18_u64_roundtrip : forall n, n < 18446744073709551616 -> to_u64 (from_u64 n) = n.
Check C18_bytes_roundtrip : forall d, length d = 8%nat -> from_u64 (to_u64 d) = d.
Check C18_to_u64_bound : forall d, length d = 8%nat -> to_u64 d < 18446744073709551616.
Check C18_slice_iff : forall l, (exists d, try_from_slice l = Ok d) <-> len l = 8.
Check C18_slice_identity : forall l d, try_from_slice l = Ok d -> d = l.
Check C18_header_wf : forall ps w, header_wf ps w (emit_header ps w).
