From SplVerif Require Import Lib.Base Tlv.Model Tlv.Spec Tlv.Walk Tlv.Parse Props.C02.
Local Open Scope N_scope.
(* PINS *)
Check C02_open_total : forall b, check_data b <> Panic.
Check C02_discriminators_total : forall b, get_discriminators b <> Panic.
Check C02_get_bytes_total : forall b t r, get_bytes b t r <> Panic.
Check C02_get_value_total : forall b t r size, get_value b t r size <> Panic.
Check C02_accepts_iff : forall b, (exists u, check_data b = Ok u) <-> WF b.
Check C02_lookup : forall es tail t r, Forall wf_entry es -> term tail -> wf_tag t -> match split_entry es t r with | Some (a, v, b) => get_bytes (enc es ++ tail) t r = Ok (voff a, v) | None => exists e, get_bytes (enc es ++ tail) t r = Err e end.
Check C02_lookup_fixed_size : forall es tail t r size, Forall wf_entry es -> term tail -> wf_tag t -> match split_entry es t r with | Some (a, v, b) => if len v =? size then get_value (enc es ++ tail) t r size = Ok (voff a, v) else exists e, get_value (enc es ++ tail) t r size = Err e | None => exists e, get_value (enc es ++ tail) t r size = Err e end.
Check C02_listed_types : forall es tail, Forall wf_entry es -> term tail -> get_discriminators (enc es ++ tail) = Ok (map fst es).
Check C02_in_bounds : forall b t r off v, get_bytes b t r = Ok (off, v) -> slice b off (off + len v) = Some v /\ off + len v <= len b.
Check C02_decomposition_unique : forall es tail es' tail', Forall wf_entry es -> term tail -> Forall wf_entry es' -> term tail' -> enc es ++ tail = enc es' ++ tail' -> map fst es = map fst es' /\ len (enc es) = len (enc es').
