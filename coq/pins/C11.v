From SplVerif Require Import Lib.Base Resolution.Seeds Resolution.SeedsProofs Props.C11.
Local Open Scope N_scope.
(* PINS *)
Check C11_pack_iff : forall ss, (exists b, pack_config ss = Ok b) <-> (all_init ss = true /\ total_size ss <= 32).
Check C11_pack_canonical : forall ss b, pack_config ss = Ok b -> b = enc_seeds ss ++ zeros (N.to_nat (32 - total_size ss)).
Check C11_pack_err : forall ss, ~ (all_init ss = true /\ total_size ss <= 32) -> exists e, pack_config ss = Err e.
Check C11_pack_no_panic : forall ss, pack_config ss <> Panic.
Check C11_roundtrip : forall ss b, pack_config ss = Ok b -> unpack_config b = Ok ss.
Check C11_unused_zero : forall ss b, pack_config ss = Ok b -> skipn (N.to_nat (total_size ss)) b = zeros (N.to_nat (32 - total_size ss)) /\ length b = 32%nat.
Check C11_unpack_total : forall cfg, length cfg = 32%nat -> unpack_config cfg <> Panic.
Check C11_repack : forall cfg ss, length cfg = 32%nat -> unpack_config cfg = Ok ss -> total_size ss <= 32 /\ pack_config ss = Ok (firstn (N.to_nat (total_size ss)) cfg ++ zeros (N.to_nat (32 - total_size ss))).
Check C11_kd_pack : forall k, kd_pack_config k = match k with KUninit => Err 5 | _ => Ok (enc_kd k ++ zeros (32 - length (enc_kd k))) end.
Check C11_kd_roundtrip : forall k b, kd_pack_config k = Ok b -> kd_unpack b = Ok k.
Check C11_kd_unpack_total : forall b, kd_unpack b <> Panic.
Check C11_kd_repack : forall b k, kd_unpack b = Ok k -> k <> KUninit -> kd_pack_config k = Ok (firstn (N.to_nat (kd_size k)) b ++ zeros (32 - N.to_nat (kd_size k))).
Check C11_kd_prefix : forall k b n, kd_pack_config k = Ok b -> (N.to_nat (kd_size k) <= n)%nat -> kd_unpack (firstn n b) = Ok k.
