From SplVerif Require Import Lib.Base Resolution.Seeds Resolution.Account Resolution.Proofs Props.C06.
Local Open Scope N_scope.
(* PINS *)
Check C06_offchain_appends : forall find_pda fetch cfgs ix pid kds metas out, offchain_loop find_pda fetch cfgs ix pid kds metas = Ok out -> exists app, out = metas ++ app /\ appended_ok cfgs metas app.
Check C06_cpi_appends : forall find_pda pool cfgs ix pid infos metas out infos', cpi_loop find_pda pool cfgs ix pid infos metas = Ok (out, infos') -> exists app, out = metas ++ app /\ appended_ok cfgs metas app.
Check C06_privileges : forall cfgs pre app, appended_ok cfgs pre app -> forall j c a, nth_error cfgs j = Some c -> nth_error app j = Some a -> let before := pre ++ firstn j app in m_signer a = false /\ (m_writable a = true -> pod_bool (e_writable c) = true) /\ (same_key a before <> [] -> Forall (fun p => m_writable p = false) (same_key a before) -> m_writable a = false) /\ (pod_bool (e_writable c) = true -> (same_key a before = [] \/ Exists (fun p => m_writable p = true) (same_key a before)) -> m_writable a = true).
Check C06_de_escalate_writable : forall m ms, m_writable (de_escalate m ms) = m_writable m && (match same_key m ms with [] => true | l => existsb m_writable l end).
