From SplVerif Require Import Lib.Base ListView.Model ListView.Proofs Props.C09.
Local Open Scope N_scope.
(* PINS *)
Check C09_refines : forall p ops buf cap xs pad rest, wf_params p -> Rep p buf cap xs pad rest -> Forall (op_ok p) ops -> exists rest', Rep p (fold_left (lv_step p) ops buf) cap (fold_left (vec_step p cap) ops xs) pad rest'.
Check C09_bounded : forall p buf cap xs pad rest, Rep p buf cap xs pad rest -> len xs <= cap /\ unpack p buf = Ok (len xs, cap) /\ visible p buf = Ok xs.
Check C09_push : forall p buf cap xs pad rest item, Rep p buf cap xs pad rest -> elem_ok p item -> if (len xs <? cap) && (len xs + 1 <? 256 ^ szL p) then exists buf', push p buf item = (buf', Ok tt) /\ Rep p buf' cap (xs ++ [item]) pad (skipn (N.to_nat (szT p)) rest) else exists e, push p buf item = (buf, Err e).
Check C09_remove : forall p buf cap xs pad rest i, Rep p buf cap xs pad rest -> if i <? len xs then exists a x b buf' stale, xs = a ++ x :: b /\ len a = i /\ remove p buf i = (buf', Ok x) /\ Rep p buf' cap (a ++ b) pad (stale ++ rest) /\ len stale = szT p else exists e, remove p buf i = (buf, Err e).
Check C09_set : forall p buf cap xs pad rest i item, Rep p buf cap xs pad rest -> elem_ok p item -> if i <? len xs then exists a x b buf', xs = a ++ x :: b /\ len a = i /\ set_elem p buf i item = (buf', Ok tt) /\ Rep p buf' cap (a ++ item :: b) pad rest else exists e, set_elem p buf i item = (buf, Err e).
Check C09_sort : forall p buf cap xs pad rest, Rep p buf cap xs pad rest -> exists buf', sort p buf = (buf', Ok tt) /\ Rep p buf' cap (sort_elems xs) pad rest.
Check C09_sort_permutes : forall l, Permutation.Permutation l (sort_elems l).
Check C09_sort_by_key : forall leb p buf cap xs pad rest, Rep p buf cap xs pad rest -> exists buf', sort_with leb p buf = (buf', Ok tt) /\ Rep p buf' cap (sort_by leb xs) pad rest.
Check C09_sort_by_key_permutes : forall leb l, Permutation.Permutation l (sort_by leb l).
Check C09_sort_by_key_stable : forall (key : list byte -> N) l k, filter (fun z => key z =? k) (sort_by (fun a b => key a <=? key b) l) = filter (fun z => key z =? k) l.
Check C09_sort_by_key_sorted : forall (key : list byte -> N) l, Sorted.StronglySorted (fun a b => key a <= key b) (sort_by (fun a b => key a <=? key b) l).
Check C09_init : forall p buf, wf_params p -> layout_ok p buf -> capacity_of p buf < USIZE_LIMIT -> exists buf' pad rest, init p buf = (buf', Ok (0, capacity_of p buf)) /\ Rep p buf' (capacity_of p buf) [] pad rest /\ length buf' = length buf.
Check C09_size_of : forall p n s buf, size_of p n = Ok s -> szT p <> 0 -> len buf = s -> capacity_of p buf = n /\ data_start p <= len buf /\ data_len p buf mod szT p = 0.
Check C09_size_formula : forall p n s, size_of p n = Ok s -> s = szL p + header_padding p + szT p * n.
Check C09_bytes_used_allocated : forall p buf cap xs pad rest, Rep p buf cap xs pad rest -> bytes_used p buf = size_of p (len xs) /\ bytes_allocated p buf = size_of p cap.
