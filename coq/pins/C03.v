From SplVerif Require Import Lib.Base Tlv.Model Tlv.Spec Tlv.Walk Tlv.Parse Tlv.Ops Tlv.Refine Tlv.Corollaries Props.C03.
Local Open Scope N_scope.
(* PINS *)
Check C03_canonical : forall n ops, Forall wf_op ops -> run ops (zeros n) = render n (s_run n ops []) /\ fits n (s_run n ops []).
Check C03_layout : forall n es, render n es = concat (map (fun e => fst e ++ le_enc 4 (len (snd e)) ++ snd e) es) ++ zeros (n - length (enc es)).
Check C03_overhead : forall es, Forall wf_entry es -> len (enc es) = payload es.
Check C03_base_len : HDR = 12.
Check C03_resize : forall l v, resize l v = firstn (N.to_nat l) v ++ zeros (N.to_nat l - length v).
Check C03_zero_tail : forall n es, skipn (length (enc es)) (render n es) = zeros (n - length (enc es)).
Check C03_pure : forall n ops1 ops2, Forall wf_op ops1 -> Forall wf_op ops2 -> s_run n ops1 [] = s_run n ops2 [] -> run ops1 (zeros n) = run ops2 (zeros n).
