From SplVerif Require Import Lib.Base ListView.Model ListView.Proofs Props.C10.
Local Open Scope N_scope.
(* PINS *)
Check C10_total : forall p buf, wf_params p -> ~ known_class p buf -> unpack p buf <> Panic.
Check C10_known_class_witness : let p := {| szL := 16; szT := 1; alT := 1; base := 0 |} in let buf := zeros 8 ++ [x01] ++ zeros 7 in known_class p buf /\ unpack p buf = Panic.
Check C10_ok_bounds : forall p buf l cap, unpack p buf = Ok (l, cap) -> l <= cap /\ cap = capacity_of p buf /\ data_start p <= len buf /\ data_start p + cap * szT p = len buf.
Check C10_accepts_iff : forall p buf, (exists v, unpack p buf = Ok v) <-> (layout_ok p buf /\ stored_len p buf <= capacity_of p buf /\ stored_len p buf < USIZE_LIMIT).
Check C10_spec : forall p buf, match unpack p buf with | Ok (l, cap) => layout_ok p buf /\ l = stored_len p buf /\ cap = capacity_of p buf /\ l <= cap /\ l < USIZE_LIMIT | Err _ => ~ (layout_ok p buf /\ stored_len p buf <= capacity_of p buf) | Panic => layout_ok p buf /\ USIZE_LIMIT <= stored_len p buf end.
Check C10_padding : forall p, 1 <= alT p -> data_start p mod alT p = 0 /\ header_padding p < alT p.
Check C10_visible_in_bounds : forall p buf xs, visible p buf = Ok xs -> exists l cap, unpack p buf = Ok (l, cap) /\ length xs = N.to_nat l /\ data_start p + l * szT p <= len buf.
