(** Model of ExtraAccountMetaList::{init, update, unpack_with_tlv_state, size_of}
    (tlv-account-resolution/src/state.rs) as a composition of the TLV model and the
    list-view model (element = 35-byte ExtraAccountMeta, align 1, PodU32 prefix).
    After the D6 repair (`?` on TlvState*::unpack). *)
From SplVerif Require Import Lib.Base Tlv.Model ListView.Model Resolution.Seeds Resolution.Account.
Local Open Scope N_scope.

Definition LVP : params := {| szL := 4; szT := 35; alT := 1; base := 0 |}.

Definition em_bytes (e : extra) : list byte := e_disc e :: e_cfg e ++ [e_signer e; e_writable e].
Definition parse_extra (c : list byte) : extra :=
  {| e_disc := nth 0 c x00; e_cfg := firstn 32 (skipn 1 c); e_signer := nth 33 c x00; e_writable := nth 34 c x00 |}.

(** ExtraAccountMetaList::size_of *)
Definition ml_size_of (k : N) : outcome N := let? s := size_of LVP k in Ok (HDR + s).

(** run [f] on the sub-slice [vs, vs+n) of [buf] and write the result back *)
Definition with_region {A} (buf : list byte) (vs n : N) (f : list byte -> list byte * outcome A)
  : list byte * outcome A :=
  match slice buf vs (vs + n) with
  | None => (buf, Panic)
  | Some r =>
      let '(r', out) := f r in
      match write_at buf vs r' with
      | Some b => (b, out)
      | None => (buf, Panic)
      end
  end.

(** ListView::init(bytes) then push every meta; stops at the first failure *)
Fixpoint push_all (r : list byte) (ms : list extra) : list byte * outcome unit :=
  match ms with
  | [] => (r, Ok tt)
  | m :: ms =>
      match push LVP r (em_bytes m) with
      | (r', Ok _) => push_all r' ms
      | (r', Err e) => (r', Err e)
      | (r', Panic) => (r', Panic)
      end
  end.
Definition fill_list (r : list byte) (ms : list extra) : list byte * outcome unit :=
  match init LVP r with
  | (r', Ok _) => push_all r' ms
  | (r', Err e) => (r', Err e)
  | (r', Panic) => (r', Panic)
  end.

Definition ml_init (data : list byte) (t : tag) (ms : list extra) : list byte * outcome unit :=
  match check_data data with
  | Ok _ =>
      match size_of LVP (len ms) with
      | Ok sz =>
          match alloc data t sz false with
          | (b, Ok (vs, _)) => with_region b vs sz (fun r => fill_list r ms)
          | (b, Err e) => (b, Err e)
          | (b, Panic) => (b, Panic)
          end
      | Err e => (data, Err e)
      | Panic => (data, Panic)
      end
  | Err e => (data, Err e)
  | Panic => (data, Panic)
  end.

Definition ml_update (data : list byte) (t : tag) (ms : list extra) : list byte * outcome unit :=
  match check_data data with
  | Ok _ =>
      match size_of LVP (len ms) with
      | Ok sz =>
          match realloc data t sz 0 with
          | (b, Ok vs) => with_region b vs sz (fun r => fill_list r ms)
          | (b, Err e) => (b, Err e)
          | (b, Panic) => (b, Panic)
          end
      | Err e => (data, Err e)
      | Panic => (data, Panic)
      end
  | Err e => (data, Err e)
  | Panic => (data, Panic)
  end.

(** TlvStateBorrowed::unpack + unpack_with_tlv_state + iteration *)
Definition ml_reload (data : list byte) (t : tag) : outcome (list extra) :=
  let? _ := check_data data in
  let? r := get_bytes data t 0 in
  let? xs := visible LVP (snd r) in
  Ok (map parse_extra xs).
