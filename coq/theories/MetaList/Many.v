(** Any number of instructions' lists in one account: initialising them one after the other in an
    account that has room for all of them succeeds every time, the account is the canonical slab of
    all the stored lists in order, and each instruction reads back exactly its own list.
    No bound on the number of instructions (129, 256, 65 536 ... are all instances). *)
From SplVerif Require Import Lib.Base Tlv.Model Tlv.Spec Tlv.Walk Tlv.Ops Tlv.Parse Tlv.Corollaries.
From SplVerif Require Import ListView.Model Resolution.Account MetaList.Model MetaList.Proofs.
Local Open Scope N_scope.

Definition ilist : Type := (tag * list extra)%type.
Definition stored (ls : list ilist) : list entry := map (fun p => (fst p, lv_enc (snd p))) ls.
Definition wf_ilist (p : ilist) : Prop := wf_tag (fst p) /\ Forall wf_extra (snd p) /\ len (snd p) < 100000000.
(** what [ExtraAccountMetaList::size_of] advertises, summed over the lists *)
Definition total_size (ls : list ilist) : N := fold_right (fun p acc => 12 + (4 + 35 * len (snd p)) + acc) 0 ls.

(** initialise the lists one after the other, stopping at the first failure *)
Fixpoint init_all (data : list byte) (ls : list ilist) : list byte * outcome unit :=
  match ls with
  | [] => (data, Ok tt)
  | p :: r => match ml_init data (fst p) (snd p) with
              | (d, Ok _) => init_all d r
              | other => other
              end
  end.

Lemma has_false_iff t (es : list entry) : has t es = false <-> ~ In t (map fst es).
Proof.
  unfold has. induction es as [|e es IH]; cbn [existsb map In]; [tauto|].
  destruct (tag_eqb (fst e) t) eqn:E; cbn [orb].
  - apply tag_eqb_eq in E. split; [discriminate|]. intros H. exfalso. apply H. now left.
  - rewrite IH. split; intros H; [intros [H1|H1]; [subst; now rewrite tag_eqb_refl in E|tauto]|tauto].
Qed.

Lemma enc_snoc_len es t (v : list byte) : length t = 8%nat ->
  len (enc (es ++ [(t, v)])) = len (enc es) + 12 + len v.
Proof.
  intros Ht. rewrite enc_app, len_app, enc_cons. change (enc []) with (@nil byte). rewrite app_nil_r. unfold enc_entry. cbn [fst snd].
  rewrite !len_app, len_le_enc. unfold len at 2. rewrite Ht. lia.
Qed.

Lemma stored_app a b : stored (a ++ b) = stored a ++ stored b.
Proof. unfold stored. apply map_app. Qed.
Lemma map_fst_stored ls : map fst (stored ls) = map fst ls.
Proof. unfold stored. rewrite map_map. reflexivity. Qed.

(** the general step: on top of any canonical account state *)
Theorem init_all_canon : forall ls n es,
  fits n es -> Forall wf_ilist ls -> NoDup (map fst ls) ->
  (forall t, In t (map fst ls) -> ~ In t (map fst es)) ->
  len (enc es) + total_size ls <= N.of_nat n ->
  init_all (render n es) ls = (render n (es ++ stored ls), Ok tt) /\ fits n (es ++ stored ls).
Proof.
  induction ls as [|[t ms] ls IH]; intros n es Hfit Hwf Hnd Hfresh Hroom.
  - cbn [init_all stored map]. rewrite app_nil_r. now split.
  - inversion Hwf as [|p l' [Ht [Hms Hsm]] Hwf']; subst. cbn [fst snd] in Ht, Hms, Hsm.
    cbn [map fst] in Hnd. inversion Hnd as [|x l'' Hnotin Hnd']; subst.
    cbn [total_size fold_right snd] in Hroom. fold (total_size ls) in Hroom.
    cbn [init_all fst snd].
    pose proof (init_canon n es t ms Hfit Ht Hms Hsm) as Hi.
    assert (Hp : push_ok n es t (4 + 35 * len ms) false = true).
    { unfold push_ok. cbn [orb].
      assert (Hh : has t es = false) by (apply has_false_iff, Hfresh; cbn [map fst In]; now left).
      rewrite Hh. cbn [negb andb]. unfold HDR, U32_LIMIT. lia. }
    rewrite Hp in Hi. destruct Hi as [Hi Hfit1]. rewrite Hi.
    assert (Hlen : len (enc (es ++ [(t, lv_enc ms)])) = len (enc es) + 12 + (4 + 35 * len ms)).
    { rewrite enc_snoc_len by (apply Ht). now rewrite lv_enc_len. }
    destruct (IH n (es ++ [(t, lv_enc ms)]) Hfit1 Hwf' Hnd') as [Hr Hf].
    + intros t' Hin. rewrite map_app. cbn [map fst]. intros Hin'. apply in_app_or in Hin'.
      destruct Hin' as [Hin'|[<-|[]]].
      * apply (Hfresh t'); [cbn [map fst In]; now right|exact Hin'].
      * contradiction.
    + rewrite Hlen. lia.
    + cbn [stored map fst snd]. fold (stored ls).
      change ((t, lv_enc ms) :: stored ls) with ([(t, lv_enc ms)] ++ stored ls).
      rewrite app_assoc. now split.
Qed.

(** in a list of stored lists with distinct instructions, each instruction's first entry is its own list *)
Lemma split_stored : forall ls t ms, NoDup (map fst ls) -> In (t, ms) ls ->
  exists a b, split_entry (stored ls) t 0 = Some (a, lv_enc ms, b).
Proof.
  induction ls as [|[t0 ms0] ls IH]; intros t ms Hnd Hin; [contradiction|].
  cbn [map fst] in Hnd. inversion Hnd as [|x l Hnotin Hnd']; subst.
  cbn [stored map split_entry fst snd]. fold (stored ls).
  destruct Hin as [Heq|Hin].
  - inversion Heq; subst. rewrite tag_eqb_refl. change (0 =? 0) with true. cbv iota. eauto.
  - assert (Hne : t0 <> t).
    { intros ->. apply Hnotin. change t with (fst (t, ms)). now apply in_map. }
    rewrite (tag_eqb_neq _ _ Hne).
    destruct (IH t ms Hnd' Hin) as (a & b & ->). eauto.
Qed.

(** from a zeroed account with room for all the lists: every init succeeds, and every instruction
    reads back exactly the list that was stored for it *)
Theorem many_lists : forall ls n,
  Forall wf_ilist ls -> NoDup (map fst ls) -> total_size ls <= N.of_nat n ->
  init_all (zeros n) ls = (render n (stored ls), Ok tt) /\
  forall t ms, In (t, ms) ls -> ml_reload (render n (stored ls)) t = Ok ms.
Proof.
  intros ls n Hwf Hnd Hroom.
  destruct (init_all_canon ls n [] (fits_nil n) Hwf Hnd) as [Hi Hfit].
  - intros t _ [].
  - rewrite enc_nil, Proofs.len_nil. lia.
  - rewrite render_nil in Hi. cbn [app] in Hi, Hfit. split; [exact Hi|].
    intros t ms Hin. destruct (split_stored ls t ms Hnd Hin) as (a & b & Hsp).
    rewrite Forall_forall in Hwf. destruct (Hwf _ Hin) as [Ht [Hms Hsm]]. cbn [fst snd] in Ht, Hms, Hsm.
    apply (reload_canon n (stored ls) t a ms b Hfit Ht Hms); [lia|exact Hsp].
Qed.

(** one byte less than the total: the last init is refused and leaves the account as it was *)
Theorem many_lists_one_byte_less : forall ls t ms n,
  Forall wf_ilist (ls ++ [(t, ms)]) -> NoDup (map fst (ls ++ [(t, ms)])) ->
  N.of_nat n + 1 = total_size (ls ++ [(t, ms)]) ->
  exists e, init_all (zeros n) (ls ++ [(t, ms)]) = (render n (stored ls), Err e).
Proof.
  intros ls t ms n Hwf Hnd Hn.
  assert (Hts : total_size (ls ++ [(t, ms)]) = total_size ls + (12 + (4 + 35 * len ms))).
  { clear. induction ls as [|p ls IH]; cbn [app total_size fold_right snd]; [lia|].
    fold (total_size (ls ++ [(t, ms)])). fold (total_size ls). rewrite IH. lia. }
  apply Forall_app in Hwf. destruct Hwf as [Hwf Hwt]. inversion Hwt as [|p l' [Ht [Hms Hsm]] _]; subst.
  cbn [fst snd] in Ht, Hms, Hsm.
  rewrite map_app in Hnd. cbn [map fst] in Hnd.
  pose proof (NoDup_remove _ _ _ Hnd) as [Hnd1 Hnotin]. rewrite app_nil_r in Hnd1, Hnotin.
  destruct (init_all_canon ls n [] (fits_nil n) Hwf Hnd1) as [Hi Hfit].
  - intros t' _ [].
  - rewrite enc_nil, Proofs.len_nil. lia.
  - rewrite render_nil in Hi. cbn [app] in Hi, Hfit.
    assert (Hall : forall l2 d, init_all d (ls ++ l2) =
              match init_all d ls with (d', Ok _) => init_all d' l2 | other => other end).
    { clear. induction ls as [|p ls IH]; intros l2 d; cbn [app init_all]; [reflexivity|].
      destruct (ml_init d (fst p) (snd p)) as [d' [u|e|]]; [apply IH|reflexivity|reflexivity]. }
    rewrite Hall, Hi. cbn [init_all fst snd].
    pose proof (init_canon n (stored ls) t ms Hfit Ht Hms Hsm) as Hc.
    assert (Hlen : len (enc (stored ls)) = total_size ls).
    { clear - Hwf. induction ls as [|[t0 m0] ls IH]; cbn [stored map total_size fold_right fst snd].
      - reflexivity.
      - inversion Hwf as [|p l' [Ht0 [Hm0 _]] Hwf']; subst. cbn [fst snd] in Ht0, Hm0.
        fold (stored ls). fold (total_size ls). rewrite enc_cons, len_app, (IH Hwf'). unfold enc_entry. cbn [fst snd].
        rewrite !len_app, len_le_enc, (lv_enc_len _ Hm0). unfold len at 1. rewrite (proj1 Ht0). lia. }
    assert (Hp : push_ok n (stored ls) t (4 + 35 * len ms) false = false).
    { unfold push_ok. rewrite Hlen. unfold HDR.
      replace (total_size ls + 12 + (4 + 35 * len ms) <=? N.of_nat n) with false by lia.
      now rewrite andb_false_r. }
    rewrite Hp in Hc. destruct Hc as [e ->]. eauto.
Qed.
