(** End to end: a successful update of one instruction's list leaves every other instruction's
    list reading back exactly as before (and a failed one trivially so). *)
From SplVerif Require Import Lib.Base Tlv.Model Tlv.Spec Tlv.Walk Tlv.Parse Tlv.Ops Tlv.Corollaries.
From SplVerif Require Import ListView.Model Resolution.Account MetaList.Model MetaList.Proofs.
Local Open Scope N_scope.

Theorem update_keeps_other_lists n es t a v b ms t' a' ms' b' :
  fits n es -> wf_tag t -> Forall wf_extra ms -> len ms < 100000000 ->
  split_entry es t 0 = Some (a, v, b) ->
  t' <> t -> wf_tag t' -> Forall wf_extra ms' -> len ms' < 4294967296 ->
  split_entry es t' 0 = Some (a', lv_enc ms', b') ->
  ml_reload (fst (ml_update (render n es) t ms)) t' = Ok ms'.
Proof.
  intros Hfit Ht Hms Hsm Hsp Hne Ht' Hms' Hsm' Hsp'.
  pose proof (update_canon n es t a v b ms Hfit Ht Hms Hsm Hsp) as Hu. cbv zeta in Hu.
  destruct ((len v <? 4 + 35 * len ms) && (N.of_nat n <? len (enc es) + (4 + 35 * len ms - len v))).
  - destruct Hu as [e ->]. cbn [fst]. exact (reload_canon n es t' a' ms' b' Hfit Ht' Hms' Hsm' Hsp').
  - destruct Hu as [-> Hfit2]. cbn [fst].
    destruct (split_entry_spec _ _ _ _ _ _ Hsp) as [Hes _].
    pose proof (lookup_value_other a t v (lv_enc ms) b t' 0 (or_introl Hne)) as Hl.
    unfold lookup_value in Hl. rewrite <- Hes, Hsp' in Hl.
    destruct (split_entry (a ++ (t, lv_enc ms) :: b) t' 0) as [[[a2 v2] b2]|] eqn:E2; [|discriminate].
    injection Hl as ->.
    exact (reload_canon n _ t' a2 ms' b2 Hfit2 Ht' Hms' Hsm' E2).
Qed.

Lemma split_entry_snoc (es : list entry) x t' : forall r a' (w : list byte) b',
  split_entry es t' r = Some (a', w, b') -> split_entry (es ++ [x]) t' r = Some (a', w, b' ++ [x]).
Proof.
  induction es as [|e es IH]; intros r a' w b' H; [discriminate|].
  cbn [app split_entry] in *. destruct (tag_eqb (fst e) t').
  - destruct (r =? 0).
    + injection H as <- <- <-. reflexivity.
    + destruct (split_entry es t' (r - 1)) as [[[a2 v2] b2]|] eqn:E; [|discriminate].
      injection H as <- <- <-. now rewrite (IH _ _ _ _ E).
  - destruct (split_entry es t' r) as [[[a2 v2] b2]|] eqn:E; [|discriminate].
    injection H as <- <- <-. now rewrite (IH _ _ _ _ E).
Qed.

(** ... and a successful init of a new instruction's list leaves every existing list as it was *)
Theorem init_keeps_other_lists n es t ms t' a' ms' b' :
  fits n es -> wf_tag t -> Forall wf_extra ms -> len ms < 100000000 ->
  wf_tag t' -> Forall wf_extra ms' -> len ms' < 4294967296 ->
  split_entry es t' 0 = Some (a', lv_enc ms', b') ->
  ml_reload (fst (ml_init (render n es) t ms)) t' = Ok ms'.
Proof.
  intros Hfit Ht Hms Hsm Ht' Hms' Hsm' Hsp'.
  pose proof (init_canon n es t ms Hfit Ht Hms Hsm) as Hi.
  destruct (push_ok n es t (4 + 35 * len ms) false).
  - destruct Hi as [-> Hfit2]. cbn [fst].
    pose proof (split_entry_snoc es (t, lv_enc ms) t' 0 a' (lv_enc ms') b' Hsp') as E.
    exact (reload_canon n _ t' a' ms' _ Hfit2 Ht' Hms' Hsm' E).
  - destruct Hi as [e ->]. cbn [fst]. exact (reload_canon n es t' a' ms' b' Hfit Ht' Hms' Hsm' Hsp').
Qed.
