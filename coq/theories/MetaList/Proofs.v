(** C12: extra-account lists store and reload exactly, per instruction — composition of
    the TLV refinement (Tlv directory) and the list-view refinement (ListView/Proofs.v). *)
From SplVerif Require Import Lib.Base Tlv.Model Tlv.Spec Tlv.Walk Tlv.Parse Tlv.Ops Tlv.Refine Tlv.Corollaries.
From SplVerif Require Import ListView.Model ListView.Proofs Resolution.Seeds Resolution.Account MetaList.Model.
Local Open Scope N_scope.

Definition wf_extra (e : extra) : Prop := length (e_cfg e) = 32%nat.
(** the stored form of a list: PodU32 element count, then the 35-byte configs back to back *)
Definition lv_enc (ms : list extra) : list byte := le_enc 4 (len ms) ++ concat (map em_bytes ms).

Lemma em_bytes_len e : wf_extra e -> len (em_bytes e) = 35.
Proof. intros H. unfold em_bytes, len. cbn [length]. rewrite app_length, H. reflexivity. Qed.
Lemma parse_em e : wf_extra e -> parse_extra (em_bytes e) = e.
Proof.
  intros H. unfold parse_extra, em_bytes. destruct e as [d c s w]. cbn [e_disc e_cfg e_signer e_writable] in *.
  unfold wf_extra in H. cbn [e_cfg] in H. cbn [nth skipn]. f_equal.
  - rewrite firstn_exact'; [reflexivity|now symmetry].
  - change 33%nat with (S 32). cbn [nth]. rewrite app_nth2 by lia. now rewrite H.
  - change 34%nat with (S 32 + 1)%nat. cbn [nth Nat.add]. rewrite app_nth2 by lia. now rewrite H.
Qed.
Lemma em_elems ms : Forall wf_extra ms -> Forall (elem_ok LVP) (map em_bytes ms).
Proof. intros H. apply Forall_map. eapply Forall_impl; [|exact H]. intros e He. unfold elem_ok. now rewrite em_bytes_len. Qed.
Lemma concat_em_len ms : Forall wf_extra ms -> len (concat (map em_bytes ms)) = 35 * len ms.
Proof.
  intros H. rewrite (concat_len LVP) by now apply em_elems. unfold len. rewrite map_length. cbn [szT LVP]. lia.
Qed.
Lemma lv_enc_len ms : Forall wf_extra ms -> len (lv_enc ms) = 4 + 35 * len ms.
Proof. intros H. unfold lv_enc. rewrite len_app, Proofs.len_le_enc, concat_em_len by assumption. reflexivity. Qed.

Theorem size_formula k : 35 * k + 4 < USIZE_LIMIT -> ml_size_of k = Ok (12 + (4 + 35 * k)).
Proof.
  intros H. unfold ml_size_of, size_of, header_padding. cbn [LVP szT szL alT].
  replace (USIZE_LIMIT <=? 35 * k) with false by lia.
  replace (USIZE_LIMIT <=? 35 * k + 4) with false by lia.
  change (1 <=? 1) with true. cbn iota. replace (USIZE_LIMIT <=? 35 * k + 4 + 0) with false by lia.
  cbn [bind]. unfold HDR. f_equal. lia.
Qed.
Lemma lv_size_of k : 35 * k + 4 < USIZE_LIMIT -> size_of LVP k = Ok (4 + 35 * k).
Proof.
  intros H. unfold size_of, header_padding. cbn [LVP szT szL alT].
  replace (USIZE_LIMIT <=? 35 * k) with false by lia.
  replace (USIZE_LIMIT <=? 35 * k + 4) with false by lia.
  change (1 <=? 1) with true. cbn iota. replace (USIZE_LIMIT <=? 35 * k + 4 + 0) with false by lia. f_equal. lia.
Qed.

(** pushing a list of configs into an open list view *)
Lemma push_all_rep ms : forall r cap xs pad rest,
  Forall wf_extra ms -> Rep LVP r cap xs pad rest -> len xs + len ms <= cap -> cap < 4294967296 ->
  exists r' rest', push_all r ms = (r', Ok tt) /\ Rep LVP r' cap (xs ++ map em_bytes ms) pad rest'.
Proof.
  induction ms as [|m ms IH]; intros r cap xs pad rest Hwf R Hcap H32.
  - exists r, rest. cbn [push_all map]. rewrite app_nil_r. auto.
  - inversion Hwf as [|? ? Hm Hms]; subst. cbn [push_all].
    pose proof (push_refines LVP r cap xs pad rest (em_bytes m) R) as Hp.
    assert (He : elem_ok LVP (em_bytes m)) by (unfold elem_ok; now rewrite em_bytes_len).
    specialize (Hp He). rewrite Proofs.len_cons in Hcap.
    replace ((len xs <? cap) && (len xs + 1 <? 256 ^ szL LVP)) with true in Hp
      by (cbn [LVP szL]; change (256 ^ 4) with 4294967296; lia).
    destruct Hp as (r1 & -> & R1).
    destruct (IH r1 cap (xs ++ [em_bytes m]) pad _ Hms R1) as (r' & rest' & Hpa & R'); [rewrite len_app; unfold len in *; cbn [length] in *; lia|assumption|].
    exists r', rest'. split; [exact Hpa|]. cbn [map]. now rewrite <- app_assoc in R'.
Qed.

Theorem fill_list_spec r ms :
  Forall wf_extra ms -> len r = 4 + 35 * len ms -> len ms < 4294967296 ->
  fill_list r ms = (lv_enc ms, Ok tt).
Proof.
  intros Hwf Hr H32. unfold fill_list.
  assert (Hlay : layout_ok LVP r).
  { unfold layout_ok, data_len, data_start, header_padding. cbn [LVP szL szT alT]. change (1 <=? 1) with true. cbn iota.
    rewrite Hr. repeat split; try lia.
    all: try (intros _; replace (4 + 35 * len ms - (4 + 0)) with (len ms * 35) by lia; now apply N.mod_mul).
    all: try (intros H; discriminate). }
  assert (Hcap : capacity_of LVP r = len ms).
  { unfold capacity_of, data_len, data_start, header_padding. cbn [LVP szL szT alT]. change (1 <=? 1) with true. cbn iota.
    change (35 =? 0) with false. cbn iota. rewrite Hr. replace (4 + 35 * len ms - (4 + 0)) with (len ms * 35) by lia.
    now apply N.div_mul. }
  assert (Hwfp : wf_params LVP) by (split; [cbn; tauto|cbn; lia]).
  destruct (init_refines LVP r Hwfp Hlay) as (r0 & pad & rest & Hi & R0 & _).
  { rewrite Hcap. unfold USIZE_LIMIT. lia. }
  rewrite Hi. rewrite Hcap in R0.
  destruct (push_all_rep ms r0 (len ms) [] pad rest Hwf R0) as (r' & rest' & Hp & R'); [rewrite Proofs.len_nil; lia|lia|].
  rewrite Hp. f_equal. cbn [app] in R'.
  pose proof (rep_buf _ _ _ _ _ _ R') as B. pose proof (rep_pad _ _ _ _ _ _ R') as P. pose proof (rep_rest _ _ _ _ _ _ R') as Rr.
  assert (Hl : len (map em_bytes ms) = len ms) by (unfold len; now rewrite map_length).
  rewrite Hl in *. replace (len ms - len ms) with 0 in Rr by lia.
  assert (pad = []) by (destruct pad; [reflexivity|unfold header_padding, len in P; cbn in P; change (1 <=? 1) with true in P; cbn iota in P; lia]).
  assert (rest' = []) by (destruct rest'; [reflexivity|unfold len in Rr; cbn in Rr; lia]).
  subst. unfold lv_enc. cbn [LVP szL app]. now rewrite app_nil_r.
Qed.

(** reading a stored list back *)
Theorem visible_lv_enc ms : Forall wf_extra ms -> len ms < 4294967296 ->
  visible LVP (lv_enc ms) = Ok (map em_bytes ms).
Proof.
  intros Hwf H32.
  apply (rep_visible LVP (lv_enc ms) (len ms) (map em_bytes ms) [] []).
  assert (Hl : len (map em_bytes ms) = len ms) by (unfold len; now rewrite map_length).
  constructor; rewrite ?Hl.
  - unfold lv_enc. cbn [LVP szL app]. now rewrite app_nil_r.
  - reflexivity.
  - now apply em_elems.
  - rewrite Proofs.len_nil. lia.
  - lia.
  - cbn [LVP szL]. change (256 ^ 4) with 4294967296. lia.
  - unfold USIZE_LIMIT. lia.
  - cbn [LVP alT]. lia.
  - cbn [LVP szT]. discriminate.
Qed.

Theorem reload_canon n es t a ms b :
  fits n es -> wf_tag t -> Forall wf_extra ms -> len ms < 4294967296 ->
  split_entry es t 0 = Some (a, lv_enc ms, b) -> ml_reload (render n es) t = Ok ms.
Proof.
  intros Hfit Ht Hwf H32 Hsp. unfold ml_reload. rewrite (check_data_canon n es Hfit). cbn [bind].
  pose proof (read_back n es t 0 Hfit Ht) as Hr. rewrite Hsp in Hr. rewrite Hr. cbn [bind snd].
  rewrite (visible_lv_enc ms Hwf H32). cbn [bind]. f_equal. rewrite map_map.
  rewrite <- (map_id ms) at 2. apply map_ext_in. intros e He. apply parse_em.
  rewrite Forall_forall in Hwf. now apply Hwf.
Qed.
Theorem reload_missing n es t : fits n es -> wf_tag t -> split_entry es t 0 = None ->
  exists e, ml_reload (render n es) t = Err e.
Proof.
  intros Hfit Ht Hsp. unfold ml_reload. rewrite (check_data_canon n es Hfit). cbn [bind].
  pose proof (read_back n es t 0 Hfit Ht) as Hr. rewrite Hsp in Hr. destruct Hr as [e ->]. cbn [bind]. eauto.
Qed.

(** init: allocate exactly the list's size, then fill it *)
Theorem init_canon n es t ms :
  fits n es -> wf_tag t -> Forall wf_extra ms -> len ms < 100000000 ->
  if push_ok n es t (4 + 35 * len ms) false
  then ml_init (render n es) t ms = (render n (es ++ [(t, lv_enc ms)]), Ok tt) /\ fits n (es ++ [(t, lv_enc ms)])
  else exists e, ml_init (render n es) t ms = (render n es, Err e).
Proof.
  intros Hfit Ht Hwf Hsmall. unfold ml_init. rewrite (check_data_canon n es Hfit).
  rewrite lv_size_of by (unfold USIZE_LIMIT; lia).
  set (sz := 4 + 35 * len ms).
  destruct (alloc_canon n es t sz false Hfit Ht) as [Hok Herr].
  destruct (push_ok n es t sz false) eqn:Ep.
  - rewrite (Hok eq_refl).
    assert (Hlv : len (lv_enc ms) = sz) by (unfold sz; now apply lv_enc_len).
    assert (Ep' : push_ok n es t (len (lv_enc ms)) false = true) by now rewrite Hlv.
    destruct (alloc_then_write n es t (lv_enc ms) false Hfit Ht Ep') as (Hw & Hz & Hfits).
    rewrite Hlv in Hw, Hz. split; [|exact Hfits].
    unfold with_region.
    (* the freshly allocated value region is zero *)
    set (B := enc es ++ t ++ le_enc 4 sz ++ zeros (n - length (enc es) - 12)) in *.
    assert (Hslice : slice B (voff es) (voff es + sz) = Some (zeros (N.to_nat sz))).
    { rewrite Hz. rewrite render_split. rewrite len_zeros.
      replace (N.of_nat (length (lv_enc ms))) with sz by (unfold len in Hlv; lia).
      rewrite (app_assoc (enc es) t), (app_assoc (enc es ++ t) (le_enc 4 sz)).
      replace (length (lv_enc ms)) with (N.to_nat sz) by (unfold len in Hlv; lia).
      apply slice_app.
      - rewrite !len_app, Walk.len_le_enc, (wf_tag_len t Ht). unfold voff, HDR. lia.
      - rewrite !len_app, Walk.len_le_enc, (wf_tag_len t Ht), len_zeros. unfold voff, HDR. lia. }
    rewrite Hslice.
    rewrite (fill_list_spec (zeros (N.to_nat sz)) ms Hwf) by (rewrite ?len_zeros; unfold sz; lia).
    rewrite Hw. reflexivity.
  - destruct (Herr eq_refl) as [e ->]. eauto.
Qed.

(** update: resize the entry to the new list's size, then fill it; every other entry keeps
    its bytes (the new slab is the canonical slab of the list with that one value replaced) *)
Theorem update_canon n es t a v b ms :
  fits n es -> wf_tag t -> Forall wf_extra ms -> len ms < 100000000 ->
  split_entry es t 0 = Some (a, v, b) ->
  let sz := 4 + 35 * len ms in
  if (len v <? sz) && (N.of_nat n <? len (enc es) + (sz - len v))
  then exists e, ml_update (render n es) t ms = (render n es, Err e)
  else ml_update (render n es) t ms = (render n (a ++ (t, lv_enc ms) :: b), Ok tt) /\ fits n (a ++ (t, lv_enc ms) :: b).
Proof.
  intros Hfit Ht Hwf Hsmall Hsp. cbv zeta. unfold ml_update. rewrite (check_data_canon n es Hfit).
  rewrite lv_size_of by (unfold USIZE_LIMIT; lia).
  set (sz := 4 + 35 * len ms).
  destruct (locate n es t 0 a v b Hfit Ht Hsp) as [L Hc].
  pose proof (realloc_canon n es t a v b sz Hfit Ht L) as Hr. rewrite Hc in Hr. rewrite Hr.
  destruct ((len v <? sz) && (N.of_nat n <? len (enc es) + (sz - len v))) eqn:Eg; [eauto|].
  replace (U32_LIMIT <=? sz) with false by (unfold U32_LIMIT, sz; lia).
  (* the slab after the TLV resize is canonical for the list with the resized value *)
  pose proof (Refine.step_refines n es (ORealloc t sz 0) Hfit Ht) as (out' & Hs & _ & Hfit').
  cbn [s_step] in Hs, Hfit'. rewrite Hsp, Eg in Hs, Hfit'.
  replace (U32_LIMIT <=? sz) with false in Hs, Hfit' by (unfold U32_LIMIT, sz; lia). cbn [fst] in Hs, Hfit'.
  set (es1 := a ++ (t, resize sz v) :: b) in *.
  assert (Hsp1 : split_entry es1 t 0 = Some (a, resize sz v, b)).
  { destruct (split_entry_spec _ _ _ _ _ _ Hsp) as [-> Hca].
    clear - Hca. unfold es1. revert Hca. induction a as [|e a IH]; intros Hca.
    - cbn [app split_entry fst snd]. now rewrite tag_eqb_refl.
    - cbn [app split_entry]. cbn [count fold_right] in Hca. fold (count t a) in Hca.
      destruct (tag_eqb (fst e) t) eqn:E; [lia|]. rewrite (IH Hca). reflexivity. }
  destruct (locate n es1 t 0 a (resize sz v) b Hfit' Ht Hsp1) as [L1 _].
  assert (Hlv : len (lv_enc ms) = len (resize sz v)) by (rewrite resize_len; unfold sz; now apply lv_enc_len).
  destruct (overwrite_located n es1 t a (resize sz v) b (lv_enc ms) Hfit' Ht L1 Hlv) as [Hw Hfits].
  split; [|exact Hfits].
  unfold with_region.
  pose proof (get_bytes_in_bounds (render n es1) t 0 (voff a) (resize sz v)) as Hb.
  pose proof (read_back n es1 t 0 Hfit' Ht) as Hrb. rewrite Hsp1 in Hrb. specialize (Hb Hrb). destruct Hb as [Hsl _].
  rewrite resize_len in Hsl. rewrite Hsl.
  rewrite (fill_list_spec (resize sz v) ms Hwf) by (rewrite ?resize_len; unfold sz; lia).
  rewrite Hw. reflexivity.
Qed.
Theorem update_missing n es t ms :
  fits n es -> wf_tag t -> len ms < 100000000 -> split_entry es t 0 = None ->
  exists e, ml_update (render n es) t ms = (render n es, Err e).
Proof.
  intros Hfit Ht Hsmall Hsp. unfold ml_update. rewrite (check_data_canon n es Hfit).
  rewrite lv_size_of by (unfold USIZE_LIMIT; lia).
  destruct (get_indices_miss n es t 0 Hfit Ht Hsp) as [e He]. unfold realloc. rewrite He. eauto.
Qed.

(** malformed account bytes: an error, never a panic, and nothing is written *)
Theorem malformed_is_error data t ms :
  (forall u, check_data data <> Ok u) ->
  (exists e, ml_init data t ms = (data, Err e)) /\ (exists e, ml_update data t ms = (data, Err e)) /\
  (exists e, ml_reload data t = Err e).
Proof.
  intros H. pose proof (check_data_total data) as Hp. unfold ml_init, ml_update, ml_reload.
  destruct (check_data data) as [u|e|]; [exfalso; now apply (H u)| |contradiction]. cbn [bind]. repeat split; eauto.
Qed.

(** C12: a buffer of exactly the advertised size works, one byte less fails *)
Theorem exact_size t ms : wf_tag t -> Forall wf_extra ms -> len ms < 100000000 ->
  let n := N.to_nat (12 + (4 + 35 * len ms)) in
  ml_init (zeros n) t ms = (render n [(t, lv_enc ms)], Ok tt) /\
  exists e, ml_init (zeros (n - 1)) t ms = (zeros (n - 1), Err e).
Proof.
  intros Ht Hwf Hs. cbv zeta. set (n := N.to_nat (12 + (4 + 35 * len ms))).
  split.
  - pose proof (init_canon n [] t ms (fits_nil n) Ht Hwf Hs) as H. rewrite render_nil in H.
    assert (Hp : push_ok n [] t (4 + 35 * len ms) false = true).
    { unfold push_ok, has. cbn [existsb negb orb andb]. rewrite enc_nil, Proofs.len_nil. unfold HDR, U32_LIMIT, n. lia. }
    rewrite Hp in H. exact (proj1 H).
  - pose proof (init_canon (n - 1) [] t ms (fits_nil (n - 1)) Ht Hwf Hs) as H. rewrite render_nil in H.
    assert (Hp : push_ok (n - 1) [] t (4 + 35 * len ms) false = false).
    { unfold push_ok, has. cbn [existsb negb orb andb]. rewrite enc_nil, Proofs.len_nil. unfold HDR, n. lia. }
    rewrite Hp in H. exact H.
Qed.
