(** The helpers of state.rs as they are called: from the raw account bytes.  The stored
    configs are read through the TLV and list-view layers ([ml_reload]) and then handed to the
    resolution loops.  Totality on arbitrary account bytes (C07, C12). *)
From SplVerif Require Import Lib.Base Tlv.Model Tlv.Parse ListView.Model ListView.Proofs.
From SplVerif Require Import Resolution.Seeds Resolution.Account Resolution.Proofs MetaList.Model MetaList.Proofs.
Local Open Scope N_scope.

Section Stored.
Variable find_pda : list (list byte) -> key -> option key.

Definition add_offchain_data (fetch : fetcher) (data : list byte) (t : tag) (ix : list byte) (pid : key) (metas : list meta) :=
  let? cfgs := ml_reload data t in add_offchain find_pda fetch cfgs ix pid metas.
Definition add_cpi_data (pool : list info) (data : list byte) (t : tag) (ix : list byte) (pid : key)
           (infos : list info) (metas : list meta) :=
  let? cfgs := ml_reload data t in cpi_loop find_pda pool cfgs ix pid infos metas.
Definition check_account_infos (data : list byte) (t : tag) (ix : list byte) (pid : key) (accounts : list info) :=
  let? cfgs := ml_reload data t in check_accounts find_pda cfgs ix pid accounts.

(** every element the list view exposes has the element size *)
Lemma chunks_len sz : forall n (l : list byte), (n * sz <= length l)%nat ->
  Forall (fun x => length x = sz) (chunks n sz l).
Proof.
  induction n as [|n IH]; intros l H; cbn [chunks]; [constructor|]. constructor.
  - rewrite firstn_length. lia.
  - apply IH. rewrite skipn_length. lia.
Qed.

Lemma wf_params_LVP : wf_params LVP.
Proof. split; [cbn; tauto|cbn; lia]. Qed.

Lemma visible_LVP_spec r :
  match visible LVP r with
  | Ok xs => Forall (fun x => length x = 35%nat) xs
  | Err _ => True
  | Panic => False
  end.
Proof.
  unfold visible. pose proof (unpack_spec LVP r) as Hs. pose proof (unpack_total LVP r wf_params_LVP) as Ht.
  destruct (unpack LVP r) as [[l cap]|e|] eqn:Eu; cbn [bind fst].
  - destruct Hs as (Hlay & -> & -> & Hle & _). destruct (unpack_ok_bounds LVP r _ _ Eu) as (_ & _ & Hds & Hsz).
    rewrite slice_from_some by exact Hds.
    apply chunks_len. rewrite skipn_length. cbn [LVP szT] in *. unfold len in *. nia.
  - exact I.
  - apply Ht; [|reflexivity]. intros [H16 _]. cbn in H16. discriminate.
Qed.

Theorem ml_reload_spec data t :
  match ml_reload data t with
  | Ok cfgs => Forall wf_extra cfgs
  | Err _ => True
  | Panic => False
  end.
Proof.
  unfold ml_reload. pose proof (check_data_total data) as H1.
  destruct (check_data data) as [u|e|]; cbn [bind]; [|exact I|contradiction].
  pose proof (get_bytes_total data t 0) as H2.
  destruct (get_bytes data t 0) as [[off v]|e|]; cbn [bind snd]; [|exact I|contradiction].
  pose proof (visible_LVP_spec v) as H3.
  destruct (visible LVP v) as [xs|e|]; cbn [bind]; [|exact I|contradiction].
  apply Forall_map. eapply Forall_impl; [|exact H3]. intros c Hc.
  cbv beta in Hc. unfold wf_extra, parse_extra. cbn [e_cfg]. rewrite firstn_length, skipn_length. lia.
Qed.

(** for ANY account bytes: validation returns Ok or an error, never panics *)
Theorem check_account_infos_total data t ix pid accounts : check_account_infos data t ix pid accounts <> Panic.
Proof.
  unfold check_account_infos. pose proof (ml_reload_spec data t) as H.
  destruct (ml_reload data t) as [cfgs|e|]; cbn [bind]; [|discriminate|contradiction].
  apply check_accounts_total. eapply Forall_impl; [|exact H]. intros c Hc. exact Hc.
Qed.

(** and succeeds exactly when the stored list reads and the positional rule holds *)
Theorem check_account_infos_iff data t ix pid accounts :
  check_account_infos data t ix pid accounts = Ok tt <->
  exists cfgs, ml_reload data t = Ok cfgs /\ (length cfgs <= length accounts)%nat /\
    forall i c, nth_error cfgs i = Some c -> position_ok find_pda c ix pid accounts (length accounts - length cfgs + i).
Proof.
  unfold check_account_infos. destruct (ml_reload data t) as [cfgs|e|]; cbn [bind].
  - rewrite check_accounts_iff. split; [intros H; exists cfgs; tauto|].
    intros (c' & [= <-] & H). exact H.
  - split; [discriminate|intros (c' & H & _); discriminate].
  - split; [discriminate|intros (c' & H & _); discriminate].
Qed.

(** the two append helpers never panic on arbitrary account bytes either, provided the
    fetcher does not *)
Lemma offchain_loop_no_panic fetch cfgs ix pid : (forall k, fetch k <> Panic) ->
  Forall wf_extra cfgs -> forall kds metas, offchain_loop find_pda fetch cfgs ix pid kds metas <> Panic.
Proof.
  intros Hf. induction 1 as [|c cfgs Hc Hcs IH]; intros kds metas; cbn [offchain_loop]; [discriminate|].
  pose proof (resolve_no_panic find_pda c ix pid (kd_getter kds) Hc) as Hr.
  destruct (Account.resolve find_pda c ix pid (kd_getter kds)) as [m|?|]; cbn [bind]; try discriminate; try contradiction.
  specialize (Hf (m_key (de_escalate m metas))).
  destruct (fetch _) as [d|?|]; cbn [bind]; try discriminate; try contradiction. apply IH.
Qed.
Lemma cpi_loop_no_panic pool cfgs ix pid :
  Forall wf_extra cfgs -> forall infos metas, cpi_loop find_pda pool cfgs ix pid infos metas <> Panic.
Proof.
  induction 1 as [|c cfgs Hc Hcs IH]; intros infos metas; cbn [cpi_loop]; [discriminate|].
  pose proof (resolve_no_panic find_pda c ix pid (info_getter infos) Hc) as Hr.
  destruct (Account.resolve find_pda c ix pid (info_getter infos)) as [m|?|]; cbn [bind]; try discriminate; try contradiction.
  destruct (find _ pool); [apply IH|discriminate].
Qed.
Theorem add_cpi_data_total pool data t ix pid infos metas : add_cpi_data pool data t ix pid infos metas <> Panic.
Proof.
  unfold add_cpi_data. pose proof (ml_reload_spec data t) as H.
  destruct (ml_reload data t) as [cfgs|e|]; cbn [bind]; [|discriminate|contradiction]. now apply cpi_loop_no_panic.
Qed.
Theorem add_offchain_data_total fetch data t ix pid metas : (forall k, fetch k <> Panic) ->
  add_offchain_data fetch data t ix pid metas <> Panic.
Proof.
  intros Hf. unfold add_offchain_data. pose proof (ml_reload_spec data t) as H.
  destruct (ml_reload data t) as [cfgs|e|]; cbn [bind]; [|discriminate|contradiction].
  unfold add_offchain.
  assert (Hfa : forall ms, fetch_all fetch ms <> Panic).
  { induction ms as [|m ms IHm]; cbn [fetch_all]; [discriminate|]. specialize (Hf (m_key m)).
    destruct (fetch (m_key m)); cbn [bind]; try discriminate; try contradiction.
    destruct (fetch_all fetch ms); cbn [bind]; congruence. }
  specialize (Hfa metas). destruct (fetch_all fetch metas) as [kds|?|]; cbn [bind]; try discriminate; try contradiction.
  now apply offchain_loop_no_panic.
Qed.
End Stored.
