(** Byte-level model of list-view/src/{list_view,list_view_mut,list_trait}.rs and the
    usize conversions of pod/src/primitives.rs (definitions only).

    Parameters of an instantiation ListView<T, L>: [szL] = size_of L (2,4,8,16; align 1),
    [szT] = size_of T, [alT] = align_of T, [base] = address of the buffer's first byte.
    Models the code after the D2 repair of [push]; the pre-fix order is [push_prefix].
    D3 (PodU128 prefix above usize::MAX panics in `From<PodU128> for usize`) is a known
    finding and is modelled as the [Panic] it is. *)
From SplVerif Require Import Lib.Base.
Local Open Scope N_scope.

Record params := { szL : N; szT : N; alT : N; base : N }.

Definition USIZE_LIMIT : N := 18446744073709551616.   (* 2^64 *)
Definition E_LV : N := 20.

(** header_padding (align_of L = 1 for every Pod length type) *)
Definition header_padding (p : params) : N :=
  if alT p <=? 1 then 0
  else let r := szL p mod alT p in if r =? 0 then 0 else alT p - r.
Definition data_start (p : params) : N := szL p + header_padding p.

(** ListView::size_of: checked_mul, checked_add, checked_add on usize *)
Definition size_of (p : params) (num_items : N) : outcome N :=
  let a := szT p * num_items in
  if USIZE_LIMIT <=? a then Err E_LV
  else let b := a + szL p in
       if USIZE_LIMIT <=? b then Err E_LV
       else let c := b + header_padding p in
            if USIZE_LIMIT <=? c then Err E_LV else Ok c.

(** bytemuck::try_cast_slice::<u8, T> on the data region: capacity *)
Definition cast_capacity (p : params) (data_len : N) : outcome N :=
  if (1 <? alT p) && negb ((base p + data_start p) mod alT p =? 0) then Err E_LV
  else if szT p =? 1 then Ok data_len
  else if (negb (szT p =? 0) && (data_len mod szT p =? 0)) || ((szT p =? 0) && (data_len =? 0))
       then Ok (if szT p =? 0 then 0 else data_len / szT p)
       else Err E_LV.

(** `From<L> for usize`: only the 128-bit prefix can exceed usize; then it panics (D3) *)
Definition to_usize (v : N) : outcome N := if USIZE_LIMIT <=? v then Panic else Ok v.

(** build_mut_view / the first half of unpack: (stored length, capacity) *)
Definition build_view (p : params) (buf : list byte) : outcome (N * N) :=
  if len buf <? data_start p then Err E_LV
  else match slice buf 0 (szL p), slice_from buf (data_start p) with
       | Some lb, Some data =>
           let? cap := cast_capacity p (len data) in
           Ok (le_dec lb, cap)
       | _, _ => Panic
       end.

(** unpack and unpack_mut: same checks in the same order *)
Definition unpack (p : params) (buf : list byte) : outcome (N * N) :=
  let? v := build_view p buf in
  let? l := to_usize (fst v) in
  if snd v <? l then Err E_LV else Ok (l, snd v).

(** L::try_from(usize) *)
Definition fits_prefix (p : params) (n : N) : bool := n <? 256 ^ (szL p).

(** init: length := 0 *)
Definition init (p : params) (buf : list byte) : list byte * outcome (N * N) :=
  match build_view p buf with
  | Ok (_, cap) =>
      match write_at buf 0 (le_enc (N.to_nat (szL p)) 0) with
      | Some b => (b, Ok (0, cap))
      | None => (buf, Panic)
      end
  | Err e => (buf, Err e)
  | Panic => (buf, Panic)
  end.

Definition elem_off (p : params) (i : N) : N := data_start p + i * szT p.

(** push (after D2) on a view obtained by unpack_mut *)
Definition push (p : params) (buf : list byte) (item : list byte) : list byte * outcome unit :=
  match unpack p buf with
  | Ok (l, cap) =>
      if cap <=? l then (buf, Err E_LV)
      else if negb (fits_prefix p (l + 1)) then (buf, Err E_LV)
      else match write_at buf (elem_off p l) item with
           | None => (buf, Panic)
           | Some b1 =>
               match write_at b1 0 (le_enc (N.to_nat (szL p)) (l + 1)) with
               | Some b2 => (b2, Ok tt)
               | None => (b1, Panic)
               end
           end
  | Err e => (buf, Err e)
  | Panic => (buf, Panic)
  end.
(** pinned tree before D2: element written before the new length is converted *)
Definition push_prefix (p : params) (buf : list byte) (item : list byte) : list byte * outcome unit :=
  match unpack p buf with
  | Ok (l, cap) =>
      if cap <=? l then (buf, Err E_LV)
      else match write_at buf (elem_off p l) item with
           | None => (buf, Panic)
           | Some b1 =>
               if negb (fits_prefix p (l + 1)) then (b1, Err E_LV)
               else match write_at b1 0 (le_enc (N.to_nat (szL p)) (l + 1)) with
                    | Some b2 => (b2, Ok tt)
                    | None => (b1, Panic)
                    end
           end
  | Err e => (buf, Err e)
  | Panic => (buf, Panic)
  end.

(** remove(index): returns the removed element's bytes *)
Definition remove (p : params) (buf : list byte) (index : N) : list byte * outcome (list byte) :=
  match unpack p buf with
  | Ok (l, cap) =>
      if l <=? index then (buf, Err E_LV)
      else match slice buf (elem_off p index) (elem_off p (index + 1)) with
           | None => (buf, Panic)
           | Some removed =>
               match slice buf (elem_off p (index + 1)) (elem_off p l) with
               | None => (buf, Panic)
               | Some tail =>
                   match write_at buf (elem_off p index) tail with
                   | None => (buf, Panic)
                   | Some b1 =>
                       match write_at b1 0 (le_enc (N.to_nat (szL p)) (l - 1)) with
                       | Some b2 => (b2, Ok removed)
                       | None => (b1, Panic)
                       end
                   end
               end
           end
  | Err e => (buf, Err e)
  | Panic => (buf, Panic)
  end.

(** view.get_mut(index) then overwrite (None -> reported as an error by the harness) *)
Definition set_elem (p : params) (buf : list byte) (index : N) (item : list byte) : list byte * outcome unit :=
  match unpack p buf with
  | Ok (l, cap) =>
      if l <=? index then (buf, Err E_LV)
      else match write_at buf (elem_off p index) item with
           | Some b => (b, Ok tt)
           | None => (buf, Panic)
           end
  | Err e => (buf, Err e)
  | Panic => (buf, Panic)
  end.

(** the visible slice as a list of elements *)
Fixpoint chunks (n : nat) (sz : nat) (l : list byte) : list (list byte) :=
  match n with O => [] | S n => firstn sz l :: chunks n sz (skipn sz l) end.
Definition visible (p : params) (buf : list byte) : outcome (list (list byte)) :=
  let? v := unpack p buf in
  match slice_from buf (data_start p) with
  | Some data => Ok (chunks (N.to_nat (fst v)) (N.to_nat (szT p)) data)
  | None => Panic
  end.

(** sort_by over the visible slice with the lexicographic order on element bytes *)
Fixpoint bytes_leb (a b : list byte) : bool :=
  match a, b with
  | [], _ => true
  | _ :: _, [] => false
  | x :: a, y :: b => if Byte.to_N x <? Byte.to_N y then true
                      else if Byte.to_N y <? Byte.to_N x then false else bytes_leb a b
  end.
Fixpoint insert_sorted (x : list byte) (l : list (list byte)) : list (list byte) :=
  match l with
  | [] => [x]
  | y :: l' => if bytes_leb x y then x :: y :: l' else y :: insert_sorted x l'
  end.
Definition sort_elems (l : list (list byte)) : list (list byte) := fold_right insert_sorted [] l.
(** the same insertion sort for any comparison: stable (an element is inserted in front of the first
    one it is not greater than, so it never passes an element it ties with that came before it in
    the input order of later insertions) *)
Fixpoint insert_by (leb : list byte -> list byte -> bool) (x : list byte) (l : list (list byte)) : list (list byte) :=
  match l with
  | [] => [x]
  | y :: l' => if leb x y then x :: y :: l' else y :: insert_by leb x l'
  end.
Definition sort_by (leb : list byte -> list byte -> bool) (l : list (list byte)) : list (list byte) :=
  fold_right (insert_by leb) [] l.
(** a key on which many elements tie: the first byte modulo 4 (0 for an empty element) *)
Definition key4 (a : list byte) : N := match a with [] => 0 | x :: _ => Byte.to_N x mod 4 end.
Definition key4_leb (a b : list byte) : bool := key4 a <=? key4 b.
Definition sort (p : params) (buf : list byte) : list byte * outcome unit :=
  match visible p buf with
  | Ok xs =>
      match write_at buf (data_start p) (concat (sort_elems xs)) with
      | Some b => (b, Ok tt)
      | None => (buf, Panic)
      end
  | Err e => (buf, Err e)
  | Panic => (buf, Panic)
  end.
Definition sort_with (leb : list byte -> list byte -> bool) (p : params) (buf : list byte) : list byte * outcome unit :=
  match visible p buf with
  | Ok xs =>
      match write_at buf (data_start p) (concat (sort_by leb xs)) with
      | Some b => (b, Ok tt)
      | None => (buf, Panic)
      end
  | Err e => (buf, Err e)
  | Panic => (buf, Panic)
  end.

(** List::bytes_used / bytes_allocated *)
Definition bytes_used (p : params) (buf : list byte) : outcome N :=
  let? v := unpack p buf in size_of p (fst v).
Definition bytes_allocated (p : params) (buf : list byte) : outcome N :=
  let? v := unpack p buf in size_of p (snd v).

Inductive op :=
| LInit
| LPush (item : list byte)
| LRemove (index : N)
| LSet (index : N) (item : list byte)
| LSort
| LSortKey.        (* slice::sort_by through DerefMut with a comparator that ties: must be stable *)
