(** Proofs about the list-view model: decoding (C10) and refinement to a
    capacity-bounded vector (C09). *)
From SplVerif Require Import Lib.Base ListView.Model.
Local Open Scope N_scope.

Lemma len_cons {A} (x : A) l : len (x :: l) = 1 + len l.
Proof. unfold len. cbn [length]. lia. Qed.
Lemma len_nil {A} : len (@nil A) = 0. Proof. reflexivity. Qed.
Lemma len_le_enc k n : len (le_enc k n) = N.of_nat k.
Proof. unfold len. now rewrite le_enc_length. Qed.
Lemma slice_some {A} (l : list A) a b : a <= b -> b <= len l ->
  slice l a b = Some (firstn (N.to_nat (b - a)) (skipn (N.to_nat a) l)).
Proof. intros. unfold slice. now replace ((a <=? b) && (b <=? len l)) with true by lia. Qed.
Lemma slice_from_some {A} (l : list A) a : a <= len l -> slice_from l a = Some (skipn (N.to_nat a) l).
Proof. intros H. unfold slice_from. now replace (a <=? len l) with true by lia. Qed.

(** supported instantiations: prefix width 2/4/8/16 bytes, alignment a power of two <= 16 *)
Definition wf_params (p : params) : Prop :=
  (szL p = 2 \/ szL p = 4 \/ szL p = 8 \/ szL p = 16) /\ 1 <= alT p.

(** * Padding *)
Theorem padding_aligns p : 1 <= alT p -> data_start p mod alT p = 0 /\ header_padding p < alT p.
Proof.
  intros Ha. unfold data_start, header_padding.
  destruct (alT p <=? 1) eqn:E1.
  - assert (alT p = 1) by lia. rewrite H. split; [apply N.mod_1_r|lia].
  - destruct (szL p mod alT p =? 0) eqn:E0.
    + split; [rewrite N.add_0_r; lia|lia].
    + assert (Hr : szL p mod alT p < alT p) by (apply N.mod_upper_bound; lia).
      split; [|lia].
      assert (Hdm := N.div_mod (szL p) (alT p) ltac:(lia)).
      set (q := szL p / alT p) in *. set (r := szL p mod alT p) in *.
      replace (szL p + (alT p - r)) with ((q + 1) * alT p) by nia.
      apply N.mod_mul. lia.
Qed.

(** * Decoding: totality, bounds, exact acceptance set *)
Definition stored_len (p : params) (buf : list byte) : N := le_dec (firstn (N.to_nat (szL p)) buf).
Definition data_len (p : params) (buf : list byte) : N := len buf - data_start p.
Definition capacity_of (p : params) (buf : list byte) : N :=
  if szT p =? 0 then 0 else data_len p buf / szT p.
(** the layout conditions of the property, independent of the stored length *)
Definition layout_ok (p : params) (buf : list byte) : Prop :=
  data_start p <= len buf /\
  (szT p <> 0 -> data_len p buf mod szT p = 0) /\ (szT p = 0 -> data_len p buf = 0) /\
  (1 < alT p -> (base p + data_start p) mod alT p = 0).

Lemma build_view_spec p buf :
  match build_view p buf with
  | Ok (l, cap) => layout_ok p buf /\ l = stored_len p buf /\ cap = capacity_of p buf
  | Err _ => ~ layout_ok p buf
  | Panic => False
  end.
Proof.
  unfold build_view, layout_ok, data_len. destruct (len buf <? data_start p) eqn:Es.
  { intros [H _]. lia. }
  assert (HsL : szL p <= data_start p) by (unfold data_start; lia).
  rewrite slice_some by lia. rewrite slice_from_some by lia.
  assert (Hdl : len (skipn (N.to_nat (data_start p)) buf) = len buf - data_start p)
    by (unfold len; rewrite skipn_length; lia).
  rewrite Hdl. unfold cast_capacity.
  destruct ((1 <? alT p) && negb ((base p + data_start p) mod alT p =? 0)) eqn:Eal; cbn [bind].
  { intros (_ & _ & _ & H). lia. }
  unfold stored_len, capacity_of, data_len. change (N.to_nat 0) with 0%nat. cbn [skipn]. rewrite N.sub_0_r.
  destruct (szT p =? 1) eqn:E1; cbn [bind].
  { apply N.eqb_eq in E1. rewrite E1. replace (1 =? 0) with false by reflexivity. rewrite N.div_1_r.
    repeat split; try lia; try (intros _; apply N.mod_1_r). }
  destruct (szT p =? 0) eqn:E0.
  - destruct (len buf - data_start p =? 0) eqn:Ed; cbn [negb andb orb bind].
    + repeat split; try lia.
    + intros (_ & _ & H & _). lia.
  - destruct ((len buf - data_start p) mod szT p =? 0) eqn:Em; cbn [negb andb orb bind].
    + repeat split; try lia.
    + intros (_ & H & _). lia.
Qed.

Theorem unpack_spec p buf :
  match unpack p buf with
  | Ok (l, cap) => layout_ok p buf /\ l = stored_len p buf /\ cap = capacity_of p buf /\ l <= cap /\ l < USIZE_LIMIT
  | Err _ => ~ (layout_ok p buf /\ stored_len p buf <= capacity_of p buf)
  | Panic => layout_ok p buf /\ USIZE_LIMIT <= stored_len p buf
  end.
Proof.
  unfold unpack. pose proof (build_view_spec p buf) as H.
  destruct (build_view p buf) as [[l cap]|e|]; cbn [bind fst snd]; [|tauto|contradiction].
  destruct H as (Hlay & -> & ->). unfold to_usize.
  destruct (USIZE_LIMIT <=? stored_len p buf) eqn:Eu; cbn [bind]; [split; [assumption|lia]|].
  destruct (capacity_of p buf <? stored_len p buf) eqn:Ec; [intros [_ H]; lia|split; [exact Hlay|repeat split; lia]].
Qed.

(** never a panic outside the recorded class D3: a 128-bit prefix holding more than usize::MAX *)
Definition known_class (p : params) (buf : list byte) : Prop :=
  szL p = 16 /\ layout_ok p buf /\ USIZE_LIMIT <= stored_len p buf.

Lemma stored_len_bound p buf : stored_len p buf < 256 ^ szL p.
Proof.
  unfold stored_len. pose proof (le_dec_bound (firstn (N.to_nat (szL p)) buf)) as H.
  eapply N.lt_le_trans; [exact H|]. apply N.pow_le_mono_r; [lia|]. rewrite firstn_length. lia.
Qed.

Theorem unpack_total p buf : wf_params p -> ~ known_class p buf -> unpack p buf <> Panic.
Proof.
  intros [HL _] Hk Hp. pose proof (unpack_spec p buf) as H. rewrite Hp in H. destruct H as [Hlay Hbig].
  pose proof (stored_len_bound p buf) as Hb. unfold USIZE_LIMIT in *.
  destruct HL as [E|[E|[E|E]]]; rewrite E in Hb.
  - change (256 ^ 2) with 65536 in Hb. lia.
  - change (256 ^ 4) with 4294967296 in Hb. lia.
  - change (256 ^ 8) with 18446744073709551616 in Hb. lia.
  - apply Hk. split; [exact E|split; [exact Hlay|exact Hbig]].
Qed.
Theorem known_class_witness :
  let p := {| szL := 16; szT := 1; alT := 1; base := 0 |} in
  let buf := zeros 8 ++ [x01] ++ zeros 7 in
  known_class p buf /\ unpack p buf = Panic.
Proof. cbv zeta. split; [|vm_compute; reflexivity]. repeat split; vm_compute; congruence. Qed.

Theorem unpack_ok_bounds p buf l cap :
  unpack p buf = Ok (l, cap) ->
  l <= cap /\ cap = capacity_of p buf /\ data_start p <= len buf /\
  data_start p + cap * szT p = len buf.
Proof.
  intros Hu. pose proof (unpack_spec p buf) as H. rewrite Hu in H.
  destruct H as ((Hs & Hm & Hz & Ha) & -> & -> & Hle & _). repeat split; try assumption.
  unfold capacity_of, data_len in *. destruct (szT p =? 0) eqn:E0.
  - apply N.eqb_eq in E0. specialize (Hz E0). lia.
  - apply N.eqb_neq in E0. specialize (Hm E0). pose proof (N.div_mod (len buf - data_start p) (szT p) E0). lia.
Qed.

Theorem unpack_accepts_iff p buf :
  (exists v, unpack p buf = Ok v) <->
  (layout_ok p buf /\ stored_len p buf <= capacity_of p buf /\ stored_len p buf < USIZE_LIMIT).
Proof.
  pose proof (unpack_spec p buf) as H. destruct (unpack p buf) as [[l cap]|e|] eqn:Eu.
  - destruct H as (Hlay & -> & -> & Hle & Hus). split; [intros _|eauto].
    split; [exact Hlay|split; assumption].
  - split; [intros [v Hv]; discriminate|intros (H1 & H2 & _); exfalso; apply H; tauto].
  - split; [intros [v Hv]; discriminate|intros (_ & _ & H3); lia].
Qed.

(** * Refinement to a capacity-bounded vector *)
Definition elem_ok (p : params) (x : list byte) : Prop := len x = szT p.

Record Rep (p : params) (buf : list byte) (cap : N) (xs : list (list byte)) (pad rest : list byte) : Prop := {
  rep_buf : buf = le_enc (N.to_nat (szL p)) (len xs) ++ pad ++ concat xs ++ rest;
  rep_pad : len pad = header_padding p;
  rep_elems : Forall (elem_ok p) xs;
  rep_rest : len rest = (cap - len xs) * szT p;
  rep_len : len xs <= cap;
  rep_fits : len xs < 256 ^ szL p;
  rep_usize : cap < USIZE_LIMIT;   (* a Rust slice has fewer than 2^63 elements *)
  rep_align : 1 < alT p -> (base p + data_start p) mod alT p = 0;
  rep_zst : szT p = 0 -> cap = 0;
}.

Lemma concat_len p xs : Forall (elem_ok p) xs -> len (concat xs) = len xs * szT p.
Proof.
  induction 1 as [|x xs Hx Hxs IH]; [reflexivity|]. cbn [concat]. rewrite len_app, len_cons, IH, Hx. lia.
Qed.

Lemma rep_header p buf cap xs pad rest : Rep p buf cap xs pad rest ->
  len (le_enc (N.to_nat (szL p)) (len xs) ++ pad) = data_start p /\
  len buf = data_start p + cap * szT p /\ len (concat xs ++ rest) = cap * szT p.
Proof.
  intros R. pose proof (rep_pad _ _ _ _ _ _ R) as Hp. pose proof (concat_len p xs (rep_elems _ _ _ _ _ _ R)) as Hc.
  pose proof (rep_rest _ _ _ _ _ _ R) as Hr. pose proof (rep_len _ _ _ _ _ _ R) as Hl.
  assert (H1 : len (le_enc (N.to_nat (szL p)) (len xs) ++ pad) = data_start p).
  { rewrite len_app, len_le_enc, Hp. unfold data_start. lia. }
  assert (H3 : len (concat xs ++ rest) = cap * szT p) by (rewrite len_app, Hc, Hr; nia).
  repeat split; try assumption.
  rewrite (rep_buf _ _ _ _ _ _ R). rewrite (app_assoc _ pad), len_app, H1, H3. reflexivity.
Qed.

Theorem rep_unpack p buf cap xs pad rest : Rep p buf cap xs pad rest -> unpack p buf = Ok (len xs, cap).
Proof.
  intros R. destruct (rep_header _ _ _ _ _ _ R) as (H1 & H2 & H3).
  pose proof (unpack_spec p buf) as H.
  assert (Hsl : stored_len p buf = len xs).
  { unfold stored_len. rewrite (rep_buf _ _ _ _ _ _ R). rewrite firstn_exact' by now rewrite le_enc_length.
    rewrite le_dec_enc_small; [reflexivity|]. rewrite N2Nat.id. apply (rep_fits _ _ _ _ _ _ R). }
  assert (Hcap : capacity_of p buf = cap).
  { unfold capacity_of, data_len. rewrite H2. destruct (szT p =? 0) eqn:E0.
    - apply N.eqb_eq in E0. symmetry. apply (rep_zst _ _ _ _ _ _ R E0).
    - apply N.eqb_neq in E0. replace (data_start p + cap * szT p - data_start p) with (cap * szT p) by lia.
      now apply N.div_mul. }
  assert (Hlay : layout_ok p buf).
  { unfold layout_ok, data_len. rewrite H2. replace (data_start p + cap * szT p - data_start p) with (cap * szT p) by lia.
    repeat split; [lia| | |apply (rep_align _ _ _ _ _ _ R)].
    - intros Hn. now apply N.mod_mul.
    - intros Hz. rewrite Hz. lia. }
  pose proof (rep_len _ _ _ _ _ _ R) as Hlen. pose proof (rep_usize _ _ _ _ _ _ R) as Hus.
  destruct (unpack p buf) as [[l c]|e|].
  - destruct H as (_ & -> & -> & _ & _). now rewrite Hsl, Hcap.
  - exfalso. apply H. split; [assumption|]. rewrite Hsl, Hcap. assumption.
  - destruct H as [_ H]. rewrite Hsl in H. lia.
Qed.

Lemma chunks_concat sz xs rest : Forall (fun x => length x = sz) xs -> chunks (length xs) sz (concat xs ++ rest) = xs.
Proof.
  induction 1 as [|x xs Hx Hxs IH]; [reflexivity|]. cbn [length chunks concat].
  rewrite <- app_assoc. rewrite firstn_exact', skipn_exact' by now rewrite Hx. now rewrite IH.
Qed.
Theorem rep_visible p buf cap xs pad rest : Rep p buf cap xs pad rest -> visible p buf = Ok xs.
Proof.
  intros R. unfold visible. rewrite (rep_unpack _ _ _ _ _ _ R). cbn [bind fst].
  destruct (rep_header _ _ _ _ _ _ R) as (H1 & H2 & H3).
  rewrite slice_from_some by lia. rewrite (rep_buf _ _ _ _ _ _ R), (app_assoc _ pad).
  rewrite skipn_exact' by (rewrite <- H1; unfold len at 1; now rewrite Nat2N.id).
  unfold len. rewrite Nat2N.id. f_equal. apply chunks_concat.
  eapply Forall_impl; [|apply (rep_elems _ _ _ _ _ _ R)]. unfold elem_ok, len. intros a Ha. lia.
Qed.

(** rewriting the length prefix *)
Lemma write_prefix p (xs : list (list byte)) (tl : list byte) n :
  write_at (le_enc (N.to_nat (szL p)) (len xs) ++ tl) 0 (le_enc (N.to_nat (szL p)) n)
  = Some (le_enc (N.to_nat (szL p)) n ++ tl).
Proof.
  pose proof (write_at_app (@nil byte) (le_enc (N.to_nat (szL p)) (len xs)) tl (le_enc (N.to_nat (szL p)) n) 0 eq_refl) as H.
  cbn [app] in H. apply H. now rewrite !le_enc_length.
Qed.

Theorem push_refines p buf cap xs pad rest item :
  Rep p buf cap xs pad rest -> elem_ok p item ->
  if (len xs <? cap) && (len xs + 1 <? 256 ^ szL p)
  then exists buf', push p buf item = (buf', Ok tt) /\
                    Rep p buf' cap (xs ++ [item]) pad (skipn (N.to_nat (szT p)) rest)
  else exists e, push p buf item = (buf, Err e).
Proof.
  intros R Hi. unfold push. rewrite (rep_unpack _ _ _ _ _ _ R). unfold fits_prefix.
  destruct (rep_header _ _ _ _ _ _ R) as (H1 & H2 & H3).
  pose proof (concat_len p xs (rep_elems _ _ _ _ _ _ R)) as Hc.
  pose proof (rep_rest _ _ _ _ _ _ R) as Hr.
  destruct (len xs <? cap) eqn:Ec; cbn [andb].
  2:{ replace (cap <=? len xs) with true by lia. eauto. }
  replace (cap <=? len xs) with false by lia.
  destruct (len xs + 1 <? 256 ^ szL p) eqn:Ef; cbn [negb]; [|eauto].
  assert (Hsz : szT p <= len rest) by (rewrite Hr; nia).
  set (slot := firstn (N.to_nat (szT p)) rest). set (rest' := skipn (N.to_nat (szT p)) rest).
  assert (Hrest : rest = slot ++ rest') by (unfold slot, rest'; now rewrite firstn_skipn).
  assert (Hslot : length slot = length item).
  { unfold slot. rewrite firstn_length. unfold elem_ok, len in *. lia. }
  rewrite (rep_buf _ _ _ _ _ _ R). rewrite Hrest.
  rewrite (app_assoc _ pad), (app_assoc _ (concat xs)).
  rewrite (write_at_app _ slot rest' item); [|rewrite len_app, H1, Hc; unfold elem_off; lia|now symmetry].
  rewrite <- !app_assoc. rewrite write_prefix.
  eexists. split; [reflexivity|].
  assert (Hlen1 : len (xs ++ [item]) = len xs + 1) by (rewrite len_app; reflexivity).
  constructor.
  - rewrite Hlen1, concat_app. cbn [concat]. now rewrite app_nil_r, <- !app_assoc.
  - apply (rep_pad _ _ _ _ _ _ R).
  - apply Forall_app. split; [apply (rep_elems _ _ _ _ _ _ R)|constructor; [assumption|constructor]].
  - rewrite Hlen1. unfold rest', len in *. rewrite skipn_length. nia.
  - rewrite Hlen1. lia.
  - rewrite Hlen1. lia.
  - apply (rep_usize _ _ _ _ _ _ R).
  - apply (rep_align _ _ _ _ _ _ R).
  - apply (rep_zst _ _ _ _ _ _ R).
Qed.

(** splitting the element list at an index *)
Lemma split_at_index {A} (xs : list A) (i : N) : i < len xs ->
  exists a x b, xs = a ++ x :: b /\ len a = i.
Proof.
  intros Hi. unfold len in Hi.
  destruct (skipn (N.to_nat i) xs) as [|x b] eqn:Es.
  - apply (f_equal (@length A)) in Es. rewrite skipn_length in Es. cbn in Es. lia.
  - exists (firstn (N.to_nat i) xs), x, b. split.
    + rewrite <- Es. now rewrite firstn_skipn.
    + unfold len. rewrite firstn_length. lia.
Qed.

Theorem set_refines p buf cap xs pad rest i item :
  Rep p buf cap xs pad rest -> elem_ok p item ->
  if i <? len xs
  then exists a x b buf', xs = a ++ x :: b /\ len a = i /\
         set_elem p buf i item = (buf', Ok tt) /\ Rep p buf' cap (a ++ item :: b) pad rest
  else exists e, set_elem p buf i item = (buf, Err e).
Proof.
  intros R Hi. unfold set_elem. rewrite (rep_unpack _ _ _ _ _ _ R).
  destruct (i <? len xs) eqn:Ei.
  2:{ replace (len xs <=? i) with true by lia. eauto. }
  replace (len xs <=? i) with false by lia.
  destruct (split_at_index xs i ltac:(lia)) as (a & x & b & Hxs & Ha).
  destruct (rep_header _ _ _ _ _ _ R) as (H1 & H2 & H3).
  pose proof (rep_elems _ _ _ _ _ _ R) as Hel. rewrite Hxs in Hel.
  apply Forall_app in Hel as [Hela Helb]. inversion Helb as [|? ? Hx Hb]; subst.
  pose proof (concat_len p a Hela) as Hca.
  exists a, x, b.
  rewrite (rep_buf _ _ _ _ _ _ R). rewrite concat_app. cbn [concat]. rewrite <- !app_assoc.
  rewrite (app_assoc _ pad), (app_assoc _ (concat a)).
  rewrite (write_at_app _ x _ item); [|rewrite len_app, H1, Hca; unfold elem_off; lia|unfold elem_ok, len in *; lia].
  eexists. split; [reflexivity|]. split; [reflexivity|]. split; [reflexivity|].
  assert (Hl : len (a ++ item :: b) = len (a ++ x :: b)) by (rewrite !len_app, !len_cons; reflexivity).
  constructor; rewrite ?Hl.
  - rewrite concat_app. cbn [concat]. now rewrite <- !app_assoc.
  - apply (rep_pad _ _ _ _ _ _ R).
  - apply Forall_app. split; [assumption|constructor; assumption].
  - apply (rep_rest _ _ _ _ _ _ R).
  - apply (rep_len _ _ _ _ _ _ R).
  - apply (rep_fits _ _ _ _ _ _ R).
  - apply (rep_usize _ _ _ _ _ _ R).
  - apply (rep_align _ _ _ _ _ _ R).
  - apply (rep_zst _ _ _ _ _ _ R).
Qed.

Theorem remove_refines p buf cap xs pad rest i :
  Rep p buf cap xs pad rest ->
  if i <? len xs
  then exists a x b buf' stale, xs = a ++ x :: b /\ len a = i /\
         remove p buf i = (buf', Ok x) /\ Rep p buf' cap (a ++ b) pad (stale ++ rest) /\ len stale = szT p
  else exists e, remove p buf i = (buf, Err e).
Proof.
  intros R. unfold remove. rewrite (rep_unpack _ _ _ _ _ _ R).
  destruct (i <? len xs) eqn:Ei.
  2:{ replace (len xs <=? i) with true by lia. eauto. }
  replace (len xs <=? i) with false by lia.
  destruct (split_at_index xs i ltac:(lia)) as (a & x & b & Hxs & Ha).
  destruct (rep_header _ _ _ _ _ _ R) as (H1 & H2 & H3).
  pose proof (rep_elems _ _ _ _ _ _ R) as Hel. rewrite Hxs in Hel.
  apply Forall_app in Hel as [Hela Helb]. inversion Helb as [|? ? Hx Hb]; subst.
  pose proof (concat_len p a Hela) as Hca. pose proof (concat_len p b Hb) as Hcb.
  exists a, x, b.
  set (H := le_enc (N.to_nat (szL p)) (len (a ++ x :: b)) ++ pad) in *.
  assert (Hbuf : buf = (H ++ concat a) ++ x ++ concat b ++ rest).
  { rewrite (rep_buf _ _ _ _ _ _ R). unfold H. rewrite concat_app. cbn [concat]. now rewrite <- !app_assoc. }
  assert (HlenHa : len (H ++ concat a) = elem_off p (len a)) by (rewrite len_app, H1, Hca; unfold elem_off; lia).
  assert (Hlx : len (a ++ x :: b) = len a + 1 + len b) by (rewrite len_app, len_cons; lia).
  rewrite Hbuf.
  rewrite (slice_app (H ++ concat a) x (concat b ++ rest)); [|now symmetry|rewrite HlenHa, Hx; unfold elem_off, elem_ok in *; lia].
  assert (HlenHax : len ((H ++ concat a) ++ x) = elem_off p (len a + 1)).
  { rewrite (len_app (H ++ concat a) x), HlenHa, Hx. unfold elem_off. nia. }
  rewrite (app_assoc (H ++ concat a) x).
  rewrite (slice_app ((H ++ concat a) ++ x) (concat b) rest);
    [|now symmetry|rewrite HlenHax, Hcb, Hlx; unfold elem_off; nia].
  rewrite <- (app_assoc (H ++ concat a) x).
  (* overwrite the first |concat b| bytes of x ++ concat b *)
  set (xb := x ++ concat b).
  set (front := firstn (length (concat b)) xb). set (stale := skipn (length (concat b)) xb).
  assert (Hxb : xb = front ++ stale) by (unfold front, stale; now rewrite firstn_skipn).
  assert (Hfront : length front = length (concat b)).
  { unfold front, xb. rewrite firstn_length, app_length. lia. }
  assert (Hstale : len stale = szT p).
  { unfold stale, xb, elem_ok, len in *. rewrite skipn_length, app_length. lia. }
  replace (x ++ concat b ++ rest) with (front ++ stale ++ rest) by (rewrite !app_assoc, <- Hxb; unfold xb; now rewrite <- !app_assoc).
  rewrite (write_at_app (H ++ concat a) front (stale ++ rest) (concat b)); [|now symmetry|now symmetry].
  unfold H at 1. rewrite <- !app_assoc. rewrite write_prefix.
  exists (le_enc (N.to_nat (szL p)) (len (a ++ x :: b) - 1) ++ pad ++ concat a ++ concat b ++ stale ++ rest), stale.
  split; [reflexivity|]. split; [reflexivity|]. split; [reflexivity|]. split; [|exact Hstale].
  assert (Hl : len (a ++ b) = len (a ++ x :: b) - 1) by (rewrite !len_app, len_cons; lia).
  pose proof (rep_rest _ _ _ _ _ _ R) as Hr. pose proof (rep_len _ _ _ _ _ _ R) as Hlen.
  pose proof (rep_fits _ _ _ _ _ _ R) as Hfit.
  constructor.
  - rewrite Hl, concat_app. now rewrite <- !app_assoc.
  - apply (rep_pad _ _ _ _ _ _ R).
  - apply Forall_app. split; assumption.
  - rewrite len_app, Hstale, Hr, Hl. nia.
  - rewrite Hl. lia.
  - rewrite Hl. lia.
  - apply (rep_usize _ _ _ _ _ _ R).
  - apply (rep_align _ _ _ _ _ _ R).
  - apply (rep_zst _ _ _ _ _ _ R).
Qed.

(** init: from any buffer with an acceptable layout *)
Theorem init_refines p buf :
  wf_params p -> layout_ok p buf -> capacity_of p buf < USIZE_LIMIT ->
  exists buf' pad rest, init p buf = (buf', Ok (0, capacity_of p buf)) /\
                        Rep p buf' (capacity_of p buf) [] pad rest /\ length buf' = length buf.
Proof.
  intros Hwf Hlay Hcap. unfold init. pose proof (build_view_spec p buf) as H.
  destruct (build_view p buf) as [[l c]|e|]; [|contradiction|contradiction].
  destruct H as (_ & _ & ->). destruct Hlay as (Hs & Hm & Hz & Ha).
  assert (HsL : szL p <= data_start p) by (unfold data_start; lia).
  set (lb := firstn (N.to_nat (szL p)) buf). set (tl := skipn (N.to_nat (szL p)) buf).
  assert (Hb : buf = lb ++ tl) by (unfold lb, tl; now rewrite firstn_skipn).
  assert (Hlb : length lb = N.to_nat (szL p)) by (unfold lb; rewrite firstn_length; unfold len in *; lia).
  pose proof (write_at_app (@nil byte) lb tl (le_enc (N.to_nat (szL p)) 0) 0 eq_refl) as Hw. cbn [app] in Hw.
  assert (Hw' : write_at buf 0 (le_enc (N.to_nat (szL p)) 0) = Some (le_enc (N.to_nat (szL p)) 0 ++ tl)).
  { rewrite <- Hw by (now rewrite le_enc_length). f_equal. exact Hb. }
  rewrite Hw'.
  set (pad := firstn (N.to_nat (header_padding p)) tl). set (rest := skipn (N.to_nat (header_padding p)) tl).
  exists (le_enc (N.to_nat (szL p)) 0 ++ tl), pad, rest. split; [reflexivity|].
  assert (Htl : len tl = len buf - szL p) by (unfold tl, len; rewrite skipn_length; lia).
  split.
  - constructor.
    + cbn [concat app]. unfold pad, rest. now rewrite firstn_skipn.
    + unfold pad, len in *. rewrite firstn_length. unfold data_start in *. lia.
    + constructor.
    + unfold rest, len in *. rewrite skipn_length. cbn [length]. unfold capacity_of, data_len, data_start, len in *.
      destruct (szT p =? 0) eqn:E0.
      * apply N.eqb_eq in E0. specialize (Hz E0). lia.
      * apply N.eqb_neq in E0. specialize (Hm E0).
        pose proof (N.div_mod (N.of_nat (length buf) - (szL p + header_padding p)) (szT p) E0). nia.
    + rewrite len_nil. lia.
    + rewrite len_nil. destruct Hwf as [[E|[E|[E|E]]] _]; rewrite E; reflexivity.
    + exact Hcap.
    + exact Ha.
    + intros E0. unfold capacity_of. now rewrite E0.
  - rewrite app_length, le_enc_length. rewrite (f_equal (@length byte) Hb), app_length. lia.
Qed.

(** size_of: a buffer of the reported size has capacity exactly n *)
Theorem size_of_exact p n s buf :
  size_of p n = Ok s -> szT p <> 0 -> len buf = s ->
  capacity_of p buf = n /\ data_start p <= len buf /\ data_len p buf mod szT p = 0.
Proof.
  unfold size_of. destruct (USIZE_LIMIT <=? szT p * n); [discriminate|].
  destruct (USIZE_LIMIT <=? szT p * n + szL p); [discriminate|].
  destruct (USIZE_LIMIT <=? szT p * n + szL p + header_padding p); [discriminate|].
  intros [= <-] Hz Hl. unfold capacity_of, data_len, data_start. rewrite Hl.
  replace (szT p =? 0) with false by lia.
  replace (szT p * n + szL p + header_padding p - (szL p + header_padding p)) with (n * szT p) by lia.
  repeat split; [now apply N.div_mul|lia|now apply N.mod_mul].
Qed.
Theorem size_of_formula p n s : size_of p n = Ok s -> s = szL p + header_padding p + szT p * n.
Proof.
  unfold size_of. destruct (USIZE_LIMIT <=? szT p * n); [discriminate|].
  destruct (USIZE_LIMIT <=? szT p * n + szL p); [discriminate|].
  destruct (USIZE_LIMIT <=? szT p * n + szL p + header_padding p); [discriminate|]. intros [= <-]. lia.
Qed.

(** sorting permutes the visible elements and nothing else *)
Lemma insert_sorted_len x l : length (insert_sorted x l) = S (length l).
Proof. induction l as [|y l IH]; [reflexivity|]. cbn. destruct (bytes_leb x y); cbn; auto. Qed.
Lemma sort_elems_len l : length (sort_elems l) = length l.
Proof. induction l as [|x l IH]; [reflexivity|]. cbn [sort_elems fold_right length]. fold (sort_elems l). now rewrite insert_sorted_len, IH. Qed.
Lemma insert_sorted_forall (P : list byte -> Prop) x l : P x -> Forall P l -> Forall P (insert_sorted x l).
Proof.
  intros Hx H. induction H as [|y l Hy Hl IH]; cbn; [auto|]. destruct (bytes_leb x y); auto.
Qed.
Lemma sort_elems_forall (P : list byte -> Prop) l : Forall P l -> Forall P (sort_elems l).
Proof. induction 1 as [|x l Hx Hl IH]; cbn; [constructor|]. now apply insert_sorted_forall. Qed.
From Coq Require Import Permutation.
From Coq Require Sorted.
Lemma insert_sorted_perm x l : Permutation (x :: l) (insert_sorted x l).
Proof.
  induction l as [|y l IH]; cbn; [auto|]. destruct (bytes_leb x y); [auto|].
  eapply perm_trans; [apply perm_swap|]. now constructor.
Qed.
Theorem sort_elems_perm l : Permutation l (sort_elems l).
Proof.
  induction l as [|x l IH]; cbn; [constructor|].
  eapply perm_trans; [apply perm_skip, IH|apply insert_sorted_perm].
Qed.

Theorem sort_refines p buf cap xs pad rest :
  Rep p buf cap xs pad rest ->
  exists buf', sort p buf = (buf', Ok tt) /\ Rep p buf' cap (sort_elems xs) pad rest.
Proof.
  intros R. unfold sort. rewrite (rep_visible _ _ _ _ _ _ R).
  destruct (rep_header _ _ _ _ _ _ R) as (H1 & H2 & H3).
  pose proof (rep_elems _ _ _ _ _ _ R) as Hel.
  pose proof (sort_elems_forall _ _ Hel) as Hel'.
  pose proof (concat_len p xs Hel) as Hc. pose proof (concat_len p _ Hel') as Hc'.
  assert (Hl : len (sort_elems xs) = len xs) by (unfold len; now rewrite sort_elems_len).
  rewrite (rep_buf _ _ _ _ _ _ R). rewrite (app_assoc _ pad).
  rewrite (write_at_app _ (concat xs) rest (concat (sort_elems xs))); [|now symmetry|unfold len in *; nia].
  eexists. split; [reflexivity|].
  constructor; rewrite ?Hl; try apply R.
  - now rewrite <- !app_assoc.
  - exact Hel'.
Qed.

(** the generic insertion sort: same facts, plus stability *)
Lemma insert_by_len leb x l : length (insert_by leb x l) = S (length l).
Proof. induction l as [|y l IH]; [reflexivity|]. cbn. destruct (leb x y); cbn; auto. Qed.
Lemma sort_by_len leb l : length (sort_by leb l) = length l.
Proof. induction l as [|x l IH]; [reflexivity|]. cbn [sort_by fold_right length]. fold (sort_by leb l). now rewrite insert_by_len, IH. Qed.
Lemma insert_by_forall leb (P : list byte -> Prop) x l : P x -> Forall P l -> Forall P (insert_by leb x l).
Proof. intros Hx H. induction H as [|y l Hy Hl IH]; cbn; [auto|]. destruct (leb x y); auto. Qed.
Lemma sort_by_forall leb (P : list byte -> Prop) l : Forall P l -> Forall P (sort_by leb l).
Proof. induction 1 as [|x l Hx Hl IH]; cbn; [constructor|]. now apply insert_by_forall. Qed.
Lemma insert_by_perm leb x l : Permutation (x :: l) (insert_by leb x l).
Proof.
  induction l as [|y l IH]; cbn; [auto|]. destruct (leb x y); [auto|].
  eapply perm_trans; [apply perm_swap|]. now constructor.
Qed.
Theorem sort_by_perm leb l : Permutation l (sort_by leb l).
Proof.
  induction l as [|x l IH]; cbn; [constructor|].
  eapply perm_trans; [apply perm_skip, IH|apply insert_by_perm].
Qed.

Section KeySort.
Variable key : list byte -> N.
Let kleb (a b : list byte) : bool := key a <=? key b.
(** inserting moves the new element only past elements with a strictly smaller key *)
Lemma insert_by_filter x l k :
  filter (fun z => key z =? k) (insert_by kleb x l) = filter (fun z => key z =? k) (x :: l).
Proof.
  induction l as [|y l IH]; [reflexivity|]. cbn [insert_by]. unfold kleb at 1.
  destruct (key x <=? key y) eqn:E; [reflexivity|].
  cbn [filter] in *. rewrite IH.
  destruct (key x =? k) eqn:Ex; destruct (key y =? k) eqn:Ey; try reflexivity.
  exfalso. lia.
Qed.
(** stability: the elements of any one key keep their relative order *)
Theorem sort_by_stable l k :
  filter (fun z => key z =? k) (sort_by kleb l) = filter (fun z => key z =? k) l.
Proof.
  induction l as [|x l IH]; [reflexivity|]. cbn [sort_by fold_right]. fold (sort_by kleb l).
  rewrite insert_by_filter. cbn [filter]. now rewrite IH.
Qed.
Lemma insert_by_sorted x l :
  Sorted.StronglySorted (fun a b => key a <= key b) l -> Sorted.StronglySorted (fun a b => key a <= key b) (insert_by kleb x l).
Proof.
  induction 1 as [|y l Hs IH Hy]; cbn [insert_by]; [repeat constructor|]. unfold kleb at 1.
  destruct (key x <=? key y) eqn:E.
  - constructor; [constructor; assumption|]. constructor; [lia|].
    eapply Forall_impl; [|exact Hy]. intros a Ha. cbn in *. lia.
  - constructor; [exact IH|]. apply insert_by_forall; [lia|exact Hy].
Qed.
Theorem sort_by_sorted l : Sorted.StronglySorted (fun a b => key a <= key b) (sort_by kleb l).
Proof. induction l as [|x l IH]; cbn; [constructor|]. now apply insert_by_sorted. Qed.
End KeySort.

Theorem sort_with_refines leb p buf cap xs pad rest :
  Rep p buf cap xs pad rest ->
  exists buf', sort_with leb p buf = (buf', Ok tt) /\ Rep p buf' cap (sort_by leb xs) pad rest.
Proof.
  intros R. unfold sort_with. rewrite (rep_visible _ _ _ _ _ _ R).
  destruct (rep_header _ _ _ _ _ _ R) as (H1 & H2 & H3).
  pose proof (rep_elems _ _ _ _ _ _ R) as Hel.
  pose proof (sort_by_forall leb _ _ Hel) as Hel'.
  pose proof (concat_len p xs Hel) as Hc. pose proof (concat_len p _ Hel') as Hc'.
  assert (Hl : len (sort_by leb xs) = len xs) by (unfold len; now rewrite sort_by_len).
  rewrite (rep_buf _ _ _ _ _ _ R). rewrite (app_assoc _ pad).
  rewrite (write_at_app _ (concat xs) rest (concat (sort_by leb xs))); [|now symmetry|unfold len in *; nia].
  eexists. split; [reflexivity|].
  constructor; rewrite ?Hl; try apply R.
  - now rewrite <- !app_assoc.
  - exact Hel'.
Qed.

(** * Histories: the list view refines a capacity-bounded vector *)
Definition vec_step (p : params) (cap : N) (xs : list (list byte)) (o : op) : list (list byte) :=
  match o with
  | LInit => []
  | LPush item => if (len xs <? cap) && (len xs + 1 <? 256 ^ szL p) then xs ++ [item] else xs
  | LRemove i => if i <? len xs then firstn (N.to_nat i) xs ++ skipn (S (N.to_nat i)) xs else xs
  | LSet i item => if i <? len xs then firstn (N.to_nat i) xs ++ item :: skipn (S (N.to_nat i)) xs else xs
  | LSort => sort_elems xs
  | LSortKey => sort_by key4_leb xs
  end.
Definition lv_step (p : params) (buf : list byte) (o : op) : list byte :=
  match o with
  | LInit => fst (init p buf)
  | LPush item => fst (push p buf item)
  | LRemove i => fst (remove p buf i)
  | LSet i item => fst (set_elem p buf i item)
  | LSort => fst (sort p buf)
  | LSortKey => fst (sort_with key4_leb p buf)
  end.
Definition op_ok (p : params) (o : op) : Prop :=
  match o with LPush item | LSet _ item => elem_ok p item | _ => True end.

Lemma split_firstn_skipn {A} (a : list A) x b i : len a = i ->
  firstn (N.to_nat i) (a ++ x :: b) = a /\ skipn (S (N.to_nat i)) (a ++ x :: b) = b.
Proof.
  intros <-. unfold len. rewrite Nat2N.id. split; [apply firstn_exact|].
  change (S (length a)) with (1 + length a)%nat. rewrite skipn_add, skipn_exact. reflexivity.
Qed.

Theorem step_refines p buf cap xs pad rest o :
  wf_params p -> Rep p buf cap xs pad rest -> op_ok p o ->
  exists rest', Rep p (lv_step p buf o) cap (vec_step p cap xs o) pad rest'.
Proof.
  intros Hwf R Ho. destruct o as [|item|i|i item| |]; cbn [lv_step vec_step op_ok] in *.
  - (* init on an open buffer *)
    pose proof (rep_unpack _ _ _ _ _ _ R) as Hu. pose proof (unpack_spec p buf) as Hs. rewrite Hu in Hs.
    destruct Hs as (Hlay & _ & Hcap & _).
    destruct (init_refines p buf Hwf Hlay) as (buf' & pad' & rest' & Hi & R' & _).
    { rewrite <- Hcap. apply (rep_usize _ _ _ _ _ _ R). }
    rewrite Hi. cbn [fst]. rewrite <- Hcap in R'.
    (* the padding bytes are untouched by init: same [pad] *)
    assert (Hpad : pad' = pad).
    { pose proof (rep_buf _ _ _ _ _ _ R') as B'. pose proof (rep_buf _ _ _ _ _ _ R) as B.
      unfold init in Hi. destruct (build_view p buf) as [[l c]|?|]; try discriminate.
      rewrite B in Hi. rewrite write_prefix in Hi. injection Hi as Hb _. rewrite B' in Hb.
      cbn [concat app] in Hb. change (len (@nil (list byte))) with 0 in Hb.
      apply app_inv_head in Hb.
      pose proof (rep_pad _ _ _ _ _ _ R') as P'. pose proof (rep_pad _ _ _ _ _ _ R) as P.
      apply (f_equal (firstn (length pad))) in Hb.
      rewrite firstn_exact in Hb. rewrite firstn_exact' in Hb by (unfold len in *; lia). now symmetry. }
    subst pad'. eauto.
  - pose proof (push_refines p buf cap xs pad rest item R Ho) as H.
    destruct ((len xs <? cap) && (len xs + 1 <? 256 ^ szL p)).
    + destruct H as (buf' & -> & R'). eauto.
    + destruct H as (e & ->). eauto.
  - pose proof (remove_refines p buf cap xs pad rest i R) as H. destruct (i <? len xs).
    + destruct H as (a & x & b & buf' & stale & -> & Ha & -> & R' & _). cbn [fst].
      destruct (split_firstn_skipn a x b i Ha) as [-> ->]. eauto.
    + destruct H as (e & ->). eauto.
  - pose proof (set_refines p buf cap xs pad rest i item R Ho) as H. destruct (i <? len xs).
    + destruct H as (a & x & b & buf' & -> & Ha & -> & R'). cbn [fst].
      destruct (split_firstn_skipn a x b i Ha) as [-> ->]. eauto.
    + destruct H as (e & ->). eauto.
  - destruct (sort_refines p buf cap xs pad rest R) as (buf' & -> & R'). eauto.
  - destruct (sort_with_refines key4_leb p buf cap xs pad rest R) as (buf' & -> & R'). eauto.
Qed.

Theorem run_refines p ops : forall buf cap xs pad rest,
  wf_params p -> Rep p buf cap xs pad rest -> Forall (op_ok p) ops ->
  exists rest', Rep p (fold_left (lv_step p) ops buf) cap (fold_left (vec_step p cap) ops xs) pad rest'.
Proof.
  induction ops as [|o ops IH]; intros buf cap xs pad rest Hwf R Hops; [cbn; eauto|].
  inversion Hops as [|? ? Ho Hops']; subst. cbn [fold_left].
  destruct (step_refines p buf cap xs pad rest o Hwf R Ho) as (rest' & R'). eapply IH; eauto.
Qed.

(** the vector never exceeds its capacity, and what is visible is the vector *)
Theorem rep_bounded p buf cap xs pad rest : Rep p buf cap xs pad rest ->
  len xs <= cap /\ unpack p buf = Ok (len xs, cap) /\ visible p buf = Ok xs.
Proof. intros R. split; [apply R|]. split; [now apply (rep_unpack _ _ _ _ _ _ R)|now apply (rep_visible _ _ _ _ _ _ R)]. Qed.

(** C09/C10: what a view exposes lies inside the buffer *)
Theorem visible_in_bounds p buf xs : visible p buf = Ok xs ->
  exists l cap, unpack p buf = Ok (l, cap) /\ length xs = N.to_nat l /\
                data_start p + l * szT p <= len buf.
Proof.
  unfold visible. destruct (unpack p buf) as [[l cap]|e|] eqn:Eu; cbn [bind fst]; try discriminate.
  destruct (unpack_ok_bounds p buf l cap Eu) as (Hle & _ & Hds & Hsz).
  rewrite slice_from_some by exact Hds. intros [= <-]. exists l, cap. split; [reflexivity|]. split.
  - clear. generalize (skipn (N.to_nat (data_start p)) buf). generalize (N.to_nat (szT p)).
    induction (N.to_nat l) as [|n IH]; intros sz d; cbn [chunks length]; [reflexivity|]. now rewrite IH.
  - nia.
Qed.
Theorem bytes_used_allocated p buf cap xs pad rest : Rep p buf cap xs pad rest ->
  bytes_used p buf = size_of p (len xs) /\ bytes_allocated p buf = size_of p cap.
Proof.
  intros R. unfold bytes_used, bytes_allocated. rewrite (rep_unpack _ _ _ _ _ _ R). split; reflexivity.
Qed.

