(** C04 — failed TLV mutations leave the buffer untouched. *)
From SplVerif Require Import Lib.Base Tlv.Model Tlv.Spec Tlv.Walk Tlv.Parse Tlv.Ops Tlv.Refine Tlv.Corollaries Tlv.AnyTail Tlv.FailedHistory.
Local Open Scope N_scope.

(** allocate / initialise / allocate-and-pack / resize / (typed) write: an error means
    not one byte changed — in every reachable slab, for every error branch *)
Theorem C04_atomic : forall n es o e, fits n es -> wf_op o -> is_pack_var o = false ->
  snd (step (render n es) o) = Err e -> fst (step (render n es) o) = render n es.
Proof. exact failed_op_unchanged. Qed.

Theorem C04_still_opens : forall n es o e, fits n es -> wf_op o ->
  snd (step (render n es) o) = Err e -> check_data (fst (step (render n es) o)) = Ok tt.
Proof. exact failed_op_still_opens. Qed.

(** a failed variable-length pack touches nothing outside the entry's value region *)
Theorem C04_pack_confined : forall n es t r en p e a v b,
  fits n es -> wf_tag t -> split_entry es t r = Some (a, v, b) ->
  snd (step (render n es) (OPackVar t r en p)) = Err e ->
  let buf' := fst (step (render n es) (OPackVar t r en p)) in
  firstn (N.to_nat (voff a)) buf' = firstn (N.to_nat (voff a)) (render n es) /\
  skipn (N.to_nat (voff a + len v)) buf' = skipn (N.to_nat (voff a + len v)) (render n es) /\
  length buf' = length (render n es).
Proof. exact failed_pack_confined. Qed.

(** the error branches of the spec, enumerated: a failed step of the entry list is the identity *)
Theorem C04_spec_error_is_identity : forall n es o e, is_pack_var o = false ->
  snd (s_step n es o) = Err e -> fst (s_step n es o) = es.
Proof. exact s_step_err_unchanged. Qed.

(** beyond canonical slabs: on any valid slab (entries followed by an arbitrary terminator-led tail,
    e.g. a recycled buffer) a failed resize returns the same bytes, and they still open *)
Theorem C04_resize_error_identity_any_valid_slab : forall es (tail : list byte) t r a v b l e,
  Forall wf_entry es -> term tail -> wf_tag t -> split_entry es t r = Some (a, v, b) ->
  snd (realloc (enc es ++ tail) t l r) = Err e ->
  fst (realloc (enc es ++ tail) t l r) = enc es ++ tail /\ check_data (enc es ++ tail) = Ok tt.
Proof. exact realloc_error_identity_any_tail. Qed.

(** non-vacuity: the input on which the pinned tree violated this (D1) is an error case *)
Example C04_nonvacuous :
  let t := [x01;x01;x01;x01;x01;x01;x01;x01] in
  step (zeros 20) (OAlloc t 9 false) = (zeros 20, Err E_INVALID_ACCOUNT_DATA) /\
  fst (alloc_prefix (zeros 20) t 9 false) <> zeros 20.
Proof. cbv zeta. split; [vm_compute; reflexivity|vm_compute; discriminate]. Qed.

(** over whole histories (any length, any mix of allocate / initialise / allocate-and-pack /
    resize / write operations): the operations that return an error might as well not have been
    issued -- the final bytes are those of the history with the failed operations removed, and
    the slab is still canonical *)
Theorem C04_failed_ops_are_noops : forall ops n es,
  fits n es -> Forall wf_op ops -> Forall (fun o => is_pack_var o = false) ops ->
  run ops (render n es) = run_dropping_failed (render n es) ops /\
  exists es', run ops (render n es) = render n es' /\ fits n es'.
Proof. exact failed_ops_are_noops. Qed.
Theorem C04_all_failed_identity : forall ops n es,
  fits n es -> Forall wf_op ops -> Forall (fun o => is_pack_var o = false) ops ->
  (forall o, In o ops -> exists e, snd (step (render n es) o) = Err e) ->
  run ops (render n es) = render n es.
Proof. exact all_failed_identity. Qed.
