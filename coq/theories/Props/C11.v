(** C11 — seed and key-data address configs round-trip canonically within 32 bytes.
    Statement-only file: every theorem is closed by [exact]. *)
From SplVerif Require Import Lib.Base Resolution.Seeds Resolution.SeedsProofs.
Local Open Scope N_scope.

(** Packing succeeds exactly when no seed is uninitialised and the mathematical
    sizes (2+n, 3, 2, 4) total at most 32; literal lengths are unbounded here. *)
Theorem C11_pack_iff : forall ss,
  (exists b, pack_config ss = Ok b) <-> (all_init ss = true /\ total_size ss <= 32).
Proof. exact pack_config_iff. Qed.

(** ... then the bytes are the canonical encoding followed by zeros (never truncated) *)
Theorem C11_pack_canonical : forall ss b, pack_config ss = Ok b ->
  b = enc_seeds ss ++ zeros (N.to_nat (32 - total_size ss)).
Proof. intros ss b H. pose proof (pack_config_spec ss) as S. rewrite H in S. exact (proj2 (proj2 S)). Qed.

(** ... otherwise an error, never a panic *)
Theorem C11_pack_err : forall ss,
  ~ (all_init ss = true /\ total_size ss <= 32) -> exists e, pack_config ss = Err e.
Proof. exact pack_config_err. Qed.
Theorem C11_pack_no_panic : forall ss, pack_config ss <> Panic.
Proof. exact pack_config_no_panic. Qed.

Theorem C11_roundtrip : forall ss b, pack_config ss = Ok b -> unpack_config b = Ok ss.
Proof. exact unpack_pack_roundtrip. Qed.
Theorem C11_unused_zero : forall ss b, pack_config ss = Ok b ->
  skipn (N.to_nat (total_size ss)) b = zeros (N.to_nat (32 - total_size ss)) /\ length b = 32%nat.
Proof. exact pack_unused_zero. Qed.

Theorem C11_unpack_total : forall cfg, length cfg = 32%nat -> unpack_config cfg <> Panic.
Proof. exact unpack_config_total. Qed.
Theorem C11_repack : forall cfg ss, length cfg = 32%nat -> unpack_config cfg = Ok ss ->
  total_size ss <= 32 /\
  pack_config ss = Ok (firstn (N.to_nat (total_size ss)) cfg ++ zeros (N.to_nat (32 - total_size ss))).
Proof. exact repack_canonical. Qed.

(** key-from-data configuration *)
Theorem C11_kd_pack : forall k,
  kd_pack_config k = match k with KUninit => Err 5 | _ => Ok (enc_kd k ++ zeros (32 - length (enc_kd k))) end.
Proof. exact kd_pack_spec. Qed.
Theorem C11_kd_roundtrip : forall k b, kd_pack_config k = Ok b -> kd_unpack b = Ok k.
Proof. exact kd_roundtrip. Qed.
Theorem C11_kd_unpack_total : forall b, kd_unpack b <> Panic.
Proof. exact kd_unpack_total. Qed.
Theorem C11_kd_repack : forall b k, kd_unpack b = Ok k -> k <> KUninit ->
  kd_pack_config k = Ok (firstn (N.to_nat (kd_size k)) b ++ zeros (32 - N.to_nat (kd_size k))).
Proof. exact kd_repack. Qed.
Theorem C11_kd_prefix : forall k b n, kd_pack_config k = Ok b -> (N.to_nat (kd_size k) <= n)%nat ->
  kd_unpack (firstn n b) = Ok k.
Proof. exact kd_prefix. Qed.

(** non-vacuity: a list that packs to exactly 32 bytes, and the wrap-around lengths *)
Example C11_nonvacuous :
  let ss := [SLiteral (zeros 25); SIxData x01 x20; SAcctKey xff] in
  (match pack_config ss with Ok b => is_ok (unpack_config b) | _ => false end) = true /\ total_size ss = 32.
Proof. split; vm_compute; reflexivity. Qed.
Example C11_wrap_lengths_rejected :
  forallb (fun n => is_err (pack_config [SLiteral (zeros n)])) (seq 31 300) = true.
Proof. vm_compute. reflexivity. Qed.
