(** C09 — list view behaves as a capacity-bounded vector over the bytes.
    [Rep p buf cap xs pad rest]: the bytes are the little-endian element count, the
    alignment padding, the elements back to back, then the unused slots. *)
From SplVerif Require Import Lib.Base ListView.Model ListView.Proofs.
Local Open Scope N_scope.

(** every history of init / push / remove / element write / sort from an open buffer
    keeps the representation and computes the bounded vector [vec_step] prescribes *)
Theorem C09_refines : forall p ops buf cap xs pad rest,
  wf_params p -> Rep p buf cap xs pad rest -> Forall (op_ok p) ops ->
  exists rest', Rep p (fold_left (lv_step p) ops buf) cap (fold_left (vec_step p cap) ops xs) pad rest'.
Proof. exact run_refines. Qed.

(** ... the visible slice is the vector, the length never exceeds the capacity, and
    re-opening (read-only or mutably: the same [unpack]) yields the same list *)
Theorem C09_bounded : forall p buf cap xs pad rest, Rep p buf cap xs pad rest ->
  len xs <= cap /\ unpack p buf = Ok (len xs, cap) /\ visible p buf = Ok xs.
Proof. exact rep_bounded. Qed.

(** push: succeeds iff not full and the new length fits the prefix; otherwise an error
    and no byte of the buffer changes *)
Theorem C09_push : forall p buf cap xs pad rest item, Rep p buf cap xs pad rest -> elem_ok p item ->
  if (len xs <? cap) && (len xs + 1 <? 256 ^ szL p)
  then exists buf', push p buf item = (buf', Ok tt) /\
                    Rep p buf' cap (xs ++ [item]) pad (skipn (N.to_nat (szT p)) rest)
  else exists e, push p buf item = (buf, Err e).
Proof. exact push_refines. Qed.

Theorem C09_remove : forall p buf cap xs pad rest i, Rep p buf cap xs pad rest ->
  if i <? len xs
  then exists a x b buf' stale, xs = a ++ x :: b /\ len a = i /\
         remove p buf i = (buf', Ok x) /\ Rep p buf' cap (a ++ b) pad (stale ++ rest) /\ len stale = szT p
  else exists e, remove p buf i = (buf, Err e).
Proof. exact remove_refines. Qed.

Theorem C09_set : forall p buf cap xs pad rest i item, Rep p buf cap xs pad rest -> elem_ok p item ->
  if i <? len xs
  then exists a x b buf', xs = a ++ x :: b /\ len a = i /\
         set_elem p buf i item = (buf', Ok tt) /\ Rep p buf' cap (a ++ item :: b) pad rest
  else exists e, set_elem p buf i item = (buf, Err e).
Proof. exact set_refines. Qed.

Theorem C09_sort : forall p buf cap xs pad rest, Rep p buf cap xs pad rest ->
  exists buf', sort p buf = (buf', Ok tt) /\ Rep p buf' cap (sort_elems xs) pad rest.
Proof. exact sort_refines. Qed.
Theorem C09_sort_permutes : forall l, Permutation.Permutation l (sort_elems l).
Proof. exact sort_elems_perm. Qed.

(** sorting with a comparator on which elements tie (slice::sort_by through DerefMut is std's stable
    sort): the model's insertion sort by a key is a permutation, sorted by the key, and stable -- the
    elements of any one key keep their relative order -- and the view refines it *)
Theorem C09_sort_by_key : forall leb p buf cap xs pad rest, Rep p buf cap xs pad rest ->
  exists buf', sort_with leb p buf = (buf', Ok tt) /\ Rep p buf' cap (sort_by leb xs) pad rest.
Proof. exact sort_with_refines. Qed.
Theorem C09_sort_by_key_permutes : forall leb l, Permutation.Permutation l (sort_by leb l).
Proof. exact sort_by_perm. Qed.
Theorem C09_sort_by_key_stable : forall (key : list byte -> N) l k,
  filter (fun z => key z =? k) (sort_by (fun a b => key a <=? key b) l) = filter (fun z => key z =? k) l.
Proof. exact sort_by_stable. Qed.
Theorem C09_sort_by_key_sorted : forall (key : list byte -> N) l,
  Sorted.StronglySorted (fun a b => key a <= key b) (sort_by (fun a b => key a <=? key b) l).
Proof. exact sort_by_sorted. Qed.

Theorem C09_init : forall p buf, wf_params p -> layout_ok p buf -> capacity_of p buf < USIZE_LIMIT ->
  exists buf' pad rest, init p buf = (buf', Ok (0, capacity_of p buf)) /\
                        Rep p buf' (capacity_of p buf) [] pad rest /\ length buf' = length buf.
Proof. exact init_refines. Qed.

(** a buffer of the size reported for n (non-zero-sized) elements has capacity exactly n *)
Theorem C09_size_of : forall p n s buf, size_of p n = Ok s -> szT p <> 0 -> len buf = s ->
  capacity_of p buf = n /\ data_start p <= len buf /\ data_len p buf mod szT p = 0.
Proof. exact size_of_exact. Qed.
Theorem C09_size_formula : forall p n s, size_of p n = Ok s -> s = szL p + header_padding p + szT p * n.
Proof. exact size_of_formula. Qed.

(** non-vacuity, and the input on which the pinned tree violated the property (D2) *)
Example C09_nonvacuous :
  let p := {| szL := 2; szT := 3; alT := 1; base := 0 |} in
  let b0 := fst (init p (zeros 11)) in
  let b1 := fst (push p b0 [x01; x02; x03]) in
  let b2 := fst (push p b1 [x04; x05; x06]) in
  visible p (fst (remove p b2 0)) = Ok [[x04; x05; x06]] /\ is_err (snd (push p (fst (push p b2 [x07;x08;x09])) [x00;x00;x00])) = true.
Proof. cbv zeta. split; vm_compute; reflexivity. Qed.
(** bytes_used / bytes_allocated report the layout formula at the length / the capacity *)
Theorem C09_bytes_used_allocated : forall p buf cap xs pad rest, Rep p buf cap xs pad rest ->
  bytes_used p buf = size_of p (len xs) /\ bytes_allocated p buf = size_of p cap.
Proof. exact bytes_used_allocated. Qed.
Example C09_prefix_boundary_D2 :
  let p := {| szL := 2; szT := 1; alT := 1; base := 0 |} in
  let buf := le_enc 2 65535 ++ zeros (N.to_nat 65536) in
  list_byte_eqb (fst (push p buf [xab])) buf = true /\ is_err (snd (push p buf [xab])) = true /\
  list_byte_eqb (fst (push_prefix p buf [xab])) buf = false.
Proof. cbv zeta. repeat split; vm_compute; reflexivity. Qed.
