(** C12 — extra-account lists store and reload exactly, per instruction.
    [render n es] is the canonical slab of the TLV entry list [es] in an n-byte account
    (every state a history of TLV operations reaches, C01/C03); [lv_enc ms] the stored form
    of a config list; [push_ok n es t L false] says: type [t] not yet present and an entry
    of L value bytes still fits. *)
From SplVerif Require Import Lib.Base Tlv.Model Tlv.Spec Tlv.Ops Tlv.Corollaries.
From SplVerif Require Import ListView.Model Resolution.Account MetaList.Model MetaList.Proofs MetaList.Stored MetaList.Many MetaList.Others.
Local Open Scope N_scope.

Theorem C12_size_formula : forall k, 35 * k + 4 < USIZE_LIMIT -> ml_size_of k = Ok (12 + (4 + 35 * k)).
Proof. exact size_formula. Qed.

(** init succeeds iff the instruction has no list yet and the list fits; then the account is
    the old entries followed by the new list, nothing else changes, and it reads back exactly;
    otherwise an error and not one byte changes *)
Theorem C12_init : forall n es t ms,
  fits n es -> wf_tag t -> Forall wf_extra ms -> len ms < 100000000 ->
  if push_ok n es t (4 + 35 * len ms) false
  then ml_init (render n es) t ms = (render n (es ++ [(t, lv_enc ms)]), Ok tt) /\ fits n (es ++ [(t, lv_enc ms)])
  else exists e, ml_init (render n es) t ms = (render n es, Err e).
Proof. exact init_canon. Qed.

Theorem C12_reload : forall n es t a ms b,
  fits n es -> wf_tag t -> Forall wf_extra ms -> len ms < 4294967296 ->
  split_entry es t 0 = Some (a, lv_enc ms, b) -> ml_reload (render n es) t = Ok ms.
Proof. exact reload_canon. Qed.
Theorem C12_reload_missing : forall n es t, fits n es -> wf_tag t -> split_entry es t 0 = None ->
  exists e, ml_reload (render n es) t = Err e.
Proof. exact reload_missing. Qed.

(** update to a longer, shorter or equal list: only that instruction's entry changes
    (entries before and after are the same [a] and [b]); a list that does not fit, or a
    missing list, is an error that changes nothing *)
Theorem C12_update : forall n es t a v b ms,
  fits n es -> wf_tag t -> Forall wf_extra ms -> len ms < 100000000 ->
  split_entry es t 0 = Some (a, v, b) ->
  let sz := 4 + 35 * len ms in
  if (len v <? sz) && (N.of_nat n <? len (enc es) + (sz - len v))
  then exists e, ml_update (render n es) t ms = (render n es, Err e)
  else ml_update (render n es) t ms = (render n (a ++ (t, lv_enc ms) :: b), Ok tt) /\ fits n (a ++ (t, lv_enc ms) :: b).
Proof. exact update_canon. Qed.
Theorem C12_update_missing : forall n es t ms,
  fits n es -> wf_tag t -> len ms < 100000000 -> split_entry es t 0 = None ->
  exists e, ml_update (render n es) t ms = (render n es, Err e).
Proof. exact update_missing. Qed.

(** another instruction's list is untouched by such a replacement *)
Theorem C12_other_lists_untouched : forall a t (v w : list byte) b t' r',
  (t' <> t \/ r' <> count t a) ->
  lookup_value (a ++ (t, w) :: b) t' r' = lookup_value (a ++ (t, v) :: b) t' r'.
Proof. exact lookup_value_other. Qed.

(** malformed account bytes: an error, never a panic, nothing written (after D6) *)
Theorem C12_malformed : forall data t ms, (forall u, check_data data <> Ok u) ->
  (exists e, ml_init data t ms = (data, Err e)) /\ (exists e, ml_update data t ms = (data, Err e)) /\
  (exists e, ml_reload data t = Err e).
Proof. exact malformed_is_error. Qed.

(** reading a list from ANY account bytes never panics, and every config it returns is a
    full 35-byte ExtraAccountMeta *)
Theorem C12_reload_any_bytes : forall data t,
  match ml_reload data t with
  | Ok cfgs => Forall wf_extra cfgs
  | Err _ => True
  | Panic => False
  end.
Proof. exact (ml_reload_spec (fun _ _ => None)). Qed.

(** a zeroed buffer of exactly the advertised size takes the list; one byte less is refused and left untouched *)
Theorem C12_exact_size : forall t ms, wf_tag t -> Forall wf_extra ms -> len ms < 100000000 ->
  let n := N.to_nat (12 + (4 + 35 * len ms)) in
  ml_init (zeros n) t ms = (render n [(t, lv_enc ms)], Ok tt) /\
  exists e, ml_init (zeros (n - 1)) t ms = (zeros (n - 1), Err e).
Proof. exact exact_size. Qed.
Example C12_nonvacuous :
  let t := [x11;x11;x11;x11;x11;x11;x11;x11] in
  let m := {| e_disc := x00; e_cfg := zeros 32; e_signer := x01; e_writable := x00 |} in
  fst (ml_init (zeros 51) t [m]) = t ++ [x27;x00;x00;x00] ++ lv_enc [m] /\
  ml_reload (fst (ml_init (zeros 51) t [m])) t = Ok [m] /\
  is_err (snd (ml_init (zeros 50) t [m])) = true /\ fst (ml_init (zeros 50) t [m]) = zeros 50 /\
  is_err (snd (ml_init (fst (ml_init (zeros 51) t [m])) t [m])) = true.
Proof. cbv zeta. repeat split; vm_compute; reflexivity. Qed.

(** any number of instructions in one account (no bound: 129, 256, 65 536 ... are instances):
    [init_all] initialises the lists one after the other, [stored ls] are the TLV entries they
    become, [total_size] is the sum of what size_of advertises.  With room for all of them every
    init succeeds and each instruction reads back exactly its own list *)
Theorem C12_many_instructions : forall ls n,
  Forall wf_ilist ls -> NoDup (map fst ls) -> total_size ls <= N.of_nat n ->
  init_all (zeros n) ls = (render n (stored ls), Ok tt) /\
  forall t ms, In (t, ms) ls -> ml_reload (render n (stored ls)) t = Ok ms.
Proof. exact many_lists. Qed.
(** ... on top of any account state, provided the instructions are new to it *)
Theorem C12_many_instructions_on_any_state : forall ls n es,
  fits n es -> Forall wf_ilist ls -> NoDup (map fst ls) ->
  (forall t, In t (map fst ls) -> ~ In t (map fst es)) ->
  len (enc es) + total_size ls <= N.of_nat n ->
  init_all (render n es) ls = (render n (es ++ stored ls), Ok tt) /\ fits n (es ++ stored ls).
Proof. exact init_all_canon. Qed.
(** ... and with one byte less than the total, the last init is refused and changes nothing *)
Theorem C12_many_instructions_one_byte_less : forall ls t ms n,
  Forall wf_ilist (ls ++ [(t, ms)]) -> NoDup (map fst (ls ++ [(t, ms)])) ->
  N.of_nat n + 1 = total_size (ls ++ [(t, ms)]) ->
  exists e, init_all (zeros n) (ls ++ [(t, ms)]) = (render n (stored ls), Err e).
Proof. exact many_lists_one_byte_less. Qed.
Example C12_many_nonvacuous :
  let t1 := [x11;x11;x11;x11;x11;x11;x11;x11] in
  let t2 := [x22;x11;x11;x11;x11;x11;x11;x11] in
  let m := {| e_disc := x00; e_cfg := zeros 32; e_signer := x01; e_writable := x00 |} in
  total_size [(t1, [m]); (t2, [])] = 67 /\
  snd (init_all (zeros 67) [(t1, [m]); (t2, [])]) = Ok tt /\
  ml_reload (fst (init_all (zeros 67) [(t1, [m]); (t2, [])])) t2 = Ok [] /\
  ml_reload (fst (init_all (zeros 67) [(t1, [m]); (t2, [])])) t1 = Ok [m] /\
  is_err (snd (init_all (zeros 66) [(t1, [m]); (t2, [])])) = true.
Proof. cbv zeta. repeat split; vm_compute; reflexivity. Qed.

(** end to end, for the instructions that were NOT touched: after an update (successful or refused)
    of instruction t's list, and after an init of a new instruction's list, every other instruction
    still reads back exactly the list it had *)
Theorem C12_update_keeps_other_lists : forall n es t a v b ms t' a' ms' b',
  fits n es -> wf_tag t -> Forall wf_extra ms -> len ms < 100000000 ->
  split_entry es t 0 = Some (a, v, b) ->
  t' <> t -> wf_tag t' -> Forall wf_extra ms' -> len ms' < 4294967296 ->
  split_entry es t' 0 = Some (a', lv_enc ms', b') ->
  ml_reload (fst (ml_update (render n es) t ms)) t' = Ok ms'.
Proof. exact update_keeps_other_lists. Qed.
Theorem C12_init_keeps_other_lists : forall n es t ms t' a' ms' b',
  fits n es -> wf_tag t -> Forall wf_extra ms -> len ms < 100000000 ->
  wf_tag t' -> Forall wf_extra ms' -> len ms' < 4294967296 ->
  split_entry es t' 0 = Some (a', lv_enc ms', b') ->
  ml_reload (fst (ml_init (render n es) t ms)) t' = Ok ms'.
Proof. exact init_keeps_other_lists. Qed.
