(** C14 — PodOption is a faithful, unambiguous Option encoding.  Generic in the wrapped
    type [T] (decidable equality [eqb], designated [none] value).  The wrapper is
    transparent: its memory / Borsh images are those of the wrapped value by
    construction; that, and the Serde clauses (none <-> null, Some(none) rejected), are
    decided by differential execution in the harness (partial). *)
From SplVerif Require Import Lib.Base Pod.Option.

Theorem C14_none_iff : forall (T : Type) (eqb : T -> T -> bool), (forall a b, eqb a b = true <-> a = b) ->
  forall none p, get T eqb none p = None <-> p = none.
Proof. exact none_iff. Qed.
Theorem C14_some_iff : forall (T : Type) (eqb : T -> T -> bool), (forall a b, eqb a b = true <-> a = b) ->
  forall none p v, get T eqb none p = Some v <-> (p = v /\ p <> none).
Proof. exact some_iff. Qed.
Theorem C14_option_roundtrip : forall (T : Type) (eqb : T -> T -> bool), (forall a b, eqb a b = true <-> a = b) ->
  forall none o p, try_from_option T eqb none o = Ok p -> get T eqb none p = o.
Proof. exact option_roundtrip. Qed.
Theorem C14_pod_roundtrip : forall (T : Type) (eqb : T -> T -> bool), (forall a b, eqb a b = true <-> a = b) ->
  forall none p, try_from_option T eqb none (get T eqb none p) = Ok p.
Proof. exact pod_roundtrip. Qed.
Theorem C14_only_some_none_rejected : forall (T : Type) (eqb : T -> T -> bool), (forall a b, eqb a b = true <-> a = b) ->
  forall none o, (exists e, try_from_option T eqb none o = Err e) <-> o = Some none.
Proof. exact only_some_none_rejected. Qed.
Theorem C14_never_panics : forall (T : Type) (eqb : T -> T -> bool) none o, try_from_option T eqb none o <> Panic.
Proof. exact never_panics. Qed.
Theorem C14_default_is_none : forall (T : Type) (eqb : T -> T -> bool), (forall a b, eqb a b = true <-> a = b) ->
  forall none, get T eqb none (default T none) = None.
Proof. exact default_is_none. Qed.

Example C14_nonvacuous :
  get N N.eqb 0%N 7%N = Some 7%N /\ get N N.eqb 0%N 0%N = None /\
  try_from_option N N.eqb 0%N (Some 0%N) = Err 5%N.
Proof. repeat split. Qed.
