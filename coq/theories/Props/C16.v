(** C16 — generic token parser agrees with the real token account layouts.
    [ref_unpack_*] / [ref22_unpack_*] model `Pack::unpack` of spl-token-interface and
    `StateWithExtensions::unpack` of spl-token-2022-interface (Token/Model.v); that
    model is compared with the crates themselves in both directions on every run. *)
From SplVerif Require Import Lib.Base Token.Model Token.Proofs.
Local Open Scope N_scope.

Theorem C16_token_account : forall b st, ref_unpack_account b = Some st ->
  generic_account PToken b = Ok (Some (ra_mint st, ra_owner st, ra_amount st)) /\
  generic_account PToken2022 b = Ok (Some (ra_mint st, ra_owner st, ra_amount st)).
Proof. exact ref_account_agrees. Qed.
Theorem C16_token_mint : forall b st, ref_unpack_mint b = Some st ->
  generic_mint PToken b = Ok (Some (rm_supply st, rm_decimals st)) /\
  generic_mint PToken2022 b = Ok (Some (rm_supply st, rm_decimals st)).
Proof. exact ref_mint_agrees. Qed.
(** with any extension data of any length *)
Theorem C16_token2022_account : forall b st, ref22_unpack_account b = Some st ->
  generic_account PToken2022 b = Ok (Some (ra_mint st, ra_owner st, ra_amount st)).
Proof. exact ref22_account_agrees. Qed.
Theorem C16_token2022_mint : forall b st, ref22_unpack_mint b = Some st ->
  generic_mint PToken2022 b = Ok (Some (rm_supply st, rm_decimals st)).
Proof. exact ref22_mint_agrees. Qed.
Theorem C16_uninitialised_never_parses : forall p b,
  (is_initialized_at b 108 = false -> generic_account p b = Ok None) /\
  (is_initialized_at b 45 = false -> generic_mint p b = Ok None).
Proof. exact uninitialised_never_parses. Qed.
Theorem C16_base_same_under_both_ids : forall b,
  (len b = 165 -> acct_ok PToken2022 b = acct_ok PToken b) /\ (len b = 82 -> mint_ok PToken2022 b = mint_ok PToken b).
Proof. exact base_same_under_both_ids. Qed.

Example C16_nonvacuous :
  let b := zeros 108 ++ [x01] ++ zeros 56 in
  is_ok (generic_account PToken b) = true /\ (exists st, ref_unpack_account b = Some st) /\
  (exists st, ref22_unpack_account (b ++ [x02; x07; x00]) = Some st).
Proof. cbv zeta. split; [reflexivity|]. split; eexists; reflexivity. Qed.
