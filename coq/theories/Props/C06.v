(** C06 — resolved extra accounts never gain privileges. *)
From SplVerif Require Import Lib.Base Resolution.Seeds Resolution.Account Resolution.Proofs Resolution.Global.
Local Open Scope N_scope.

(** both helpers append exactly one de-escalated meta per stored config, each
    de-escalated against everything before it (original and previously appended) *)
Theorem C06_offchain_appends : forall find_pda fetch cfgs ix pid kds metas out,
  offchain_loop find_pda fetch cfgs ix pid kds metas = Ok out ->
  exists app, out = metas ++ app /\ appended_ok cfgs metas app.
Proof. exact offchain_appends. Qed.
Theorem C06_cpi_appends : forall find_pda pool cfgs ix pid infos metas out infos',
  cpi_loop find_pda pool cfgs ix pid infos metas = Ok (out, infos') ->
  exists app, out = metas ++ app /\ appended_ok cfgs metas app.
Proof. exact cpi_appends. Qed.

(** for every appended meta: non-signer; writable only if configured writable; read-only
    if its key is present before it only as read-only; and conversely writable if
    configured writable and the key is absent or already writable somewhere before it *)
Theorem C06_privileges : forall cfgs pre app, appended_ok cfgs pre app ->
  forall j c a, nth_error cfgs j = Some c -> nth_error app j = Some a ->
  let before := pre ++ firstn j app in
  m_signer a = false /\
  (m_writable a = true -> pod_bool (e_writable c) = true) /\
  (same_key a before <> [] -> Forall (fun p => m_writable p = false) (same_key a before) -> m_writable a = false) /\
  (pod_bool (e_writable c) = true -> (same_key a before = [] \/ Exists (fun p => m_writable p = true) (same_key a before)) ->
   m_writable a = true).
Proof. exact appended_privileges. Qed.

Theorem C06_de_escalate_writable : forall m ms,
  m_writable (de_escalate m ms) = m_writable m && (match same_key m ms with [] => true | l => existsb m_writable l end).
Proof. exact de_escalate_writable. Qed.

Example C06_nonvacuous :
  let k := zeros 32 in
  let ro := {| m_key := k; m_signer := true; m_writable := false |} in
  let want := {| m_key := k; m_signer := true; m_writable := true |} in
  de_escalate want [ro] = {| m_key := k; m_signer := false; m_writable := false |} /\
  de_escalate want [ro; want] = {| m_key := k; m_signer := false; m_writable := true |} /\
  de_escalate want [] = {| m_key := k; m_signer := false; m_writable := true |}.
Proof. repeat split. Qed.

(** whole-instruction consequences, for any number of configs resolving to the same key *)

(** NO KEY GAINS WRITE ACCESS: a key the instruction names, and names only read-only, is read-only
    in every account either helper appends *)
Theorem C06_no_key_gains_write : forall cfgs pre app, appended_ok cfgs pre app ->
  forall k, (exists p, In p pre /\ m_key p = k) ->
  (forall p, In p pre -> m_key p = k -> m_writable p = false) ->
  forall a, In a app -> m_key a = k -> m_writable a = false.
Proof. exact no_key_gains_write. Qed.
Theorem C06_offchain_no_key_gains_write : forall find_pda fetch cfgs ix pid kds metas out,
  offchain_loop find_pda fetch cfgs ix pid kds metas = Ok out ->
  forall k, (exists p, In p metas /\ m_key p = k) ->
  (forall p, In p metas -> m_key p = k -> m_writable p = false) ->
  forall a, In a out -> m_key a = k -> m_writable a = false.
Proof. exact offchain_no_key_gains_write. Qed.
Theorem C06_cpi_no_key_gains_write : forall find_pda pool cfgs ix pid infos metas out infos',
  cpi_loop find_pda pool cfgs ix pid infos metas = Ok (out, infos') ->
  forall k, (exists p, In p metas /\ m_key p = k) ->
  (forall p, In p metas -> m_key p = k -> m_writable p = false) ->
  forall a, In a out -> m_key a = k -> m_writable a = false.
Proof. exact cpi_no_key_gains_write. Qed.
(** no key gains signer status: the signers of the result are the caller's own metas *)
Theorem C06_signers_are_the_callers : forall cfgs pre app, appended_ok cfgs pre app ->
  forall a, In a (pre ++ app) -> m_signer a = true -> In a pre.
Proof. exact signers_are_the_callers. Qed.
(** one appended account per stored config *)
Theorem C06_one_per_config : forall cfgs pre app, appended_ok cfgs pre app -> length app = length cfgs.
Proof. exact appended_length. Qed.
(** the converse clause for the whole list: a key the instruction already names writable keeps
    every configured-writable appended account writable *)
Theorem C06_writable_key_stays_writable : forall cfgs pre app, appended_ok cfgs pre app ->
  forall k, (exists p, In p pre /\ m_key p = k /\ m_writable p = true) ->
  forall j c a, nth_error cfgs j = Some c -> nth_error app j = Some a -> m_key a = k ->
  pod_bool (e_writable c) = true -> m_writable a = true.
Proof. exact writable_key_stays_writable. Qed.
