(** C18 — compile-time and run-time discriminators agree with SHA-256.
    Partial, said plainly: in the model both the derive and `new_with_hash_input` are
    [disc] = first 8 bytes of the Gallina SHA-256 (Lib/Sha256.v, validated on the NIST
    vectors); that the macro's `sha2` call and the run-time `solana-sha256-hasher` call
    equal it is decided by the correspondence (macro bytes = run-time bytes = Coq bytes
    on every generated literal), not by a theorem. *)
From SplVerif Require Import Lib.Base Lib.Sha256 Macros.Discriminator.
Local Open Scope N_scope.

(** the [..8] slice of the digest never panics *)
Theorem C18_digest_length : forall m, length (sha256 m) = 32%nat.
Proof. exact sha256_length. Qed.
(** the SHA-256 model pads every message to whole 64-byte blocks and keeps the message as prefix *)
Theorem C18_padding_whole_blocks : forall m, (length (pad m) mod 64 = 0)%nat.
Proof. exact pad_blocks. Qed.
Theorem C18_padding_keeps_message : forall m, firstn (length m) (pad m) = m.
Proof. exact pad_prefix. Qed.
Theorem C18_disc_length : forall s, length (disc s) = 8%nat.
Proof. exact disc_length. Qed.

(** conversions are lossless and little-endian, for all 2^64 values / all 8-byte arrays *)
Theorem C18_u64_roundtrip : forall n, n < 18446744073709551616 -> to_u64 (from_u64 n) = n.
Proof. exact u64_roundtrip. Qed.
Theorem C18_bytes_roundtrip : forall d, length d = 8%nat -> from_u64 (to_u64 d) = d.
Proof. exact bytes_roundtrip. Qed.
Theorem C18_to_u64_bound : forall d, length d = 8%nat -> to_u64 d < 18446744073709551616.
Proof. exact to_u64_bound. Qed.
Theorem C18_slice_iff : forall l, (exists d, try_from_slice l = Ok d) <-> len l = 8.
Proof. exact slice_iff. Qed.
Theorem C18_slice_identity : forall l d, try_from_slice l = Ok d -> d = l.
Proof. exact slice_identity. Qed.

(** the emitted impl header, for every item shape: impl parameters with bounds but no
    defaults, the type applied to the bare names, the where-clause preserved *)
Theorem C18_header_wf : forall ps w, header_wf ps w (emit_header ps w).
Proof. exact emit_header_wf. Qed.

Example C18_nonvacuous :
  let t := [x54] in
  emit_header [GType t [x43;x6c;x6f;x6e;x65] (Some [x75;x38])] None
  = {| h_impl := [GType t [x43;x6c;x6f;x6e;x65] None]; h_args := [t]; h_where := None |}.
Proof. reflexivity. Qed.
