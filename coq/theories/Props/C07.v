(** C07 — account check accepts exactly the prescribed trailing accounts.
    [check_accounts] is check_account_infos once the stored list has been read
    (MetaList.ml_reload: malformed stored data is an error there, after D6). *)
From SplVerif Require Import Lib.Base Tlv.Model Resolution.Seeds Resolution.Account Resolution.Proofs MetaList.Model MetaList.Stored.
Local Open Scope N_scope.

Theorem C07_iff : forall find_pda cfgs ix pid accounts,
  check_accounts find_pda cfgs ix pid accounts = Ok tt <->
  ((length cfgs <= length accounts)%nat /\
   forall i c, nth_error cfgs i = Some c ->
     position_ok find_pda c ix pid accounts (length accounts - length cfgs + i)).
Proof. exact check_accounts_iff. Qed.

(** never a panic: malformed configs, short lists, anything (after D6, D7) *)
Theorem C07_total : forall find_pda cfgs ix pid accounts,
  Forall (fun c => length (e_cfg c) = 32%nat) cfgs -> check_accounts find_pda cfgs ix pid accounts <> Panic.
Proof. exact check_accounts_total. Qed.

(** fewer accounts than configs is rejected *)
Theorem C07_short_list : forall find_pda cfgs ix pid accounts, (length accounts < length cfgs)%nat ->
  check_accounts find_pda cfgs ix pid accounts <> Ok tt.
Proof. intros fp cfgs ix pid accounts H E. apply check_accounts_iff in E. lia. Qed.

(** from the raw account bytes, as check_account_infos is called: for ANY stored bytes
    (malformed TLV, truncated list, garbage) the result is Ok or an error, never a panic *)
Theorem C07_total_any_bytes : forall find_pda data t ix pid accounts,
  check_account_infos find_pda data t ix pid accounts <> Panic.
Proof. exact check_account_infos_total. Qed.
Theorem C07_iff_from_bytes : forall find_pda data t ix pid accounts,
  check_account_infos find_pda data t ix pid accounts = Ok tt <->
  exists cfgs, ml_reload data t = Ok cfgs /\ (length cfgs <= length accounts)%nat /\
    forall i c, nth_error cfgs i = Some c -> position_ok find_pda c ix pid accounts (length accounts - length cfgs + i).
Proof. exact check_account_infos_iff. Qed.

(** single-field mutations: a trailing account whose key or flag differs from what its
    config resolves to (against the mutated list) is rejected *)
Theorem C07_changed_triple_rejected : forall find_pda cfgs ix pid accounts i c m a,
  (length cfgs <= length accounts)%nat -> nth_error cfgs i = Some c ->
  resolve find_pda c ix pid (info_getter accounts) = Ok m ->
  nth_error accounts (length accounts - length cfgs + i) = Some a ->
  (i_key a <> m_key m \/ i_signer a <> m_signer m \/ i_writable a <> m_writable m) ->
  check_accounts find_pda cfgs ix pid accounts <> Ok tt.
Proof. exact check_rejects_changed_triple. Qed.

Example C07_nonvacuous :
  let fp := fun (_ : list (list byte)) (_ : key) => @None key in
  let k := zeros 32 in
  let c := new_with_pubkey k false true in
  let good := {| i_key := k; i_signer := false; i_writable := true; i_data := [] |} in
  let flipped := {| i_key := k; i_signer := false; i_writable := false; i_data := [] |} in
  check_accounts fp [c] [] k [good] = Ok tt /\ is_err (check_accounts fp [c] [] k [flipped]) = true /\
  is_err (check_accounts fp [c; c] [] k [good]) = true.
Proof. cbv zeta. repeat split; vm_compute; reflexivity. Qed.
