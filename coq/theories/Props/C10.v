(** C10 — list view decoding is total, bounds-safe and alignment-safe.
    [unpack] models both `unpack` and `unpack_mut` (same checks in the same order; the
    harness compares the two on every case). *)
From SplVerif Require Import Lib.Base ListView.Model ListView.Proofs.
Local Open Scope N_scope.

(** never a panic, except in the recorded class D3 (128-bit prefix above usize::MAX) *)
Theorem C10_total : forall p buf, wf_params p -> ~ known_class p buf -> unpack p buf <> Panic.
Proof. exact unpack_total. Qed.
Theorem C10_known_class_witness :
  let p := {| szL := 16; szT := 1; alT := 1; base := 0 |} in
  let buf := zeros 8 ++ [x01] ++ zeros 7 in
  known_class p buf /\ unpack p buf = Panic.
Proof. exact known_class_witness. Qed.

(** an opened view: length <= capacity = (buffer size - header) / element size (0 for
    zero-sized elements), and header + capacity * size = buffer size (nothing outside) *)
Theorem C10_ok_bounds : forall p buf l cap, unpack p buf = Ok (l, cap) ->
  l <= cap /\ cap = capacity_of p buf /\ data_start p <= len buf /\ data_start p + cap * szT p = len buf.
Proof. exact unpack_ok_bounds. Qed.

(** exact acceptance set: long enough, whole number of elements (empty for ZSTs), data
    region aligned for the element type, stored length <= capacity *)
Theorem C10_accepts_iff : forall p buf,
  (exists v, unpack p buf = Ok v) <->
  (layout_ok p buf /\ stored_len p buf <= capacity_of p buf /\ stored_len p buf < USIZE_LIMIT).
Proof. exact unpack_accepts_iff. Qed.

Theorem C10_spec : forall p buf,
  match unpack p buf with
  | Ok (l, cap) => layout_ok p buf /\ l = stored_len p buf /\ cap = capacity_of p buf /\ l <= cap /\ l < USIZE_LIMIT
  | Err _ => ~ (layout_ok p buf /\ stored_len p buf <= capacity_of p buf)
  | Panic => layout_ok p buf /\ USIZE_LIMIT <= stored_len p buf
  end.
Proof. exact unpack_spec. Qed.

(** the padding makes the data region start at a multiple of the element alignment *)
Theorem C10_padding : forall p, 1 <= alT p -> data_start p mod alT p = 0 /\ header_padding p < alT p.
Proof. exact padding_aligns. Qed.

(** what an opened view exposes lies inside the buffer: length-many whole elements starting at the data offset *)
Theorem C10_visible_in_bounds : forall p buf xs, visible p buf = Ok xs ->
  exists l cap, unpack p buf = Ok (l, cap) /\ length xs = N.to_nat l /\ data_start p + l * szT p <= len buf.
Proof. exact visible_in_bounds. Qed.
Example C10_nonvacuous :
  let p := {| szL := 4; szT := 8; alT := 8; base := 0 |} in
  unpack p ([x02;x00;x00;x00] ++ zeros 4 ++ zeros 16) = Ok (2, 2) /\
  is_err (unpack p ([x03;x00;x00;x00] ++ zeros 4 ++ zeros 16)) = true /\
  is_err (unpack {| szL := 4; szT := 8; alT := 8; base := 4 |} ([x02;x00;x00;x00] ++ zeros 4 ++ zeros 16)) = true /\
  is_err (unpack p ([x02;x00;x00;x00] ++ zeros 4 ++ zeros 15)) = true.
Proof. cbv zeta. repeat split; vm_compute; reflexivity. Qed.
