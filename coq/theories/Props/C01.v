(** C01 — TLV entries: read-your-writes and isolation under any operation history.
    Statement-only file.  [render n es] is the canonical slab of the entry list [es]
    in an [n]-byte buffer, [s_step]/[s_run] the effect of operations on the entry list
    (Tlv/Spec.v), [step]/[run] the byte-level model of state.rs (Tlv/Model.v). *)
From SplVerif Require Import Lib.Base Tlv.Model Tlv.Spec Tlv.Walk Tlv.Parse Tlv.Ops Tlv.Refine Tlv.Corollaries Tlv.AnyTail.
Local Open Scope N_scope.

(** every history, from any canonical slab (in particular the zeroed buffer), of any
    length, over any buffer size, any well-formed tags, any value lengths *)
Theorem C01_refines : forall n ops es, fits n es -> Forall wf_op ops ->
  run ops (render n es) = render n (s_run n ops es) /\ fits n (s_run n ops es).
Proof. exact run_refines. Qed.

(** per step: same bytes, same result (value offset, repetition number), same failure *)
Theorem C01_step : forall n es o, fits n es -> wf_op o ->
  exists out', step (render n es) o = (render n (fst (s_step n es o)), out') /\
               out_eq out' (snd (s_step n es o)) /\ fits n (fst (s_step n es o)).
Proof. exact step_refines. Qed.

(** reading back by type and repetition number returns the entry's value at its offset *)
Theorem C01_read_your_writes : forall n es t r, fits n es -> wf_tag t ->
  match split_entry es t r with
  | Some (a, v, b) => get_bytes (render n es) t r = Ok (voff a, v)
  | None => exists e, get_bytes (render n es) t r = Err e
  end.
Proof. exact read_back. Qed.

Theorem C01_insertion_order : forall n es, fits n es -> get_discriminators (render n es) = Ok (map fst es).
Proof. exact listed_order. Qed.

(** an operation on entry (t, r) changes that entry's value and nothing else; an
    allocation appends one entry *)
Theorem C01_shape : forall n es o,
  if is_push o
  then fst (s_step n es o) = es \/ exists v, fst (s_step n es o) = es ++ [(op_tag o, v)]
  else fst (s_step n es o) = es \/
       exists a v b w, split_entry es (op_tag o) (op_rep o) = Some (a, v, b) /\
                       fst (s_step n es o) = a ++ (op_tag o, w) :: b.
Proof. exact s_step_shape. Qed.

Theorem C01_isolation : forall n es o t' r',
  (is_push o = false -> t' <> op_tag o \/ r' <> op_rep o) ->
  lookup_value es t' r' <> None ->
  lookup_value (fst (s_step n es o)) t' r' = lookup_value es t' r'.
Proof. exact isolation. Qed.

Theorem C01_order_kept : forall n es o, is_push o = false -> map fst (fst (s_step n es o)) = map fst es.
Proof. exact order_kept. Qed.

(** re-opening: every reachable slab opens; the three view kinds run the same
    [check_data] and the same lookups over the same bytes *)
Theorem C01_reopen : forall n es, fits n es -> check_data (render n es) = Ok tt.
Proof. exact check_data_canon. Qed.

(** beyond canonical slabs: on ANY valid slab -- well-formed entries followed by an arbitrary tail that
    starts with a terminator, e.g. a recycled buffer with garbage behind the zero tag -- a resize
    succeeds / fails by the same rule and yields exactly the entry list with the target entry
    zero-extended or truncated and every other entry untouched; growth consumes the first bytes of
    the tail, shrinking leaves zeros in front of it.  An allocation puts the header right behind
    the entries (its value region is whatever the tail held: alloc does not clear). *)
Theorem C01_resize_any_valid_slab : forall es (tail : list byte) t r a v b l,
  Forall wf_entry es -> term tail -> wf_tag t -> split_entry es t r = Some (a, v, b) ->
  realloc (enc es ++ tail) t l r =
  if (len v <? l) && (len (enc es ++ tail) <? len (enc es) + (l - len v)) then (enc es ++ tail, Err E_INVALID_ACCOUNT_DATA)
  else if U32_LIMIT <=? l then (enc es ++ tail, Err E_TOO_SMALL)
  else (enc (a ++ (t, resize l v) :: b) ++ tail_after tail (len v) l, Ok (voff a)).
Proof. exact realloc_any_tail. Qed.
Theorem C01_alloc_any_valid_slab : forall es (tail : list byte) t l a,
  Forall wf_entry es -> term tail -> wf_tag t ->
  (a || negb (has t es)) = true -> HDR + l <= len tail -> l < U32_LIMIT ->
  alloc (enc es ++ tail) t l a =
  (enc (es ++ [(t, firstn (N.to_nat l) (skipn 12 tail))]) ++ skipn (12 + N.to_nat l) tail, Ok (voff es, count t es)).
Proof. exact alloc_any_tail. Qed.

(** ... and after a successful shrink (or same-size resize) the result is again a valid slab of the
    resized entry list, so every later lookup and listing sees exactly that list (C02_lookup) *)
Theorem C01_shrink_keeps_valid : forall es (tail : list byte) t r a v b l,
  Forall wf_entry es -> term tail -> wf_tag t -> split_entry es t r = Some (a, v, b) -> l <= len v ->
  exists tail', term tail' /\ Forall wf_entry (a ++ (t, resize l v) :: b) /\
    realloc (enc es ++ tail) t l r = (enc (a ++ (t, resize l v) :: b) ++ tail', Ok (voff a)).
Proof. exact shrink_keeps_valid. Qed.

(** non-vacuity: a history with a repeated type, a grow and a shrink of the middle entry *)
Example C01_nonvacuous :
  let t1 := [x01;x01;x01;x01;x01;x01;x01;x01] in let t2 := [x02;x02;x02;x02;x02;x02;x02;x02] in
  let ops := [OAlloc t1 4 true; OInit t2 [xaa; xbb] true; OAlloc t1 3 true;
              OWrite t1 1 [x07; x08; x09]; ORealloc t2 9 0; ORealloc t2 1 0] in
  map (fun e => (fst e, snd e)) (s_run 80 ops []) = [(t1, zeros 4); (t2, [xaa]); (t1, [x07; x08; x09])]
  /\ list_byte_eqb (run ops (zeros 80)) (render 80 (s_run 80 ops [])) = true.
Proof. cbv zeta. split; vm_compute; reflexivity. Qed.
