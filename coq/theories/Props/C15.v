(** C15 — variable-length TLV values resize their account exactly.
    Partial: that the *derived* packer equals Borsh (`get_packed_len`, `pack_into_slice`,
    `unpack_from_slice` on a larger slot, for structs and enums incl. generic ones) is a
    statement about the borsh crate; it is decided by differential execution on compiled
    items, and the bytes are compared with the Gallina Borsh universe below on every run. *)
From SplVerif Require Import Lib.Base Tlv.Model Tlv.Spec Tlv.Corollaries.
From SplVerif Require Import AccountRealloc.Model AccountRealloc.Proofs AccountRealloc.Borsh AccountRealloc.History.
Local Open Scope N_scope.

(** on an account holding the canonical slab of [es] (any number of entries, repeated
    types, any spare tail), storing a value with encoding [e] over the r-th entry of type
    [t] (old value [old]) yields the canonical slab of the same list with that one value
    replaced, in an account of exactly n + |e| - |old| bytes: every other entry is
    byte-identical and the zero spare tail keeps its size *)
Theorem C15_exact : forall acct n es t r a old b e p,
  a_data acct = render n es -> fits n es -> wf_tag t ->
  split_entry es t r = Some (a, old, b) -> len e < U32_LIMIT ->
  N.of_nat n + (len e - len old) <= a_orig acct + MAX_PERMITTED_DATA_INCREASE ->
  let n' := (n + length e - length old)%nat in
  realloc_and_pack acct t r e p = ({| a_data := render n' (a ++ (t, e) :: b); a_orig := a_orig acct |}, Ok tt) /\
  fits n' (a ++ (t, e) :: b).
Proof. exact realloc_and_pack_exact. Qed.

(** ... and the entry then reads back as [e] *)
Theorem C15_reads_back : forall n' (a : list entry) t (e : list byte) (b : list entry), fits n' (a ++ (t, e) :: b) -> wf_tag t ->
  get_bytes (render n' (a ++ (t, e) :: b)) t (count t a) = Ok (voff a, e).
Proof. exact reads_back. Qed.

(** failures change nothing: missing entry, or growth beyond the runtime's 10 KiB limit *)
Theorem C15_missing_entry : forall acct n es t r e p,
  a_data acct = render n es -> fits n es -> wf_tag t -> split_entry es t r = None ->
  exists c, realloc_and_pack acct t r e p = (acct, Err c).
Proof. exact realloc_and_pack_missing. Qed.
Theorem C15_growth_limit : forall acct n es t r a old b e p,
  a_data acct = render n es -> fits n es -> wf_tag t ->
  split_entry es t r = Some (a, old, b) -> len old < len e ->
  a_orig acct + MAX_PERMITTED_DATA_INCREASE < N.of_nat n + (len e - len old) ->
  exists c, realloc_and_pack acct t r e p = (acct, Err c).
Proof. exact realloc_and_pack_too_large. Qed.

(** Borsh universe: a value decodes back from a slot larger than its encoding *)
Theorem C15_borsh_prefix_decodable : forall t (v : val t) rest, wf t v -> decode t (encode t v ++ rest) = Some (v, rest).
Proof. exact decode_encode. Qed.

Example C15_nonvacuous :
  let t1 := [x01;x01;x01;x01;x01;x01;x01;x01] in let t2 := [x02;x02;x02;x02;x02;x02;x02;x02] in
  let es := [(t1, [x0a; x0b]); (t2, [x01; x02; x03]); (t1, [x0c])] in
  let acct := {| a_data := render 45 es; a_orig := 45 |} in
  fst (realloc_and_pack acct t2 0 [x09;x09;x09;x09;x09] false)
    = {| a_data := render 47 [(t1, [x0a; x0b]); (t2, [x09;x09;x09;x09;x09]); (t1, [x0c])]; a_orig := 45 |} /\
  a_data (fst (realloc_and_pack acct t2 0 [x07] false)) = render 43 [(t1, [x0a; x0b]); (t2, [x07]); (t1, [x0c])].
Proof. cbv zeta. split; vm_compute; reflexivity. Qed.

(** one operation against its specification [s_rp] on (account length, entry list): same account,
    Ok exactly when the specification accepts, and the zero spare tail keeps its size.  The old
    value [old] is whatever the slot holds -- its length is the slot's, also when the slot is
    larger than the value last packed into it *)
Theorem C15_step_refines : forall acct n es o,
  a_data acct = render n es -> fits n es -> wf_op o ->
  N.of_nat n <= a_orig acct + MAX_PERMITTED_DATA_INCREASE ->
  let '((n', es'), ok) := s_rp (a_orig acct) (n, es) o in
  fst (realloc_and_pack acct (o_tag o) (o_rep o) (o_enc o) (o_partial o)) = {| a_data := render n' es'; a_orig := a_orig acct |} /\
  (if ok then snd (realloc_and_pack acct (o_tag o) (o_rep o) (o_enc o) (o_partial o)) = Ok tt
   else exists c, snd (realloc_and_pack acct (o_tag o) (o_rep o) (o_enc o) (o_partial o)) = Err c) /\
  fits n' es' /\ N.of_nat n' <= a_orig acct + MAX_PERMITTED_DATA_INCREASE /\
  spare (n', es') = spare (n, es).
Proof. exact rp_step. Qed.

(** every history: after ANY sequence of replacements (growing, shrinking and refused ones mixed,
    no bound on its length) the account is the canonical slab of the list the specification
    predicts, and its spare tail is the one it started with -- so its length has moved by exactly
    the sum of the accepted size differences *)
Theorem C15_every_history : forall ops acct n es,
  a_data acct = render n es -> fits n es -> Forall wf_op ops ->
  N.of_nat n <= a_orig acct + MAX_PERMITTED_DATA_INCREASE ->
  let st' := run_spec (a_orig acct) (n, es) ops in
  run_impl acct ops = {| a_data := render (fst st') (snd st'); a_orig := a_orig acct |} /\
  fits (fst st') (snd st') /\ spare st' = spare (n, es).
Proof. exact rp_history. Qed.
Theorem C15_length_after_history : forall ops acct n es,
  a_data acct = render n es -> fits n es -> Forall wf_op ops ->
  N.of_nat n <= a_orig acct + MAX_PERMITTED_DATA_INCREASE ->
  let st' := run_spec (a_orig acct) (n, es) ops in
  length (a_data (run_impl acct ops)) = (length (enc (snd st')) + (n - length (enc es)))%nat.
Proof. exact rp_history_length. Qed.
Example C15_history_nonvacuous :
  let t1 := [x01;x01;x01;x01;x01;x01;x01;x01] in let t2 := [x02;x02;x02;x02;x02;x02;x02;x02] in
  let es := [(t1, [x0a; x0b]); (t2, [x01; x02; x03]); (t1, [x0c])] in
  let acct := {| a_data := render 45 es; a_orig := 45 |} in
  let ops := [ {| o_tag := t2; o_rep := 0; o_enc := [x09;x09;x09;x09;x09]; o_partial := false |};
               {| o_tag := t1; o_rep := 1; o_enc := []; o_partial := false |};
               {| o_tag := t2; o_rep := 1; o_enc := [x01]; o_partial := false |} ] in
  run_spec 45 (45%nat, es) ops = (46%nat, [(t1, [x0a; x0b]); (t2, [x09;x09;x09;x09;x09]); (t1, [])]) /\
  length (a_data (run_impl acct ops)) = 46%nat.
Proof. cbv zeta. split; vm_compute; reflexivity. Qed.
