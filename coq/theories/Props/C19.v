(** C19 — error macros and enums map variants to codes and messages exactly.
    Partial: Display (thiserror), TryFromPrimitive / FromPrimitive (num_enum, num-derive)
    and the compiler diagnostic are third-party output; those clauses are decided by
    execution (compiled enums and the library tables are compared with the model in Coq
    on every run). *)
From SplVerif Require Import Lib.Base Lib.Sha256 Macros.ErrorEnum.
Local Open Scope N_scope.

(** code <-> variant lookup are inverse (for distinct codes), for all u32 codes *)
Theorem C19_lookup_sound : forall cs c i, lookup cs c = Some i -> nth i cs 0 = c /\ (i < length cs)%nat.
Proof. exact lookup_sound. Qed.
Theorem C19_lookup_complete : forall cs i, NoDup cs -> (i < length cs)%nat -> lookup cs (nth i cs 0) = Some i.
Proof. exact lookup_complete. Qed.
Theorem C19_lookup_none : forall cs c, lookup cs c = None <-> ~ In c cs.
Proof. exact lookup_none. Qed.

(** with a hashed start the i-th variant has code start + i *)
Theorem C19_hashed_codes_contiguous : forall d v vs i, no_explicit vs -> (i < S (length vs))%nat ->
  nth i (codes (with_start d (v :: vs))) 0 = d + N.of_nat i.
Proof. exact hashed_codes_contiguous. Qed.
(** ... so looking a code up returns the variant it was assigned to, for every enum whose
    variants after the first carry no explicit discriminant *)
Theorem C19_hashed_lookup_inverse : forall d v vs i, no_explicit vs -> (i < S (length vs))%nat ->
  lookup (codes (with_start d (v :: vs))) (d + N.of_nat i) = Some i.
Proof. exact hashed_lookup_inverse. Qed.
Theorem C19_contiguous_codes_distinct : forall vs next, no_explicit vs -> NoDup (codes_from next vs).
Proof. exact codes_from_nodup. Qed.
Theorem C19_one_code_per_variant : forall vs next, length (codes_from next vs) = length vs.
Proof. exact codes_length. Qed.

(** the start: bytes 13..17 of SHA-256("spl_program_error:" ++ name ++ LE32 nonce), the
    smallest nonce giving at least 7000 — for every name *)
Theorem C19_hash_start_smallest : forall name fuel n0 d n,
  hash_start_loop fuel name n0 = Some (d, n) ->
  HASH_MIN <= d /\ d = hash_value name n /\ n0 <= n /\ forall k, n0 <= k < n -> hash_value name k < HASH_MIN.
Proof. exact hash_start_smallest. Qed.
Theorem C19_hash_value_is_u32 : forall name nonce, hash_value name nonce < 4294967296.
Proof. exact hash_value_u32. Qed.

(** non-vacuity: a name found by search whose nonce 0 gives a value below 7000 *)
Example C19_nonvacuous :
  hash_start [x53;x75;x62;x6a;x48;x61;x73;x68;x65;x64] = Some (3535231918, 0) /\
  codes [ {| v_name := []; v_disc := None; v_msg := None |}; {| v_name := []; v_disc := Some 10; v_msg := None |};
          {| v_name := []; v_disc := None; v_msg := None |} ] = [0; 10; 11].
Proof. split; vm_compute; reflexivity. Qed.
