(** C03 — TLV on-wire layout is canonical: type, LE length, value, zero tail. *)
From SplVerif Require Import Lib.Base Tlv.Model Tlv.Spec Tlv.Walk Tlv.Parse Tlv.Ops Tlv.Refine Tlv.Corollaries.
Local Open Scope N_scope.

(** after any history from a zeroed buffer the raw bytes are [render n entries]:
    for each entry in insertion order its 8-byte type, 4 little-endian length bytes and
    value ([enc]), then only zeros up to the end *)
Theorem C03_canonical : forall n ops, Forall wf_op ops ->
  run ops (zeros n) = render n (s_run n ops []) /\ fits n (s_run n ops []).
Proof. intros n ops H. rewrite <- render_nil. apply run_refines; [apply fits_nil|exact H]. Qed.

Theorem C03_layout : forall n es,
  render n es = concat (map (fun e => fst e ++ le_enc 4 (len (snd e)) ++ snd e) es) ++ zeros (n - length (enc es)).
Proof. reflexivity. Qed.

(** fixed per-entry overhead of 12 bytes *)
Theorem C03_overhead : forall es, Forall wf_entry es -> len (enc es) = payload es.
Proof. exact enc_overhead. Qed.
Theorem C03_base_len : HDR = 12.
Proof. reflexivity. Qed.

(** growing reads as zero, shrinking truncates (and the released bytes join the zero tail) *)
Theorem C03_resize : forall l v, resize l v = firstn (N.to_nat l) v ++ zeros (N.to_nat l - length v).
Proof. reflexivity. Qed.
Theorem C03_zero_tail : forall n es, skipn (length (enc es)) (render n es) = zeros (n - length (enc es)).
Proof. exact render_tail_zero. Qed.

(** the bytes are a pure function of the logical entry list and the buffer size *)
Theorem C03_pure : forall n ops1 ops2, Forall wf_op ops1 -> Forall wf_op ops2 ->
  s_run n ops1 [] = s_run n ops2 [] -> run ops1 (zeros n) = run ops2 (zeros n).
Proof.
  intros n o1 o2 H1 H2 E. rewrite (proj1 (C03_canonical n o1 H1)), (proj1 (C03_canonical n o2 H2)). now rewrite E.
Qed.

Example C03_nonvacuous :
  let t1 := [x01;x01;x01;x01;x01;x01;x01;x01] in let t2 := [x02;x02;x02;x02;x02;x02;x02;x02] in
  run [OAlloc t1 2 false; OInit t2 [xaa] false; ORealloc t1 0 0] (zeros 30)
  = t1 ++ [x00;x00;x00;x00] ++ t2 ++ [x01;x00;x00;x00; xaa] ++ zeros 5.
Proof. vm_compute. reflexivity. Qed.
