(** C05 — extra-account configs resolve to exactly the prescribed address.
    [find_pda] (the canonical program-derived address of a seed list under a program, or
    none) is universally quantified: the theorems hold for any such function.  The
    executable instance Lib/Pda.v (Gallina SHA-256 + Ed25519 point test) is compared with
    `Pubkey::try_find_program_address` on every run (partial: not a theorem about the
    curve25519 / sha2 crates). *)
From SplVerif Require Import Lib.Base Lib.Sha256 Lib.PdaSpec Resolution.Seeds Resolution.SeedsProofs Resolution.Account Resolution.Proofs Resolution.Prefix.
Local Open Scope N_scope.

Theorem C05_no_panic : forall find_pda e ix pid get, length (e_cfg e) = 32%nat ->
  resolve find_pda e ix pid get <> Panic.
Proof. exact resolve_no_panic. Qed.
Theorem C05_flags : forall find_pda e ix pid get m, resolve find_pda e ix pid get = Ok m ->
  m_signer m = pod_bool (e_signer e) /\ m_writable m = pod_bool (e_writable e).
Proof. exact resolve_flags. Qed.
Theorem C05_fixed_address : forall find_pda e ix pid get, Byte.to_N (e_disc e) = 0 ->
  resolve find_pda e ix pid get = Ok (flags_of e (e_cfg e)).
Proof. exact resolve_fixed. Qed.
Theorem C05_unknown_kind : forall find_pda e ix pid get, 3 <= Byte.to_N (e_disc e) < 128 ->
  exists c, resolve find_pda e ix pid get = Err c.
Proof. exact resolve_unknown_kind. Qed.

(** PDA configs: the canonical PDA of the materialised seeds, under the executing
    program (kind 1) or the account at index kind - 128 *)
Theorem C05_pda : forall find_pda e ix pid get program ss vs,
  (Byte.to_N (e_disc e) = 1 /\ program = pid) \/
  (128 <= Byte.to_N (e_disc e) /\ exists o, get (Byte.to_N (e_disc e) - 128) = Some (program, o)) ->
  unpack_config (e_cfg e) = Ok ss -> seed_values ss ix get = Ok vs ->
  resolve find_pda e ix pid get = match find_pda vs program with Some k => Ok (flags_of e k) | None => Err E_RES end.
Proof. exact resolve_pda_kind. Qed.
Theorem C05_external_program_missing : forall find_pda e ix pid get,
  128 <= Byte.to_N (e_disc e) -> get (Byte.to_N (e_disc e) - 128) = None -> exists c, resolve find_pda e ix pid get = Err c.
Proof. exact external_program_missing. Qed.

(** what each seed materialises to: literal bytes, the indexed instruction-data slice,
    the indexed account's key, the indexed slice of the indexed account's data; a missing
    index or a range past the end is an error *)
Theorem C05_seed_material : forall s rest ix get,
  seed_values (s :: rest) ix get =
  let? here :=
    match s with
    | SUninit => Ok []
    | SLiteral b => Ok [b]
    | SIxData i l => if len ix <? Byte.to_N i + Byte.to_N l then Err E_RES
                     else Ok [firstn (N.to_nat (Byte.to_N l)) (skipn (N.to_nat (Byte.to_N i)) ix)]
    | SAcctKey i => match get (Byte.to_N i) with Some (k, _) => Ok [k] | None => Err E_RES end
    | SAcctData a d l =>
        match get (Byte.to_N a) with
        | Some (_, Some data) =>
            if len data <? Byte.to_N d + Byte.to_N l then Err E_RES
            else Ok [firstn (N.to_nat (Byte.to_N l)) (skipn (N.to_nat (Byte.to_N d)) data)]
        | _ => Err E_RES
        end
    end in
  let? more := seed_values rest ix get in Ok (here ++ more).
Proof. exact (seed_values_cons (fun _ _ => None)). Qed.

(** key-from-data configs: the 32 bytes at the indexed position of instruction or account data *)
Theorem C05_key_from_data : forall find_pda e ix pid get kd,
  Byte.to_N (e_disc e) = 2 -> kd_unpack (e_cfg e) = Ok kd ->
  resolve find_pda e ix pid get =
  match kd with
  | KUninit => Err E_RES
  | KIxData i => if len ix <? Byte.to_N i + 32 then Err E_RES
                 else Ok (flags_of e (firstn 32 (skipn (N.to_nat (Byte.to_N i)) ix)))
  | KAcctData a d =>
      match get (Byte.to_N a) with
      | Some (_, Some data) => if len data <? Byte.to_N d + 32 then Err E_RES
                               else Ok (flags_of e (firstn 32 (skipn (N.to_nat (Byte.to_N d)) data)))
      | _ => Err E_RES
      end
  end.
Proof. exact resolve_key_data_kind. Qed.

(** constructors store exactly the information given *)
Theorem C05_ctor_pubkey : forall find_pda k s w ix pid get,
  resolve find_pda (new_with_pubkey k s w) ix pid get = Ok {| m_key := k; m_signer := s; m_writable := w |}.
Proof. exact ctor_pubkey. Qed.
Theorem C05_ctor_seeds : forall ss s w e, new_with_seeds ss s w = Ok e ->
  Byte.to_N (e_disc e) = 1 /\ unpack_config (e_cfg e) = Ok ss /\ length (e_cfg e) = 32%nat /\
  pod_bool (e_signer e) = s /\ pod_bool (e_writable e) = w.
Proof. exact ctor_seeds. Qed.
(** constructor and resolver composed: a config built from a seed list resolves to the
    canonical address of exactly those seeds' values, with the requested flags *)
Theorem C05_ctor_seeds_resolves : forall find_pda ss s w e ix pid get vs,
  new_with_seeds ss s w = Ok e -> seed_values ss ix get = Ok vs ->
  resolve find_pda e ix pid get =
  match find_pda vs pid with Some k => Ok {| m_key := k; m_signer := s; m_writable := w |} | None => Err E_RES end.
Proof. exact ctor_seeds_resolves. Qed.
(** "the canonical program-derived address": the search the correspondence check runs
    (Lib/Pda.v instantiates [on_curve] with the Ed25519 test written in Gallina; SHA-256 is
    Lib/Sha256.v) returns, for every seed list, program id and curve test, the address of the
    highest bump 255, 254, ... whose hash is off the curve, and that address is
    SHA-256(seeds ++ [bump] ++ program id ++ "ProgramDerivedAddress") *)
Theorem C05_canonical_bump : forall on_curve seeds pid k b,
  try_find_with on_curve seeds pid = Some (k, b) ->
  b <= 255 /\ cpa_with on_curve (seeds ++ [[b8 b]]) pid = CpaOk k /\
  forall b', b < b' <= 255 -> cpa_with on_curve (seeds ++ [[b8 b']]) pid = CpaInvalidSeeds.
Proof. exact try_find_with_canonical. Qed.
Theorem C05_derived_address : forall on_curve seeds pid k,
  cpa_with on_curve seeds pid = CpaOk k ->
  k = sha256 (concat seeds ++ pid ++ PDA_MARKER) /\ on_curve k = false /\
  (length seeds <= 16)%nat /\ Forall (fun s => (length s <= 32)%nat) seeds /\ length k = 32%nat.
Proof. exact cpa_with_spec. Qed.
Theorem C05_ctor_external : forall idx ss s w,
  (128 <= Byte.to_N idx -> exists c, new_external_pda idx ss s w = Err c) /\
  (forall e, new_external_pda idx ss s w = Ok e ->
     Byte.to_N (e_disc e) = Byte.to_N idx + 128 /\ unpack_config (e_cfg e) = Ok ss).
Proof. exact (ctor_external (fun _ _ => None)). Qed.

(** non-vacuity: 16 account-key seeds pack into exactly 32 bytes (the D4 input): with a
    derivation that refuses more than 15 seeds the result is an error, not a panic *)
Example C05_nonvacuous :
  let fp := fun (vs : list (list byte)) (_ : key) => if Nat.ltb 15 (length vs) then None else Some (zeros 32) in
  let e := {| e_disc := x01; e_cfg := concat (repeat [x03; x00] 16); e_signer := x00; e_writable := x01 |} in
  let get := fun _ : N => Some (zeros 32, None) in
  is_err (resolve fp e [] (zeros 32) get) = true /\ length (e_cfg e) = 32%nat.
Proof. cbv zeta. split; vm_compute; reflexivity. Qed.

(** "instruction data / account data of any length": a config can only address bytes below
    255 + 255, so whatever lies beyond byte 510 of the instruction data or of an account's data --
    kilobytes or gigabytes -- cannot influence the result.  [same_prefix d d']: equal, or sharing a
    prefix of at least 510 bytes; [getter_rel]: same keys, data related by [same_prefix] *)
Theorem C05_only_the_first_510_bytes_matter : forall find_pda e ix ix' pid g g',
  same_prefix ix ix' -> getter_rel g g' ->
  resolve find_pda e ix pid g = resolve find_pda e ix' pid g'.
Proof. exact resolve_prefix_only. Qed.
Example C05_prefix_nonvacuous :
  same_prefix (zeros 510 ++ [x01]) (zeros 510 ++ [x02; x03]) /\ getter_rel (fun _ => None) (fun _ => None).
Proof. split; [right; exists (zeros 510), [x01], [x02; x03]; repeat split; vm_compute; discriminate|intros i; exact I]. Qed.
