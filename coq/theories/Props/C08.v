(** C08 — off-chain and CPI resolution agree and keep stored order.
    Precondition as in the property: the initial account infos mirror the instruction's
    metas, and the fetcher returns the data the infos of the pool hold (and fails for keys
    that are not in the pool). *)
From SplVerif Require Import Lib.Base Tlv.Model Resolution.Seeds Resolution.Account Resolution.Proofs MetaList.Model MetaList.Stored.
From Coq Require Import Permutation.
Local Open Scope N_scope.

Theorem C08_agree : forall find_pda fetch pool cfgs ix pid infos metas,
  fetch_matches fetch pool ->
  Forall2 (fun m i => m_key m = i_key i /\ fetch (i_key i) = Ok (Some (i_data i))) metas infos ->
  match cpi_loop find_pda pool cfgs ix pid infos metas with
  | Ok (ms, infos') =>
      add_offchain find_pda fetch cfgs ix pid metas = Ok ms /\
      (exists app, ms = metas ++ app /\ length app = length cfgs) /\
      exists added, infos' = infos ++ added /\ map i_key added = map m_key (skipn (length metas) ms)
  | Err _ => exists e, add_offchain find_pda fetch cfgs ix pid metas = Err e
  | Panic => add_offchain find_pda fetch cfgs ix pid metas = Panic
  end.
Proof. exact c08_agree. Qed.

(** whatever the order of the pool, as long as every key finds the same (key, data) *)
Theorem C08_pool_order : forall find_pda p1 p2 cfgs ix pid, pools_equiv p1 p2 ->
  forall infos1 infos2 metas, kd_of infos1 = kd_of infos2 ->
  match cpi_loop find_pda p1 cfgs ix pid infos1 metas, cpi_loop find_pda p2 cfgs ix pid infos2 metas with
  | Ok (ms1, i1), Ok (ms2, i2) => ms1 = ms2 /\ kd_of i1 = kd_of i2
  | Err _, Err _ => True
  | Panic, Panic => True
  | _, _ => False
  end.
Proof. exact pool_order_irrelevant. Qed.

(** in particular: any permutation of a pool with one info per key *)
Theorem C08_permuted_pool : forall pool pool', distinct_keys pool -> Permutation pool pool' -> pools_equiv pool pool'.
Proof. exact permuted_pool_equiv. Qed.

(** neither helper panics, whatever the stored account bytes *)
Theorem C08_cpi_total : forall find_pda pool data t ix pid infos metas,
  add_cpi_data find_pda pool data t ix pid infos metas <> Panic.
Proof. exact add_cpi_data_total. Qed.
Theorem C08_offchain_total : forall find_pda fetch data t ix pid metas, (forall k, fetch k <> Panic) ->
  add_offchain_data find_pda fetch data t ix pid metas <> Panic.
Proof. exact add_offchain_data_total. Qed.

Example C08_nonvacuous :
  let fp := fun (_ : list (list byte)) (_ : key) => @None key in
  let k := zeros 32 in let k2 := repeat x01 32 in
  let i1 := {| i_key := k; i_signer := true; i_writable := false; i_data := [x07] |} in
  let i2 := {| i_key := k2; i_signer := false; i_writable := true; i_data := [] |} in
  let fetch := fun q => if key_eqb q k then Ok (Some [x07]) else if key_eqb q k2 then Ok (Some []) else Err 1%N in
  let metas := [{| m_key := k; m_signer := true; m_writable := false |}] in
  let cfgs := [new_with_pubkey k2 true true; new_with_pubkey k false true] in
  add_offchain fp fetch cfgs [] k metas
  = Ok (metas ++ [{| m_key := k2; m_signer := false; m_writable := true |}; {| m_key := k; m_signer := false; m_writable := false |}]) /\
  is_ok (cpi_loop fp [i2; i1] cfgs [] k [i1] metas) = true.
Proof. cbv zeta. split; vm_compute; reflexivity. Qed.
