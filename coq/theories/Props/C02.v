(** C02 — TLV decoding is total and matches the format on arbitrary bytes. *)
From SplVerif Require Import Lib.Base Tlv.Model Tlv.Spec Tlv.Walk Tlv.Parse.
Local Open Scope N_scope.

(** for every byte string: never a panic *)
Theorem C02_open_total : forall b, check_data b <> Panic.
Proof. exact check_data_total. Qed.
Theorem C02_discriminators_total : forall b, get_discriminators b <> Panic.
Proof. exact get_discriminators_total. Qed.
Theorem C02_get_bytes_total : forall b t r, get_bytes b t r <> Panic.
Proof. exact get_bytes_total. Qed.
Theorem C02_get_value_total : forall b t r size, get_value b t r size <> Panic.
Proof. exact get_value_total. Qed.

(** opening succeeds exactly on: well-formed entries, then end of buffer | fewer than
    8 zero bytes | an all-zero type tag followed by anything *)
Theorem C02_accepts_iff : forall b, (exists u, check_data b = Ok u) <-> WF b.
Proof. exact check_data_iff_WF. Qed.

Theorem C02_lookup : forall es tail t r, Forall wf_entry es -> term tail -> wf_tag t ->
  match split_entry es t r with
  | Some (a, v, b) => get_bytes (enc es ++ tail) t r = Ok (voff a, v)
  | None => exists e, get_bytes (enc es ++ tail) t r = Err e
  end.
Proof. exact get_bytes_WF. Qed.

Theorem C02_lookup_fixed_size : forall es tail t r size, Forall wf_entry es -> term tail -> wf_tag t ->
  match split_entry es t r with
  | Some (a, v, b) =>
      if len v =? size then get_value (enc es ++ tail) t r size = Ok (voff a, v)
      else exists e, get_value (enc es ++ tail) t r size = Err e
  | None => exists e, get_value (enc es ++ tail) t r size = Err e
  end.
Proof. exact get_value_WF. Qed.

Theorem C02_listed_types : forall es tail, Forall wf_entry es -> term tail ->
  get_discriminators (enc es ++ tail) = Ok (map fst es).
Proof. exact get_discriminators_WF. Qed.

(** whatever a lookup returns (on any bytes) is a range inside the buffer holding exactly those bytes *)
Theorem C02_in_bounds : forall b t r off v, get_bytes b t r = Ok (off, v) ->
  slice b off (off + len v) = Some v /\ off + len v <= len b.
Proof. exact get_bytes_in_bounds. Qed.

Theorem C02_decomposition_unique : forall es tail es' tail',
  Forall wf_entry es -> term tail -> Forall wf_entry es' -> term tail' ->
  enc es ++ tail = enc es' ++ tail' -> map fst es = map fst es' /\ len (enc es) = len (enc es').
Proof. exact WF_unique. Qed.

(** non-vacuity: an adversarial u32::MAX length field is rejected, garbage after a zero tag accepted *)
Example C02_nonvacuous :
  is_err (check_data ([x01;x01;x01;x01;x01;x01;x01;x01; xff;xff;xff;xff] ++ zeros 4)) = true /\
  is_ok (check_data ([x01;x01;x01;x01;x01;x01;x01;x01; x01;x00;x00;x00; x2a] ++ zeros 8 ++ [x09; x09; x09])) = true /\
  is_err (check_data ([x01;x01;x01;x01;x01;x01;x01;x01; x01;x00;x00;x00; x2a] ++ zeros 3 ++ [x09])) = true.
Proof. repeat split; vm_compute; reflexivity. Qed.
