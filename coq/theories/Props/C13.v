(** C13 — Pod integers and bool convert losslessly and encode little-endian.
    Parametric in the width [w] (bytes): PodU16/32/64/128 are w = 2,4,8,16;
    PodI16/I64 are the signed readings at w = 2, 8.
    Partial (decided by differential execution in the harness on every run, for every
    feature combination): the Borsh / Serde / Wincode encodings equal the primitive's. *)
From SplVerif Require Import Lib.Base Pod.Ints.
Local Open Scope N_scope.

Theorem C13_u_roundtrip : forall w x, x < 256 ^ N.of_nat w -> to_prim_u (of_prim_u w x) = x.
Proof. exact u_roundtrip. Qed.
Theorem C13_u_roundtrip_bytes : forall l, of_prim_u (length l) (to_prim_u l) = l.
Proof. exact u_roundtrip_bytes. Qed.
Theorem C13_little_endian : forall w x i, (i < w)%nat ->
  Byte.to_N (nth i (of_prim_u w x) x00) = (x / 256 ^ N.of_nat i) mod 256.
Proof. exact u_little_endian. Qed.
Theorem C13_i_roundtrip : forall w x, (0 < w)%nat -> (- modulus w <= 2 * x < modulus w)%Z ->
  to_prim_i (of_prim_i w x) = x.
Proof. exact i_roundtrip. Qed.
Theorem C13_i_roundtrip_bytes : forall l, (0 < length l)%nat -> of_prim_i (length l) (to_prim_i l) = l.
Proof. exact i_roundtrip_bytes. Qed.
Theorem C13_i_sign_in_top_byte : forall l, (0 < length l)%nat ->
  (to_prim_i l <? 0)%Z = (128 <=? Byte.to_N (last l x00)).
Proof. exact i_sign. Qed.

Theorem C13_bool_read : forall b, to_bool b = true <-> b <> x00.
Proof. exact bool_read. Qed.
Theorem C13_bool_write : forall b, of_bool b = x00 \/ of_bool b = x01.
Proof. exact bool_write. Qed.
Theorem C13_bool_roundtrip : forall b, to_bool (of_bool b) = b.
Proof. exact bool_roundtrip. Qed.

Theorem C13_usize_fits_iff : forall w n, (exists l, try_from_usize w n = Some l) <-> n < 256 ^ N.of_nat w.
Proof. exact usize_fits_iff. Qed.
Theorem C13_usize_roundtrip : forall w n l, n < USIZE_LIMIT -> try_from_usize w n = Some l ->
  to_usize l = Ok n /\ length l = w.
Proof. exact usize_roundtrip. Qed.

Theorem C13_cast_iff : forall sz l, (exists r, pod_from_bytes sz l = Ok r) <-> len l = sz.
Proof. exact cast_iff. Qed.
Theorem C13_cast_aliases : forall sz l r, pod_from_bytes sz l = Ok r -> r = (0, len l).
Proof. exact cast_aliases. Qed.
Theorem C13_cast_slice_iff : forall sz l, sz <> 0 ->
  (exists k, pod_slice_from_bytes sz l = Ok k) <-> len l mod sz = 0.
Proof. exact cast_slice_iff. Qed.
Theorem C13_cast_slice_count : forall sz l k, sz <> 0 -> pod_slice_from_bytes sz l = Ok k -> k * sz = len l.
Proof. exact cast_slice_count. Qed.

Example C13_nonvacuous :
  of_prim_u 4 0x01020304 = [x04; x03; x02; x01] /\ of_prim_i 2 (-2) = [xfe; xff] /\ to_prim_i [x00; x80] = (-32768)%Z.
Proof. repeat split; vm_compute; reflexivity. Qed.
