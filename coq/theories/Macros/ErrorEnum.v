(** Model of program-error-derive/src/macro_impl.rs (C19): discriminant assignment by
    Rust's rule, code <-> variant lookup, message selection, and the hashed start code
    (SHA-256 over "spl_program_error:" ++ name ++ LE32 nonce, bytes 13..17, first value
    >= 7000). *)
From SplVerif Require Import Lib.Base Lib.Sha256.
Local Open Scope N_scope.

Record variant := { v_name : list byte; v_disc : option N; v_msg : option (list byte) }.

(** Rust: explicit discriminant, else previous + 1, the first defaults to 0 *)
Fixpoint codes_from (next : N) (vs : list variant) : list N :=
  match vs with
  | [] => []
  | v :: vs => let c := match v_disc v with Some d => d | None => next end in c :: codes_from (c + 1) vs
  end.
Definition codes (vs : list variant) : list N := codes_from 0 vs.

(** "Unknown custom program error" *)
Definition UNKNOWN_MSG : list byte :=
  [x55;x6e;x6b;x6e;x6f;x77;x6e;x20;x63;x75;x73;x74;x6f;x6d;x20;x70;x72;x6f;x67;x72;x61;x6d;x20;x65;x72;x72;x6f;x72].
Definition to_str_msg (v : variant) : list byte := match v_msg v with Some m => m | None => UNKNOWN_MSG end.

(** index of a code in the table (TryFrom<u32> / FromPrimitive) *)
Fixpoint lookup (cs : list N) (c : N) : option nat :=
  match cs with
  | [] => None
  | x :: cs => if x =? c then Some O else option_map S (lookup cs c)
  end.

(** "spl_program_error" ++ ":" *)
Definition NS_PREFIX : list byte :=
  [x73;x70;x6c;x5f;x70;x72;x6f;x67;x72;x61;x6d;x5f;x65;x72;x72;x6f;x72;x3a].
Definition HASH_MIN : N := 7000.
Definition hash_value (name : list byte) (nonce : N) : N :=
  le_dec (firstn 4 (skipn 13 (sha256 (NS_PREFIX ++ name ++ le_enc 4 nonce)))).
Fixpoint hash_start_loop (fuel : nat) (name : list byte) (nonce : N) : option (N * N) :=
  match fuel with
  | O => None
  | S f => let d := hash_value name nonce in
           if HASH_MIN <=? d then Some (d, nonce) else hash_start_loop f name (nonce + 1)
  end.
(** the macro loops without bound; 64 iterations fail with probability (7000/2^32)^64 *)
Definition hash_start (name : list byte) : option (N * N) := hash_start_loop 64 name 0.

(** set_first_discriminant *)
Definition with_start (d : N) (vs : list variant) : list variant :=
  match vs with
  | [] => []
  | v :: vs => {| v_name := v_name v; v_disc := Some d; v_msg := v_msg v |} :: vs
  end.

(** * Theorems *)
Definition no_explicit (vs : list variant) : Prop := Forall (fun v => v_disc v = None) vs.

Lemma codes_from_contiguous vs : forall next i, no_explicit vs -> (i < length vs)%nat ->
  nth i (codes_from next vs) 0 = next + N.of_nat i.
Proof.
  induction vs as [|v vs IH]; intros next i Hn Hi; [cbn in Hi; lia|].
  inversion Hn as [|? ? Hv Hvs]; subst. cbn [codes_from]. rewrite Hv.
  destruct i as [|i]; cbn [nth]; [lia|]. rewrite IH by (assumption || (cbn in Hi; lia)). lia.
Qed.
Theorem hashed_codes_contiguous d v vs i : no_explicit vs -> (i < S (length vs))%nat ->
  nth i (codes (with_start d (v :: vs))) 0 = d + N.of_nat i.
Proof.
  intros Hn Hi. unfold codes. cbn [with_start codes_from v_disc].
  destruct i as [|i]; cbn [nth]; [lia|]. rewrite codes_from_contiguous by (assumption || lia). lia.
Qed.
Theorem codes_length vs : forall next, length (codes_from next vs) = length vs.
Proof. induction vs; intros; cbn; auto. Qed.

Theorem lookup_sound cs c i : lookup cs c = Some i -> nth i cs 0 = c /\ (i < length cs)%nat.
Proof.
  revert i. induction cs as [|x cs IH]; intros i H; [discriminate|]. cbn [lookup] in H.
  destruct (x =? c) eqn:E.
  - injection H as <-. cbn. split; lia.
  - destruct (lookup cs c) as [j|]; [|discriminate]. injection H as <-.
    destruct (IH j eq_refl) as [H1 H2]. cbn. split; [assumption|lia].
Qed.
Theorem lookup_complete cs i : NoDup cs -> (i < length cs)%nat -> lookup cs (nth i cs 0) = Some i.
Proof.
  revert i. induction cs as [|x cs IH]; intros i Hnd Hi; [cbn in Hi; lia|].
  inversion Hnd as [|? ? Hx Hcs]; subst. destruct i as [|i]; cbn [nth lookup].
  - now rewrite N.eqb_refl.
  - destruct (x =? nth i cs 0) eqn:E.
    + apply N.eqb_eq in E. exfalso. apply Hx. rewrite E. apply nth_In. cbn in Hi. lia.
    + rewrite IH by (assumption || (cbn in Hi; lia)). reflexivity.
Qed.
Theorem lookup_none cs c : lookup cs c = None <-> ~ In c cs.
Proof.
  induction cs as [|x cs IH]; cbn [lookup In]; [tauto|].
  destruct (x =? c) eqn:E.
  - apply N.eqb_eq in E. split; [discriminate|intros H; exfalso; apply H; auto].
  - apply N.eqb_neq in E. destruct (lookup cs c) eqn:El; cbn [option_map].
    + split; [discriminate|]. intros H. exfalso. assert (~ In c cs) by tauto. apply IH in H0. discriminate.
    + split; [|reflexivity]. intros _ [H|H]; [contradiction|]. now apply IH in H.
Qed.

Theorem hash_value_u32 name nonce : hash_value name nonce < 4294967296.
Proof.
  unfold hash_value. pose proof (le_dec_bound (firstn 4 (skipn 13 (sha256 (NS_PREFIX ++ name ++ le_enc 4 nonce))))) as H.
  rewrite firstn_length, skipn_length, sha256_length in H. exact H.
Qed.
Theorem hash_start_smallest name : forall fuel n0 d n,
  hash_start_loop fuel name n0 = Some (d, n) ->
  HASH_MIN <= d /\ d = hash_value name n /\ n0 <= n /\ forall k, n0 <= k < n -> hash_value name k < HASH_MIN.
Proof.
  induction fuel as [|fuel IH]; intros n0 d n H; [discriminate|]. cbn [hash_start_loop] in H.
  destruct (HASH_MIN <=? hash_value name n0) eqn:E.
  - injection H as <- <-. repeat split; try lia; intros k Hk; lia.
  - destruct (IH _ _ _ H) as (H1 & H2 & H3 & H4). split; [assumption|]. split; [assumption|]. split; [lia|].
    intros k Hk. destruct (N.eq_dec k n0) as [->|Hne]; [lia|]. apply H4. lia.
Qed.

(** C19: contiguous codes are distinct, so lookup inverts the code assignment of every
    enum without explicit discriminants after the first *)
Lemma codes_from_lower vs : forall next c, no_explicit vs -> In c (codes_from next vs) -> next <= c.
Proof.
  induction vs as [|v vs IH]; intros next c Hn Hin; [inversion Hin|].
  inversion Hn as [|? ? Hv Hvs]; subst. cbn [codes_from] in Hin. rewrite Hv in Hin.
  destruct Hin as [<-|Hin]; [lia|]. apply IH in Hin; [lia|assumption].
Qed.
Lemma codes_from_nodup vs : forall next, no_explicit vs -> NoDup (codes_from next vs).
Proof.
  induction vs as [|v vs IH]; intros next Hn; [constructor|].
  inversion Hn as [|? ? Hv Hvs]; subst. cbn [codes_from]. rewrite Hv. constructor.
  - intros Hin. apply codes_from_lower in Hin; [lia|assumption].
  - now apply IH.
Qed.
Theorem hashed_lookup_inverse d v vs i : no_explicit vs -> (i < S (length vs))%nat ->
  lookup (codes (with_start d (v :: vs))) (d + N.of_nat i) = Some i.
Proof.
  intros Hn Hi. rewrite <- (hashed_codes_contiguous d v vs i Hn Hi).
  apply lookup_complete.
  - unfold codes. cbn [with_start codes_from v_disc]. constructor.
    + intros Hin. apply codes_from_lower in Hin; [lia|assumption].
    + now apply codes_from_nodup.
  - unfold codes. cbn [with_start codes_from v_disc length]. rewrite codes_length. lia.
Qed.

