(** Model of discriminator/src/discriminator.rs and of the discriminator derive (C18). *)
From SplVerif Require Import Lib.Base Lib.Sha256.
Local Open Scope N_scope.

(** compile-time (derive) and run-time (`new_with_hash_input`) discriminator of a hash
    input: the first 8 bytes of SHA-256 of its UTF-8 bytes *)
Definition disc (hash_input : list byte) : list byte := firstn 8 (sha256 hash_input).

Definition from_u64 (n : N) : list byte := le_enc 8 n.
Definition to_u64 (d : list byte) : N := le_dec d.
Definition try_from_slice (l : list byte) : outcome (list byte) := if len l =? 8 then Ok l else Err 1.

Theorem disc_length s : length (disc s) = 8%nat.
Proof. unfold disc. rewrite firstn_length, sha256_length. reflexivity. Qed.
Theorem u64_roundtrip n : n < 18446744073709551616 -> to_u64 (from_u64 n) = n.
Proof. intros H. apply le_dec_enc_small. exact H. Qed.
Theorem bytes_roundtrip d : length d = 8%nat -> from_u64 (to_u64 d) = d.
Proof. intros H. unfold from_u64, to_u64. rewrite <- H. apply le_enc_dec. Qed.
Theorem to_u64_bound d : length d = 8%nat -> to_u64 d < 18446744073709551616.
Proof. intros H. pose proof (le_dec_bound d) as B. rewrite H in B. exact B. Qed.
Theorem slice_iff l : (exists d, try_from_slice l = Ok d) <-> len l = 8.
Proof.
  unfold try_from_slice. destruct (len l =? 8) eqn:E.
  - split; [intros _; lia|eauto].
  - split; [intros [d H]; discriminate|intros H; lia].
Qed.
Theorem slice_identity l d : try_from_slice l = Ok d -> d = l.
Proof. unfold try_from_slice. destruct (len l =? 8); congruence. Qed.

(** * The emitted impl header.  Generic parameters as abstract syntax; bounds, types
    and defaults are opaque token strings. *)
Inductive gparam :=
| GLifetime (name bounds : list byte)
| GType (name bounds : list byte) (default : option (list byte))
| GConst (name ty : list byte) (default : option (list byte)).
Definition gname (p : gparam) : list byte :=
  match p with GLifetime n _ | GType n _ _ | GConst n _ _ => n end.
Definition strip_default (p : gparam) : gparam :=
  match p with GType n b _ => GType n b None | GConst n t _ => GConst n t None | l => l end.
Definition has_default (p : gparam) : bool :=
  match p with GType _ _ (Some _) | GConst _ _ (Some _) => true | _ => false end.

(** what follows `impl` / what follows the type name / the where clause *)
Record header := { h_impl : list gparam; h_args : list (list byte); h_where : option (list byte) }.

(** `Generics::split_for_impl`: impl parameters keep bounds and lose defaults, the type
    is applied to the bare names, the where clause is kept *)
Definition emit_header (ps : list gparam) (w : option (list byte)) : header :=
  {| h_impl := map strip_default ps; h_args := map gname ps; h_where := w |}.

Definition header_wf (ps : list gparam) (w : option (list byte)) (h : header) : Prop :=
  Forall (fun p => has_default p = false) (h_impl h) /\
  map gname (h_impl h) = map gname ps /\
  h_impl h = map strip_default ps /\
  h_args h = map gname ps /\
  h_where h = w.
Theorem emit_header_wf ps w : header_wf ps w (emit_header ps w).
Proof.
  unfold header_wf, emit_header. cbn [h_impl h_args h_where]. repeat split.
  - apply Forall_forall. intros p Hp. apply in_map_iff in Hp as (q & <- & _). destruct q as [| ? ? []| ? ? []]; reflexivity.
  - rewrite map_map. apply map_ext. intros []; reflexivity.
Qed.
