(** Program-derived addresses, generic in the curve-membership test: the search that
    `Pubkey::try_find_program_address` performs (bump 255 downwards, first hash that is not a
    curve point) and what it guarantees.  Lib/Pda.v instantiates [on_curve] with the Ed25519
    test written with Bignums.BigZ; the theorems here hold for every test, so they do not
    depend on primitive integers. *)
From SplVerif Require Import Lib.Base Lib.Sha256.

Definition PDA_MARKER : list byte :=
  [x50;x72;x6f;x67;x72;x61;x6d;x44;x65;x72;x69;x76;x65;x64;x41;x64;x64;x72;x65;x73;x73].
Inductive cpa := CpaOk (k : list byte) | CpaInvalidSeeds | CpaTooLong.

Section Search.
Variable on_curve : list byte -> bool.

Definition cpa_with (seeds : list (list byte)) (program : list byte) : cpa :=
  if Nat.ltb 16 (length seeds) then CpaTooLong
  else if existsb (fun s => Nat.ltb 32 (length s)) seeds then CpaTooLong
  else let h := sha256 (concat seeds ++ program ++ PDA_MARKER) in
       if on_curve h then CpaInvalidSeeds else CpaOk h.

Fixpoint find_loop_with (n : nat) (bump : N) (seeds : list (list byte)) (program : list byte) : option (list byte * N) :=
  match n with
  | O => None
  | S n =>
      match cpa_with (seeds ++ [[b8 bump]]) program with
      | CpaOk k => Some (k, bump)
      | CpaInvalidSeeds => find_loop_with n (bump - 1) seeds program
      | CpaTooLong => None
      end
  end.
Definition try_find_with (seeds : list (list byte)) (program : list byte) : option (list byte * N) :=
  find_loop_with 255 255%N seeds program.

Local Open Scope N_scope.
(** the address search returns the canonical address: the first bump, counting down from 255,
    whose hash is not a curve point *)
Lemma find_loop_spec n : forall bump seeds pid k b, N.of_nat n <= bump + 1 ->
  find_loop_with n bump seeds pid = Some (k, b) ->
  b <= bump /\ cpa_with (seeds ++ [[b8 b]]) pid = CpaOk k /\
  forall b', b < b' <= bump -> cpa_with (seeds ++ [[b8 b']]) pid = CpaInvalidSeeds.
Proof.
  induction n as [|n IH]; intros bump seeds pid k b Hn H; [discriminate|].
  cbn [find_loop_with] in H.
  destruct (cpa_with (seeds ++ [[b8 bump]]) pid) as [k'| |] eqn:E; try discriminate.
  - injection H as <- <-. split; [lia|]. split; [exact E|]. intros b' Hb. lia.
  - destruct n as [|n']; [discriminate|].
    apply IH in H; [|lia]. destruct H as (H1 & H2 & H3). split; [lia|]. split; [exact H2|].
    intros b' Hb. destruct (N.eq_dec b' bump) as [->|Hne]; [exact E|]. apply H3. lia.
Qed.
Theorem try_find_with_canonical seeds pid k b :
  try_find_with seeds pid = Some (k, b) ->
  b <= 255 /\ cpa_with (seeds ++ [[b8 b]]) pid = CpaOk k /\
  forall b', b < b' <= 255 -> cpa_with (seeds ++ [[b8 b']]) pid = CpaInvalidSeeds.
Proof. unfold try_find_with. apply find_loop_spec. cbn. lia. Qed.

(** a derived address is the SHA-256 of seeds, bump, program id and the marker, and is off the curve *)
Theorem cpa_with_spec seeds pid k :
  cpa_with seeds pid = CpaOk k ->
  k = sha256 (concat seeds ++ pid ++ PDA_MARKER) /\ on_curve k = false /\
  (length seeds <= 16)%nat /\ Forall (fun s => (length s <= 32)%nat) seeds /\ length k = 32%nat.
Proof.
  unfold cpa_with. destruct (Nat.ltb 16 (length seeds)) eqn:E1; [discriminate|].
  destruct (existsb _ seeds) eqn:E2; [discriminate|].
  destruct (on_curve _) eqn:E3; [discriminate|]. intros [= <-].
  split; [reflexivity|]. split; [exact E3|]. apply Nat.ltb_ge in E1. split; [exact E1|]. split.
  - apply Forall_forall. intros s Hs. destruct (Nat.ltb 32 (length s)) eqn:E; [|now apply Nat.ltb_ge in E].
    exfalso. assert (existsb (fun s => Nat.ltb 32 (length s)) seeds = true) by (apply existsb_exists; eauto). congruence.
  - apply sha256_length.
Qed.

End Search.
