(** Base library: bytes, little-endian codec, outcomes, checked slicing.
    Definitions are total and computable; lemmas are the small interface the
    models' proofs rely on. Stdlib only. *)
From Coq Require Export List NArith ZArith Lia Bool Strings.Byte ZifyN ZifyNat ZifyBool.
Export ListNotations.
Ltac Zify.zify_post_hook ::= Z.div_mod_to_equations.
Global Arguments N.add : simpl never.
Global Arguments N.mul : simpl never.
Global Arguments N.sub : simpl never.
Global Arguments N.div : simpl never.
Global Arguments N.modulo : simpl never.
Global Arguments N.pow : simpl never.
Global Arguments N.eqb : simpl never.
Global Arguments N.ltb : simpl never.
Global Arguments N.leb : simpl never.
Global Arguments N.of_nat : simpl never.
Global Arguments N.to_nat : simpl never.

(** * Outcomes: every place where the Rust code can panic is [Panic]. *)
Inductive outcome (A : Type) : Type :=
| Ok (a : A)
| Err (e : N)      (* error class; codes are only compared where a property is about codes *)
| Panic.
Arguments Ok {A} a.
Arguments Err {A} e.
Arguments Panic {A}.

Definition bind {A B} (x : outcome A) (f : A -> outcome B) : outcome B :=
  match x with Ok a => f a | Err e => Err e | Panic => Panic end.
Notation "'let?' x ':=' e 'in' k" := (bind e (fun x => k))
  (at level 200, x pattern, e at level 100, k at level 200, right associativity).

Definition is_ok {A} (x : outcome A) : bool := match x with Ok _ => true | _ => false end.
Definition is_err {A} (x : outcome A) : bool := match x with Err _ => true | _ => false end.
Definition is_panic {A} (x : outcome A) : bool := match x with Panic => true | _ => false end.

(** * Generic list lemmas *)
Section ListLemmas.
Context {B : Type}.
Implicit Types l a b x m y mm p s q : list B.

Lemma firstn_app_l n a b : n <= length a -> firstn n (a ++ b) = firstn n a.
Proof. intros. rewrite firstn_app. replace (n - length a) with 0 by lia. now rewrite app_nil_r. Qed.
Lemma firstn_app_r n a b : length a <= n -> firstn n (a ++ b) = a ++ firstn (n - length a) b.
Proof. intros. rewrite firstn_app. now rewrite firstn_all2 by lia. Qed.
Lemma skipn_app_l n a b : n <= length a -> skipn n (a ++ b) = skipn n a ++ b.
Proof. intros. rewrite skipn_app. replace (n - length a) with 0 by lia. reflexivity. Qed.
Lemma skipn_app_r n a b : length a <= n -> skipn n (a ++ b) = skipn (n - length a) b.
Proof. intros. rewrite skipn_app. now rewrite skipn_all2 by lia. Qed.
Lemma firstn_exact a b : firstn (length a) (a ++ b) = a.
Proof. rewrite firstn_app_r by lia. now rewrite Nat.sub_diag, app_nil_r. Qed.
Lemma skipn_exact a b : skipn (length a) (a ++ b) = b.
Proof. rewrite skipn_app_r by lia. now rewrite Nat.sub_diag. Qed.
Lemma firstn_exact' n a b : n = length a -> firstn n (a ++ b) = a.
Proof. intros ->. apply firstn_exact. Qed.
Lemma skipn_exact' n a b : n = length a -> skipn n (a ++ b) = b.
Proof. intros ->. apply skipn_exact. Qed.

(** [splice l d new]: overwrite [length new] elements of [l] starting at [d]. *)
Definition splice l (d : nat) (new : list B) := firstn d l ++ new ++ skipn (d + length new) l.

Lemma splice_length l d new : d + length new <= length l -> length (splice l d new) = length l.
Proof. intros H. unfold splice. rewrite !app_length, firstn_length, skipn_length. lia. Qed.

Lemma splice_at x m y mm : length mm = length m -> splice (x ++ m ++ y) (length x) mm = x ++ mm ++ y.
Proof.
  intros H. unfold splice. rewrite firstn_exact. f_equal. f_equal.
  rewrite H, <- app_length, app_assoc. apply skipn_exact.
Qed.
Lemma splice_at' d x m y mm : d = length x -> length mm = length m ->
  splice (x ++ m ++ y) d mm = x ++ mm ++ y.
Proof. intros ->. apply splice_at. Qed.
Lemma src_at p s q : firstn (length s) (skipn (length p) (p ++ s ++ q)) = s.
Proof. rewrite skipn_exact. apply firstn_exact. Qed.
Lemma splice_nil l d : d <= length l -> splice l d [] = l.
Proof. intros. unfold splice. cbn. rewrite Nat.add_0_r. apply firstn_skipn. Qed.
Lemma skipn_add (a b : nat) l : skipn (a + b) l = skipn a (skipn b l).
Proof. revert l; induction b as [|b IH]; intros l. { now rewrite Nat.add_0_r. }
  destruct l as [|x l]. { now rewrite !skipn_nil. }
  rewrite Nat.add_succ_r. cbn [skipn]. apply IH. Qed.
Lemma firstn_add (a b : nat) l : firstn (a + b) l = firstn a l ++ firstn b (skipn a l).
Proof. revert l; induction a as [|a IH]; intros l; [reflexivity|].
  destruct l as [|x l]; cbn [Nat.add firstn skipn app]. { now rewrite firstn_nil. } f_equal. apply IH. Qed.
End ListLemmas.

(** * Bytes *)
Definition b8 (n : N) : byte := match Byte.of_N (n mod 256) with Some b => b | None => x00 end.
Definition zeros (n : nat) : list byte := repeat x00 n.
Definition byte_eqb (a b : byte) : bool := Byte.eqb a b.
Definition is_zero (b : byte) : bool := Byte.eqb b x00.
Definition all_zero (l : list byte) : bool := forallb is_zero l.

Lemma to_N_b8 n : Byte.to_N (b8 n) = (n mod 256)%N.
Proof.
  unfold b8. destruct (Byte.of_N (n mod 256)) eqn:E.
  - now apply Byte.to_of_N.
  - apply Byte.of_N_None_iff in E. pose proof (N.mod_upper_bound n 256). lia.
Qed.
Lemma b8_to_N b : b8 (Byte.to_N b) = b.
Proof. unfold b8. pose proof (Byte.to_N_bounded b). rewrite N.mod_small by lia. now rewrite Byte.of_to_N. Qed.
Lemma b8_mod n : b8 (n mod 256) = b8 n.
Proof. unfold b8. now rewrite N.mod_mod by lia. Qed.
Lemma to_N_inj a b : Byte.to_N a = Byte.to_N b -> a = b.
Proof. intros H. rewrite <- (b8_to_N a), <- (b8_to_N b). now rewrite H. Qed.
Lemma to_N_x00 : Byte.to_N x00 = 0%N. Proof. reflexivity. Qed.
Lemma to_N_0_inv b : Byte.to_N b = 0%N -> b = x00.
Proof. intros H. apply to_N_inj. now rewrite H. Qed.

Lemma byte_eqb_eq a b : byte_eqb a b = true <-> a = b.
Proof. unfold byte_eqb. apply Byte.byte_dec_bl || (split; [apply Byte.byte_dec_bl | apply Byte.byte_dec_lb]). Qed.
Lemma is_zero_true b : is_zero b = true <-> b = x00.
Proof. apply byte_eqb_eq. Qed.

Lemma zeros_length n : length (zeros n) = n. Proof. apply repeat_length. Qed.
Lemma zeros_app a b : zeros (a + b) = zeros a ++ zeros b. Proof. apply repeat_app. Qed.
Lemma all_zero_zeros n : all_zero (zeros n) = true.
Proof. induction n; cbn; auto. Qed.
Lemma all_zero_iff l : all_zero l = true <-> l = zeros (length l).
Proof.
  induction l as [|b l IH]; cbn; [tauto|].
  rewrite andb_true_iff, is_zero_true, IH. split.
  - intros [-> H]. unfold zeros in *. cbn. now f_equal.
  - unfold zeros; cbn. intros H. injection H as -> H. split; auto.
Qed.
Lemma all_zero_app a b : all_zero (a ++ b) = all_zero a && all_zero b.
Proof. apply forallb_app. Qed.
Lemma firstn_zeros k n : firstn k (zeros n) = zeros (Nat.min k n).
Proof. revert n; induction k; intros [|n]; cbn; auto. now rewrite IHk. Qed.
Lemma skipn_zeros k n : skipn k (zeros n) = zeros (n - k).
Proof. revert n; induction k; intros [|n]; cbn; auto. Qed.

Fixpoint list_byte_eqb (a b : list byte) : bool :=
  match a, b with
  | [], [] => true
  | x :: a, y :: b => byte_eqb x y && list_byte_eqb a b
  | _, _ => false
  end.
Lemma list_byte_eqb_eq a b : list_byte_eqb a b = true <-> a = b.
Proof.
  revert b; induction a as [|x a IH]; intros [|y b]; cbn; try (split; congruence).
  rewrite andb_true_iff, byte_eqb_eq, IH. split; [intros [-> ->]; auto | intros H; injection H; auto].
Qed.
Lemma list_byte_eqb_refl a : list_byte_eqb a a = true.
Proof. now apply list_byte_eqb_eq. Qed.

(** * Little-endian codec *)
Local Open Scope N_scope.
Fixpoint le_enc (k : nat) (n : N) : list byte :=
  match k with O => [] | S k => b8 n :: le_enc k (n / 256) end.
Fixpoint le_dec (l : list byte) : N :=
  match l with [] => 0 | b :: l => Byte.to_N b + 256 * le_dec l end.

Lemma le_enc_length k n : length (le_enc k n) = k.
Proof. revert n; induction k; intros; cbn; auto. Qed.
Lemma le_dec_enc k : forall n, le_dec (le_enc k n) = n mod 256 ^ N.of_nat k.
Proof.
  induction k as [|k IH]; intro n.
  - cbn. now rewrite N.mod_1_r.
  - cbn [le_enc le_dec]. rewrite to_N_b8, IH, Nnat.Nat2N.inj_succ, N.pow_succ_r'.
    rewrite N.mod_mul_r by (try apply N.pow_nonzero; lia). reflexivity.
Qed.
Lemma le_dec_enc_small k n : n < 256 ^ N.of_nat k -> le_dec (le_enc k n) = n.
Proof. intros. rewrite le_dec_enc. now apply N.mod_small. Qed.
Lemma le_enc_dec l : le_enc (length l) (le_dec l) = l.
Proof.
  induction l as [|b l IH]; [reflexivity|]. cbn [length le_enc le_dec].
  pose proof (Byte.to_N_bounded b). f_equal.
  - rewrite <- b8_mod. replace ((Byte.to_N b + 256 * le_dec l) mod 256) with (Byte.to_N b) by lia.
    apply b8_to_N.
  - replace ((Byte.to_N b + 256 * le_dec l) / 256) with (le_dec l) by lia. exact IH.
Qed.
Lemma le_enc_dec' k l : k = length l -> le_enc k (le_dec l) = l.
Proof. intros ->. apply le_enc_dec. Qed.
Lemma le_dec_bound l : le_dec l < 256 ^ N.of_nat (length l).
Proof.
  induction l as [|b l IH]; cbn [length le_dec]. { cbn. lia. }
  rewrite Nnat.Nat2N.inj_succ, N.pow_succ_r'. pose proof (Byte.to_N_bounded b). lia.
Qed.
Lemma le_dec_zeros k : le_dec (zeros k) = 0.
Proof. induction k; cbn [zeros repeat le_dec]; auto. fold (zeros k). rewrite IHk. reflexivity. Qed.
Lemma le_enc_0 k : le_enc k 0 = zeros k.
Proof. induction k; cbn; auto. fold (zeros k). now f_equal. Qed.
Lemma le_dec_inj a b : length a = length b -> le_dec a = le_dec b -> a = b.
Proof. intros HL HD. rewrite <- (le_enc_dec a), <- (le_enc_dec b). now rewrite HL, HD. Qed.

(** * Checked slicing with [N] indices (a failed check is where Rust panics) *)
Definition len {A} (l : list A) : N := N.of_nat (length l).
Definition slice {A} (l : list A) (a b : N) : option (list A) :=
  if (a <=? b) && (b <=? len l) then Some (firstn (N.to_nat (b - a)) (skipn (N.to_nat a) l)) else None.
Definition slice_from {A} (l : list A) (a : N) : option (list A) :=
  if a <=? len l then Some (skipn (N.to_nat a) l) else None.
(** overwrite [length new] elements at [a]; None when out of range *)
Definition write_at {A} (l : list A) (a : N) (new : list A) : option (list A) :=
  if a + len new <=? len l then Some (splice l (N.to_nat a) new) else None.

Lemma len_app {A} (a b : list A) : len (a ++ b) = len a + len b.
Proof. unfold len. rewrite app_length. lia. Qed.
Lemma len_zeros n : len (zeros n) = N.of_nat n.
Proof. unfold len. now rewrite zeros_length. Qed.
Lemma slice_length {A} (l r : list A) a b : slice l a b = Some r -> len r = b - a.
Proof.
  unfold slice, len. destruct (_ && _) eqn:E; [|discriminate]. intros [= <-].
  rewrite firstn_length, skipn_length. lia.
Qed.
Lemma slice_app {A} (p m q : list A) a b :
  a = len p -> b = len p + len m -> slice (p ++ m ++ q) a b = Some m.
Proof.
  intros -> ->. unfold slice, len. rewrite !app_length.
  replace (_ && _) with true by lia. f_equal.
  rewrite Nnat.Nat2N.id. replace (N.to_nat _) with (length m) by lia. apply src_at.
Qed.
Lemma write_at_app {A} (p m q mm : list A) a :
  a = len p -> length mm = length m -> write_at (p ++ m ++ q) a mm = Some (p ++ mm ++ q).
Proof.
  intros -> HL. unfold write_at, len. rewrite !app_length, HL.
  replace (_ <=? _) with true by lia. f_equal. rewrite Nnat.Nat2N.id. now apply splice_at.
Qed.
Lemma write_at_length {A} (l r new : list A) a : write_at l a new = Some r -> length r = length l.
Proof.
  unfold write_at, len. destruct (_ <=? _) eqn:E; [|discriminate]. intros [= <-].
  apply splice_length. lia.
Qed.
