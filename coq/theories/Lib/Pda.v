(** Executable oracle for `Pubkey::try_find_program_address` (host implementation of
    solana-address): SHA-256 over seeds ++ [bump] ++ program id ++ "ProgramDerivedAddress",
    bump 255 down to 1, first hash that is not a valid compressed Edwards point.
    Uses Bignums.BigZ (primitive 63-bit integers) for the curve test.  No theorem depends
    on this file: it instantiates the [find_pda] parameter of Resolution/Account.v for the
    correspondence check, and is itself compared with the crate on every run. *)
From Coq Require Import ZArith.
From Bignums Require Import BigZ.
From SplVerif Require Export Lib.Base Lib.Sha256 Lib.PdaSpec.

Definition P25519 : bigZ := 57896044618658097711785492504343953926634992332820282019728792003956564819949%bigZ.
Definition D25519 : bigZ := 37095705934669439343138083508754565189542113879843219016388785533085940283555%bigZ.
Definition mulm (a b : bigZ) : bigZ := ((a * b) mod P25519)%bigZ.
Fixpoint powm_pos (a : bigZ) (e : positive) : bigZ :=
  match e with
  | xH => a
  | xO e' => let t := powm_pos a e' in mulm t t
  | xI e' => let t := powm_pos a e' in mulm (mulm t t) a
  end.
(** (p - 1) / 2 *)
Definition HALF_P : positive := 28948022309329048855892746252171976963317496166410141009864396001978282409974%positive.
(** CompressedEdwardsY::decompress().is_some(): (y^2 - 1) / (d y^2 + 1) is a square mod p
    (the sign bit is ignored, y is reduced mod p) *)
Definition on_curve_y (y : bigZ) : bool :=
  let y := (y mod P25519)%bigZ in
  let y2 := mulm y y in
  let u := ((y2 - 1) mod P25519)%bigZ in
  let v := ((mulm D25519 y2 + 1) mod P25519)%bigZ in
  let l := powm_pos (mulm u v) HALF_P in
  ((l =? 0) || (l =? 1))%bigZ.
Definition TWO255 : N := 57896044618658097711785492504343953926634992332820282019728792003956564819968%N.
Definition bytes_are_curve_point (h : list byte) : bool :=
  on_curve_y (BigZ.of_Z (Z.of_N (N.modulo (le_dec h) TWO255))).

(** "ProgramDerivedAddress" *)
Definition create_program_address := cpa_with bytes_are_curve_point.
Definition find_loop := find_loop_with bytes_are_curve_point.
Definition try_find_program_address (seeds : list (list byte)) (program : list byte) : option (list byte * N) :=
  try_find_with bytes_are_curve_point seeds program.
Definition find_pda (seeds : list (list byte)) (program : list byte) : option (list byte) :=
  option_map fst (try_find_program_address seeds program).

