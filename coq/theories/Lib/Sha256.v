(** SHA-256 (FIPS 180-4) in Gallina over [list byte]; 32-bit words are [N] kept below
    2^32.  Executable oracle: independent third implementation for C18/C19 and the PDA
    derivation of C05; validated against the `sha2` crate on every run. *)
From SplVerif Require Import Lib.Base.
Local Open Scope N_scope.

Definition M32 : N := 4294967295.
Definition w32 (x : N) : N := N.land x M32.
Definition add32 (a b : N) : N := w32 (a + b).
Definition rotr (n x : N) : N := N.lor (N.shiftr x n) (w32 (N.shiftl x (32 - n))).
Definition shr (n x : N) : N := N.shiftr x n.
Definition not32 (x : N) : N := N.lxor x M32.
Definition Ch (x y z : N) : N := N.lxor (N.land x y) (N.land (not32 x) z).
Definition Maj (x y z : N) : N := N.lxor (N.lxor (N.land x y) (N.land x z)) (N.land y z).
Definition bsig0 (x : N) : N := N.lxor (N.lxor (rotr 2 x) (rotr 13 x)) (rotr 22 x).
Definition bsig1 (x : N) : N := N.lxor (N.lxor (rotr 6 x) (rotr 11 x)) (rotr 25 x).
Definition ssig0 (x : N) : N := N.lxor (N.lxor (rotr 7 x) (rotr 18 x)) (shr 3 x).
Definition ssig1 (x : N) : N := N.lxor (N.lxor (rotr 17 x) (rotr 19 x)) (shr 10 x).

Definition K256 : list N := [
 0x428a2f98; 0x71374491; 0xb5c0fbcf; 0xe9b5dba5; 0x3956c25b; 0x59f111f1; 0x923f82a4; 0xab1c5ed5;
 0xd807aa98; 0x12835b01; 0x243185be; 0x550c7dc3; 0x72be5d74; 0x80deb1fe; 0x9bdc06a7; 0xc19bf174;
 0xe49b69c1; 0xefbe4786; 0x0fc19dc6; 0x240ca1cc; 0x2de92c6f; 0x4a7484aa; 0x5cb0a9dc; 0x76f988da;
 0x983e5152; 0xa831c66d; 0xb00327c8; 0xbf597fc7; 0xc6e00bf3; 0xd5a79147; 0x06ca6351; 0x14292967;
 0x27b70a85; 0x2e1b2138; 0x4d2c6dfc; 0x53380d13; 0x650a7354; 0x766a0abb; 0x81c2c92e; 0x92722c85;
 0xa2bfe8a1; 0xa81a664b; 0xc24b8b70; 0xc76c51a3; 0xd192e819; 0xd6990624; 0xf40e3585; 0x106aa070;
 0x19a4c116; 0x1e376c08; 0x2748774c; 0x34b0bcb5; 0x391c0cb3; 0x4ed8aa4a; 0x5b9cca4f; 0x682e6ff3;
 0x748f82ee; 0x78a5636f; 0x84c87814; 0x8cc70208; 0x90befffa; 0xa4506ceb; 0xbef9a3f7; 0xc67178f2].

Definition state := (N * N * N * N * N * N * N * N)%type.
Definition H0 : state :=
  (0x6a09e667, 0xbb67ae85, 0x3c6ef372, 0xa54ff53a, 0x510e527f, 0x9b05688c, 0x1f83d9ab, 0x5be0cd19).

(** big-endian 32-bit word of 4 bytes *)
Definition be32_dec (l : list byte) : N :=
  fold_left (fun acc b => acc * 256 + Byte.to_N b) l 0.
Definition be_enc (k : nat) (x : N) : list byte := rev (le_enc k x).

Fixpoint words16 (n : nat) (l : list byte) : list N :=
  match n with O => [] | S n => be32_dec (firstn 4 l) :: words16 n (skipn 4 l) end.

(** message schedule: [w] holds the last 16 words, oldest first *)
Definition next_w (w : list N) : N :=
  match w with
  | [w0; w1; _; _; _; _; _; _; _; w9; _; _; _; _; w14; _] =>
      add32 (add32 (ssig1 w14) w9) (add32 (ssig0 w1) w0)
  | _ => 0
  end.

Definition round (s : state) (k w : N) : state :=
  let '(a, b, c, d, e, f, g, h) := s in
  let t1 := add32 (add32 (add32 h (bsig1 e)) (add32 (Ch e f g) k)) w in
  let t2 := add32 (bsig0 a) (Maj a b c) in
  (add32 t1 t2, a, b, c, add32 d t1, e, f, g).

(** 64 rounds: consume the constants; the window supplies / extends the schedule *)
Fixpoint rounds (ks : list N) (w : list N) (s : state) : state :=
  match ks with
  | [] => s
  | k :: ks' =>
      match w with
      | w0 :: wt => rounds ks' (wt ++ [next_w w]) (round s k w0)
      | [] => s
      end
  end.

Definition add_state (s t : state) : state :=
  let '(a, b, c, d, e, f, g, h) := s in let '(a', b', c', d', e', f', g', h') := t in
  (add32 a a', add32 b b', add32 c c', add32 d d', add32 e e', add32 f f', add32 g g', add32 h h').
Definition compress (s : state) (block : list byte) : state :=
  add_state s (rounds K256 (words16 16 block) s).

Fixpoint blocks (n : nat) (s : state) (l : list byte) : state :=
  match n with O => s | S n => blocks n (compress s (firstn 64 l)) (skipn 64 l) end.

Definition pad (m : list byte) : list byte :=
  let l := length m in
  let k := ((64 - (l + 9) mod 64) mod 64)%nat in
  m ++ [x80] ++ zeros k ++ be_enc 8 (8 * N.of_nat l).

Definition out (s : state) : list byte :=
  let '(a, b, c, d, e, f, g, h) := s in
  be_enc 4 a ++ be_enc 4 b ++ be_enc 4 c ++ be_enc 4 d ++ be_enc 4 e ++ be_enc 4 f ++ be_enc 4 g ++ be_enc 4 h.

Definition sha256 (m : list byte) : list byte :=
  let p := pad m in out (blocks (length p / 64) H0 p).

Lemma be_enc_length k x : length (be_enc k x) = k.
Proof. unfold be_enc. now rewrite rev_length, le_enc_length. Qed.
Theorem sha256_length m : length (sha256 m) = 32%nat.
Proof.
  unfold sha256, out. destruct (blocks _ _ _) as [[[[[[[a b] c] d] e] f] g] h].
  now rewrite !app_length, !be_enc_length.
Qed.

(** FIPS 180-4 / NIST test vectors *)
Definition hex_of (l : list byte) : N := fold_left (fun acc b => acc * 256 + Byte.to_N b) l 0.
Example sha256_empty :
  hex_of (sha256 []) = 0xe3b0c44298fc1c149afbf4c8996fb92427ae41e4649b934ca495991b7852b855.
Proof. vm_compute. reflexivity. Qed.
Example sha256_abc :
  hex_of (sha256 [x61; x62; x63]) = 0xba7816bf8f01cfea414140de5dae2223b00361a396177a9cb410ff61f20015ad.
Proof. vm_compute. reflexivity. Qed.
Example sha256_448bits :
  hex_of (sha256 [x61; x62; x63; x64; x62; x63; x64; x65; x63; x64; x65; x66; x64; x65; x66; x67; x65; x66; x67; x68; x66; x67; x68; x69; x67; x68; x69; x6a; x68; x69; x6a; x6b; x69; x6a; x6b; x6c; x6a; x6b; x6c; x6d; x6b; x6c; x6d; x6e; x6c; x6d; x6e; x6f; x6d; x6e; x6f; x70; x6e; x6f; x70; x71])
  = 0x248d6a61d20638b8e5c026930c3e6039a33ce45964ff2167f6ecedd419db06c1.
Proof. vm_compute. reflexivity. Qed.

(** the padded message is a whole number of 64-byte blocks, and keeps the message as a prefix *)
Lemma pad_blocks m : (length (pad m) mod 64 = 0)%nat.
Proof.
  unfold pad. cbv zeta. rewrite !app_length, zeros_length, be_enc_length. cbn [length].
  set (l := length m).
  assert (H : (l + (1 + ((64 - (l + 9) mod 64) mod 64 + 8)) = (l + 9) + (64 - (l + 9) mod 64) mod 64)%nat) by lia.
  rewrite H. pose proof (Nat.mod_upper_bound (l + 9) 64 ltac:(lia)) as Hb.
  pose proof (Nat.div_mod (l + 9) 64 ltac:(lia)) as Hd.
  destruct (Nat.eq_dec ((l + 9) mod 64) 0) as [E|E].
  - rewrite E. replace ((64 - 0) mod 64)%nat with 0%nat by reflexivity. rewrite Nat.add_0_r. exact E.
  - rewrite (Nat.mod_small (64 - (l + 9) mod 64) 64) by lia.
    replace (l + 9 + (64 - (l + 9) mod 64))%nat with ((1 + (l + 9) / 64) * 64)%nat by lia.
    apply Nat.mod_mul. lia.
Qed.
Lemma pad_prefix m : firstn (length m) (pad m) = m.
Proof. unfold pad. cbv zeta. rewrite firstn_app, Nat.sub_diag, firstn_all. cbn [firstn]. now rewrite app_nil_r. Qed.

