(** Correspondence check for C15: realloc-and-pack histories on accounts, and the Borsh universe. *)
From SplVerif Require Export Lib.Base Corr.Common Tlv.Model AccountRealloc.Model AccountRealloc.Borsh.
From SplVerif Require Import Corr.Tlv.
Local Open Scope N_scope.

Definition tg := Corr.Tlv.tg.

Inductive rp := RP (t : tag) (rep : N) (enc : list byte) (partial : bool) (r : res unit) (ck : N) (ln : N).

Fixpoint run_rps (a : account) (ops : list rp) : account * bool :=
  match ops with
  | [] => (a, true)
  | RP t rep enc partial r ck ln :: ops =>
      let '(a', m) := realloc_and_pack a t rep enc partial in
      if agree (fun _ _ => true) m r && (cksum (a_data a') =? ck) && (len (a_data a') =? ln)
      then run_rps a' ops else (a', false)
  end.

Inductive case :=
| CAcct (init : list byte) (orig : N) (ops : list rp) (fck flen : N)
| CBorsh (t : ty) (v : val t) (bytes pad : list byte).

Definition check (c : case) : bool :=
  match c with
  | CAcct init orig ops fck flen =>
      let '(a, ok) := run_rps {| a_data := init; a_orig := orig |} ops in
      ok && (cksum (a_data a) =? fck) && (len (a_data a) =? flen)
  | CBorsh t v bytes pad =>
      list_byte_eqb (encode t v) bytes &&
      match decode t (bytes ++ pad) with
      | Some (v', r) => list_byte_eqb (encode t v') bytes && list_byte_eqb r pad
      | None => false
      end
  end.
