(** Shared definitions for the correspondence check: observed results, blobs, the
    disagreement list.  A shard file written by the harness is
      Definition cases : list case := [...].  Eval vm_compute in (bad check cases). *)
From SplVerif Require Import Lib.Base.
Local Open Scope N_scope.

(** Result observed on the implementation: payload / any error / panic.
    Error codes are deliberately not compared (DESIGN 4.1). *)
Inductive res (A : Type) : Type := ROk (a : A) | RErr | RPanic.
Arguments ROk {A} a. Arguments RErr {A}. Arguments RPanic {A}.

Definition agree {A} (eqb : A -> A -> bool) (m : outcome A) (r : res A) : bool :=
  match m, r with
  | Ok a, ROk b => eqb a b
  | Err _, RErr => true
  | Panic, RPanic => true
  | _, _ => false
  end.

(** indices (from 0) of the cases on which [check] fails *)
Fixpoint bad_from {C} (check : C -> bool) (i : N) (cs : list C) : list N :=
  match cs with
  | [] => []
  | c :: cs => if check c then bad_from check (i + 1) cs else i :: bad_from check (i + 1) cs
  end.
Definition bad {C} (check : C -> bool) (cs : list C) : list N := bad_from check 0 cs.

(** A blob travels as (length, little-endian integer); decoding walks the binary
    representation 8 bits at a time (linear; [N.div] on 2000-bit numbers is not). *)
Fixpoint pos_bits (p : positive) : list bool :=
  match p with xH => [true] | xO p => false :: pos_bits p | xI p => true :: pos_bits p end.
Definition n_bits (n : N) : list bool := match n with N0 => [] | Npos p => pos_bits p end.
Definition bit (b : bool) (w : N) : N := if b then w else 0.
Fixpoint bytes_of_bits (k : nat) (bs : list bool) : list byte :=
  match k with
  | O => []
  | S k =>
      match bs with
      | b0 :: b1 :: b2 :: b3 :: b4 :: b5 :: b6 :: b7 :: rest =>
          b8 (bit b0 1 + bit b1 2 + bit b2 4 + bit b3 8 + bit b4 16 + bit b5 32 + bit b6 64 + bit b7 128)
          :: bytes_of_bits k rest
      | _ =>
          let v := fold_right (fun b acc => bit b 1 + 2 * acc) 0 bs in
          b8 v :: bytes_of_bits k []
      end
  end.
Definition blob (n : N) (v : N) : list byte := bytes_of_bits (N.to_nat n) (n_bits v).
(** pattern bytes: b_i = seed + 7*i mod 256 *)
Fixpoint pat_from (k : nat) (v : N) : list byte :=
  match k with O => [] | S k => b8 v :: pat_from k ((v + 7) mod 256) end.
Definition pat (seed n : N) : list byte := pat_from (N.to_nat n) (seed mod 256).

(** Adler-32 over the bytes, with conditional subtraction instead of [mod] *)
Definition ck_step (st : N * N) (x : byte) : N * N :=
  let a := fst st + Byte.to_N x in
  let a := if 65521 <=? a then a - 65521 else a in
  let b := snd st + a in
  let b := if 65521 <=? b then b - 65521 else b in
  (a, b).
Definition cksum (l : list byte) : N :=
  let r := fold_left ck_step l (1, 0) in snd r * 65536 + fst r.

Definition opt_eqb {A} (eqb : A -> A -> bool) (a b : option A) : bool :=
  match a, b with Some x, Some y => eqb x y | None, None => true | _, _ => false end.
Fixpoint list_eqb {A} (eqb : A -> A -> bool) (a b : list A) : bool :=
  match a, b with
  | [], [] => true
  | x :: a, y :: b => eqb x y && list_eqb eqb a b
  | _, _ => false
  end.

Example blob_ex : blob 3 0x030201 = [x01; x02; x03]. Proof. reflexivity. Qed.
Example blob_ex2 : blob 4 0x0100 = [x00; x01; x00; x00]. Proof. reflexivity. Qed.
Example blob_ex3 : blob 2 0 = [x00; x00]. Proof. reflexivity. Qed.
Example pat_ex : pat 250 3 = [xfa; x01; x08]. Proof. reflexivity. Qed.
