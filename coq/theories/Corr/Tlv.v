(** Correspondence check for the TLV slab (C01-C04): histories and parses observed on
    the implementation are replayed on the model and compared observation by observation. *)
From SplVerif Require Export Lib.Base Corr.Common Tlv.Model.
Local Open Scope N_scope.

(** the harness's fixed tag table (tags sharing a 7-byte prefix, leading/trailing zero bytes) *)
Definition tg (k : N) : tag :=
  match k with
  | 0 => [x01; x01; x01; x01; x01; x01; x01; x01]
  | 1 => [x02; x02; x02; x02; x02; x02; x02; x02]
  | 2 => [x01; x01; x01; x01; x01; x01; x01; x09]
  | 3 => [x00; x00; x00; x00; x00; x00; x00; x05]
  | 4 => [x07; x00; x00; x00; x00; x00; x00; x00]
  | _ => [xee; xee; xee; xee; xee; xee; xee; xee]
  end.

Definition obs_eqb (a b : N * N) : bool := (fst a =? fst b) && (snd a =? snd b).

Inductive item :=
| IOp (o : op) (r : res (N * N)) (ck : N)             (* result (value_start, repetition#), slab checksum after *)
| IGet (t : tag) (rep : N) (r : res (N * N * N))       (* offset, length, checksum of the bytes *)
| IGetT (t : tag) (rep : N) (size : N) (r : res N)     (* typed lookup: offset *)
| IDiscs (r : res (list tag))
| IOpen (r : res unit).

Definition run_item (buf : list byte) (it : item) : list byte * bool :=
  match it with
  | IOp o r ck =>
      let '(b, m) := step buf o in
      (b, agree obs_eqb m r && (cksum b =? ck))
  | IGet t rep r =>
      let m := let? x := get_bytes buf t rep in Ok (fst x, len (snd x), cksum (snd x)) in
      (buf, agree (fun a b => (fst (fst a) =? fst (fst b)) && (snd (fst a) =? snd (fst b)) && (snd a =? snd b)) m r)
  | IGetT t rep size r =>
      let m := let? x := get_value buf t rep size in Ok (fst x) in
      (buf, agree N.eqb m r)
  | IDiscs r => (buf, agree (list_eqb list_byte_eqb) (get_discriminators buf) r)
  | IOpen r => (buf, agree (fun _ _ => true) (check_data buf) r)
  end.

Fixpoint run_items (buf : list byte) (its : list item) : list byte * bool :=
  match its with
  | [] => (buf, true)
  | it :: its =>
      let '(b, ok) := run_item buf it in
      if ok then run_items b its else (b, false)
  end.

Inductive case :=
| CHist (init : list byte) (its : list item) (final : list byte).

Definition check (c : case) : bool :=
  match c with
  | CHist init its final =>
      let '(b, ok) := run_items init its in ok && list_byte_eqb b final
  end.
