From SplVerif Require Export Lib.Base Corr.Common Resolution.Seeds.
Local Open Scope N_scope.

Inductive case :=
| CPack (ss : list seed) (r : res (list byte))
| CPackOne (s : seed) (dst : list byte) (r : res (list byte))
| CUnpack (cfg : list byte) (r : res (list seed))
| CUnpackOne (b : list byte) (r : res seed)
| CKdPack (k : keydata) (r : res (list byte))
| CKdPackOne (k : keydata) (dst : list byte) (r : res (list byte))
| CKdUnpack (b : list byte) (r : res keydata).

Definition check (c : case) : bool :=
  match c with
  | CPack ss r => agree list_byte_eqb (pack_config ss) r
  | CPackOne s dst r => agree list_byte_eqb (pack_seed s dst) r
  | CUnpack cfg r => agree seeds_eqb (unpack_config cfg) r
  | CUnpackOne b r => agree seed_eqb (unpack_seed b) r
  | CKdPack k r => agree list_byte_eqb (kd_pack_config k) r
  | CKdPackOne k dst r => agree list_byte_eqb (kd_pack k dst) r
  | CKdUnpack b r => agree keydata_eqb (kd_unpack b) r
  end.
