(** Correspondence check for the macro crates (C18, C19) and the error tables. *)
From SplVerif Require Export Lib.Base Corr.Common Lib.Sha256 Macros.ErrorEnum Macros.Discriminator.
Local Open Scope N_scope.

Definition gparam_eqb (a b : gparam) : bool :=
  match a, b with
  | GLifetime n x, GLifetime n' x' => list_byte_eqb n n' && list_byte_eqb x x'
  | GType n x d, GType n' x' d' => list_byte_eqb n n' && list_byte_eqb x x' && opt_eqb list_byte_eqb d d'
  | GConst n x d, GConst n' x' d' => list_byte_eqb n n' && list_byte_eqb x x' && opt_eqb list_byte_eqb d d'
  | _, _ => false
  end.

(** one row of an error table observed on a compiled enum:
    code (ProgramError::from), to_str, Display, TryFrom<u32>(code) gives back the same variant *)
Definition row := (N * list byte * list byte * bool)%type.

Inductive case :=
(* C18 *)
| CDisc (input : list byte) (macro_bytes runtime_bytes : list byte)   (* builder output, new_with_hash_input *)
| CDiscConv (n : N) (bytes : list byte) (back : N)                   (* From<u64>, into [u8;8], into u64 *)
| CDiscSlice (l : list byte) (r : res (list byte))
| CHeader (ps : list gparam) (w : option (list byte)) (impl : list gparam) (args : list (list byte)) (w' : option (list byte))
(* C19 *)
| CHash (name : list byte) (start : N)                               (* first discriminant set by the real generator *)
| CHashWrong (name : list byte) (named : N)                          (* value named by the compile error for a wrong start *)
| CToStr (vs : list variant) (msgs : list (list byte))               (* to_str arms emitted by the real generator *)
| CEnum (vs : list variant) (start : option N) (rows : list row)     (* a compiled enum *)
| CTable (start : N) (rows : list row).                              (* a library enum scanned over its code range *)

Fixpoint rows_ok (cs : list N) (vs : list variant) (rows : list row) : bool :=
  match cs, vs, rows with
  | [], [], [] => true
  | c :: cs, v :: vs, (code, ts, disp, back) :: rows =>
      (code =? c) && list_byte_eqb ts (to_str_msg v) &&
      (match v_msg v with Some m => list_byte_eqb disp m | None => true end) && back && rows_ok cs vs rows
  | _, _, _ => false
  end.
Fixpoint table_ok (next : N) (rows : list row) : bool :=
  match rows with
  | [] => true
  | (code, ts, disp, back) :: rows => (code =? next) && list_byte_eqb ts disp && back && table_ok (next + 1) rows
  end.

Definition check (c : case) : bool :=
  match c with
  | CDisc input m r => list_byte_eqb (disc input) m && list_byte_eqb (disc input) r
  | CDiscConv n bytes back => list_byte_eqb (from_u64 n) bytes && (to_u64 bytes =? back) && (back =? n)
  | CDiscSlice l r => agree list_byte_eqb (try_from_slice l) r
  | CHeader ps w impl args w' =>
      let h := emit_header ps w in
      list_eqb gparam_eqb (h_impl h) impl && list_eqb list_byte_eqb (h_args h) args && opt_eqb list_byte_eqb (h_where h) w'
  | CHash name start => match hash_start name with Some (d, _) => d =? start | None => false end
  | CHashWrong name named => match hash_start name with Some (d, _) => d =? named | None => false end
  | CToStr vs msgs => list_eqb list_byte_eqb (map to_str_msg vs) msgs
  | CEnum vs start rows =>
      let vs' := match start with Some d => with_start d vs | None => vs end in
      rows_ok (codes vs') vs' rows
  | CTable start rows => table_ok start rows
  end.
