(** Correspondence check for the generic token parsers and the reference-codec model (C16, C17). *)
From SplVerif Require Export Lib.Base Corr.Common Token.Model.
Local Open Scope N_scope.

Definition acct_eqb (a b : list byte * list byte * N) : bool :=
  list_byte_eqb (fst (fst a)) (fst (fst b)) && list_byte_eqb (snd (fst a)) (snd (fst b)) && (snd a =? snd b).
Definition mint_eqb (a b : N * byte) : bool := (fst a =? fst b) && byte_eqb (snd a) (snd b).

(** digest of a reference account: mint, owner, amount, state, delegate, is_native, delegated, close *)
Definition racct := (list byte * list byte * N * N * option (list byte) * option N * N * option (list byte))%type.
Definition racct_of (r : ref_account) : racct :=
  (ra_mint r, ra_owner r, ra_amount r, ra_state r, ra_delegate r, ra_is_native r, ra_delegated r, ra_close r).
Definition racct_eqb (a b : racct) : bool :=
  let '(m, o, am, st, d, n, da, c) := a in let '(m', o', am', st', d', n', da', c') := b in
  list_byte_eqb m m' && list_byte_eqb o o' && (am =? am') && (st =? st') &&
  opt_eqb list_byte_eqb d d' && opt_eqb N.eqb n n' && (da =? da') && opt_eqb list_byte_eqb c c'.
Definition rmint := (option (list byte) * N * byte * option (list byte))%type.
Definition rmint_of (r : ref_mint) : rmint := (rm_authority r, rm_supply r, rm_decimals r, rm_freeze r).
Definition rmint_eqb (a b : rmint) : bool :=
  let '(au, s, d, f) := a in let '(au', s', d', f') := b in
  opt_eqb list_byte_eqb au au' && (s =? s') && byte_eqb d d' && opt_eqb list_byte_eqb f f'.

Inductive case :=
| CGen (p : prog) (b : list byte) (a : res (option (list byte * list byte * N))) (m : res (option (N * byte)))
| CRef (b : list byte) (a : option racct) (m : option rmint) (a22 : option racct) (m22 : option rmint).

Definition check (c : case) : bool :=
  match c with
  | CGen p b a m =>
      agree (opt_eqb acct_eqb) (generic_account p b) a && agree (opt_eqb mint_eqb) (generic_mint p b) m
  | CRef b a m a22 m22 =>
      opt_eqb racct_eqb (option_map racct_of (ref_unpack_account b)) a &&
      opt_eqb rmint_eqb (option_map rmint_of (ref_unpack_mint b)) m &&
      opt_eqb racct_eqb (option_map racct_of (ref22_unpack_account b)) a22 &&
      opt_eqb rmint_eqb (option_map rmint_of (ref22_unpack_mint b)) m22
  end.
