(** Correspondence check for account resolution (C05-C08) and the stored lists (C12). *)
From SplVerif Require Export Lib.Base Corr.Common Lib.Sha256 Lib.Pda Tlv.Model Resolution.Seeds Resolution.Account MetaList.Model MetaList.Stored.
Local Open Scope N_scope.

Definition meta_res_eqb (a b : meta) : bool := meta_eqb a b.
Definition extra_eqb (a b : extra) : bool :=
  byte_eqb (e_disc a) (e_disc b) && list_byte_eqb (e_cfg a) (e_cfg b) &&
  byte_eqb (e_signer a) (e_signer b) && byte_eqb (e_writable a) (e_writable b).

(** the fetcher induced by a pool of (key, data-or-none): Err for unknown keys *)
Definition pool_fetch (pool : list (key * option (list byte))) : fetcher :=
  fun k => match find (fun x => key_eqb (fst x) k) pool with Some x => Ok (snd x) | None => Err 31 end.

(** tag table shared with the harness *)
Definition mtag (k : N) : tag :=
  match k with
  | 0 => [x11; x11; x11; x11; x11; x11; x11; x11]
  | 1 => [x00; x22; x22; x22; x22; x22; x22; x00]
  | 2 => [x11; x11; x11; x11; x11; x11; x11; x33]
  | 3 => [x44; x00; x00; x00; x00; x00; x00; x44]
  | _ => if k <? 1000 then [x44; x00; x00; x00; x00; x00; x00; x44]
         else le_enc 8 (360287970189639936 + (k - 1000))   (* the harness's MTN<0x0500_0000_0000_0100 + j> *)
  end.

Inductive mitem :=
| MInit (t : N) (ms : list extra) (r : res unit) (ck : N)
| MUpdate (t : N) (ms : list extra) (r : res unit) (ck : N)
| MReload (t : N) (r : res (list extra)).

Definition run_mitem (buf : list byte) (it : mitem) : list byte * bool :=
  match it with
  | MInit t ms r ck => let '(b, m) := ml_init buf (mtag t) ms in (b, agree (fun _ _ => true) m r && (cksum b =? ck))
  | MUpdate t ms r ck => let '(b, m) := ml_update buf (mtag t) ms in (b, agree (fun _ _ => true) m r && (cksum b =? ck))
  | MReload t r => (buf, agree (list_eqb extra_eqb) (ml_reload buf (mtag t)) r)
  end.
Fixpoint run_mitems (buf : list byte) (its : list mitem) : list byte * bool :=
  match its with
  | [] => (buf, true)
  | it :: its => let '(b, ok) := run_mitem buf it in if ok then run_mitems b its else (b, false)
  end.

Inductive case :=
| CResolve (e : extra) (ix : list byte) (pid : key) (kds : list (key * option (list byte))) (r : res meta)
| CPda (seeds : list (list byte)) (program : key) (r : option (key * N))
| CCurve (h : list byte) (on_curve : bool)
| COffchain (cfgs : list extra) (ix : list byte) (pid : key) (metas : list meta)
            (pool : list (key * option (list byte))) (r : res (list meta))
| CCpi (cfgs : list extra) (ix : list byte) (pid : key) (metas : list meta) (infos pool : list info)
       (r : res (list meta * list key))
| CCheck (cfgs : list extra) (ix : list byte) (pid : key) (accounts : list info) (r : res unit)
(* the same helpers from the raw account bytes (TLV + list view read by the model too) *)
| COffchainD (data : list byte) (ix : list byte) (pid : key) (metas : list meta)
             (pool : list (key * option (list byte))) (r : res (list meta))
| CCpiD (data : list byte) (ix : list byte) (pid : key) (metas : list meta) (infos pool : list info)
        (r : res (list meta * list key))
| CCheckD (data : list byte) (ix : list byte) (pid : key) (accounts : list info) (r : res unit)
| CSizeOf (k : N) (r : res N)
| CMl (init : list byte) (its : list mitem) (final : list byte).

Definition check (c : case) : bool :=
  match c with
  | CResolve e ix pid kds r => agree meta_res_eqb (resolve find_pda e ix pid (kd_getter kds)) r
  | CPda seeds program r =>
      opt_eqb (fun a b => list_byte_eqb (fst a) (fst b) && (snd a =? snd b)) (try_find_program_address seeds program) r
  | CCurve h oc => Bool.eqb (bytes_are_curve_point h) oc
  | COffchain cfgs ix pid metas pool r =>
      agree (list_eqb meta_res_eqb) (add_offchain find_pda (pool_fetch pool) cfgs ix pid metas) r
  | CCpi cfgs ix pid metas infos pool r =>
      agree (fun a b => list_eqb meta_res_eqb (fst a) (fst b) && list_eqb list_byte_eqb (snd a) (snd b))
            (let? x := cpi_loop find_pda pool cfgs ix pid infos metas in Ok (fst x, map i_key (snd x))) r
  | CCheck cfgs ix pid accounts r => agree (fun _ _ => true) (check_accounts find_pda cfgs ix pid accounts) r
  | COffchainD data ix pid metas pool r =>
      agree (list_eqb meta_res_eqb) (add_offchain_data find_pda (pool_fetch pool) data (mtag 0) ix pid metas) r
  | CCpiD data ix pid metas infos pool r =>
      agree (fun a b => list_eqb meta_res_eqb (fst a) (fst b) && list_eqb list_byte_eqb (snd a) (snd b))
            (let? x := add_cpi_data find_pda pool data (mtag 0) ix pid infos metas in Ok (fst x, map i_key (snd x))) r
  | CCheckD data ix pid accounts r => agree (fun _ _ => true) (check_account_infos find_pda data (mtag 0) ix pid accounts) r
  | CSizeOf k r => agree N.eqb (ml_size_of k) r
  | CMl init its final => let '(b, ok) := run_mitems init its in ok && list_byte_eqb b final
  end.
