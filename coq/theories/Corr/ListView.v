(** Correspondence check for the list view (C09, C10, and the list part of C12). *)
From SplVerif Require Export Lib.Base Corr.Common ListView.Model.
Local Open Scope N_scope.

Definition pair_eqb (a b : N * N) : bool := (fst a =? fst b) && (snd a =? snd b).
(** D3 is a recorded finding: the model panics there; an implementation that returns
    an error instead (finding repaired) is accepted as well *)
Definition agree_known {A} (eqb : A -> A -> bool) (m : outcome A) (r : res A) : bool :=
  match m, r with Panic, RErr => true | _, _ => agree eqb m r end.

Inductive item :=
| LOp (o : op) (r : res (list byte)) (ck : N)      (* payload: removed element for LRemove, [] otherwise *)
| QOpen (r : res (N * N))                           (* unpack / unpack_mut: (len, capacity) *)
| QInitCopy (r : res (N * N))                       (* init on a scratch copy *)
| QVisible (r : res (N * N))                        (* number of visible elements, checksum of their bytes *)
| QBytes (r : res (N * N)).                         (* bytes_used, bytes_allocated *)

Definition unit_payload (x : list byte * outcome unit) : list byte * outcome (list byte) :=
  (fst x, match snd x with Ok _ => Ok [] | Err e => Err e | Panic => Panic end).

Definition run_op (p : params) (buf : list byte) (o : op) : list byte * outcome (list byte) :=
  match o with
  | LInit => let r := init p buf in (fst r, match snd r with Ok _ => Ok [] | Err e => Err e | Panic => Panic end)
  | LPush it => unit_payload (push p buf it)
  | LRemove i => remove p buf i
  | LSet i it => unit_payload (set_elem p buf i it)
  | LSort => unit_payload (sort p buf)
  | LSortKey => unit_payload (sort_with key4_leb p buf)
  end.

Definition run_item (p : params) (buf : list byte) (it : item) : list byte * bool :=
  match it with
  | LOp o r ck => let '(b, m) := run_op p buf o in (b, agree_known list_byte_eqb m r && (cksum b =? ck))
  | QOpen r => (buf, agree_known pair_eqb (unpack p buf) r)
  | QInitCopy r => (buf, agree_known pair_eqb (snd (init p buf)) r)
  | QVisible r =>
      (buf, agree_known pair_eqb (let? xs := visible p buf in Ok (N.of_nat (length xs), cksum (concat xs))) r)
  | QBytes r =>
      (buf, agree_known pair_eqb (let? u := bytes_used p buf in let? a := bytes_allocated p buf in Ok (u, a)) r)
  end.
Fixpoint run_items (p : params) (buf : list byte) (its : list item) : list byte * bool :=
  match its with
  | [] => (buf, true)
  | it :: its => let '(b, ok) := run_item p buf it in if ok then run_items p b its else (b, false)
  end.

Inductive case :=
| CLv (p : params) (init : list byte) (its : list item) (final_ck : N) (final_len : N)
| CSize (p : params) (n : N) (r : res N).

Definition check (c : case) : bool :=
  match c with
  | CLv p init its fck flen =>
      let '(b, ok) := run_items p init its in ok && (cksum b =? fck) && (len b =? flen)
  | CSize p n r => agree N.eqb (size_of p n) r
  end.
