(** Correspondence check for Pod integers / bool / casts (C13) and PodOption (C14). *)
From SplVerif Require Export Lib.Base Corr.Common Pod.Ints Pod.Option.
Local Open Scope N_scope.

Fixpoint chunks_ok (f : N -> list byte) (w : nat) (i : N) (n : nat) (l : list byte) : bool :=
  match n with
  | O => match l with [] => true | _ => false end
  | S n => list_byte_eqb (firstn w l) (f i) && chunks_ok f w (i + 1) n (skipn w l)
  end.

Definition pair_eqb (a b : N * N) : bool := (fst a =? fst b) && (snd a =? snd b).
Definition opt_bytes_eqb := opt_eqb list_byte_eqb.

(** PodOption instantiated at 32-byte addresses and at u64 *)
Definition get32 := get (list byte) list_byte_eqb (zeros 32).
Definition try32 := try_from_option (list byte) list_byte_eqb (zeros 32).
Definition get64 := get N N.eqb 0.
Definition try64 := try_from_option N N.eqb 0.

Inductive case :=
| CU16All (b : list byte)        (* PodU16::from(x) for x = 0..65535, concatenated *)
| CI16All (b : list byte)        (* PodI16::from(x) for x = -32768..32767 *)
| CI16Inv (b : list byte)        (* i16::from(PodI16(le bytes of i)) + 32768 as u16 LE, i = 0..65535 *)
| CBoolAll (b : list byte)       (* PodBool::from(bool::from(PodBool(i))) for i = 0..255 *)
| CU (w : N) (x : N) (bytes : list byte)
| CI (w : N) (x : Z) (bytes : list byte)
| CUsize (w : N) (n : N) (r : option (list byte))
| CToUsize (bytes : list byte) (r : res N)
| CCast (sz : N) (l : list byte) (r : res (N * N))
| CMaybe (sz : N) (l : list byte) (r : res (option (N * N)))
| CSlice (sz : N) (l : list byte) (r : res N)
| COpt32 (p : list byte) (g : option (list byte))
| CTry32 (o : option (list byte)) (r : res (list byte))
| COpt64 (p : N) (g : option N)
| CTry64 (o : option N) (r : res N)
(* a carrier whose none value is not its Default value (none is a parameter of the case) *)
| COptG (none p : N) (g : option N)
| CTryG (none : N) (o : option N) (r : res N)
| CDefG (none d : N).

Definition check (c : case) : bool :=
  match c with
  | CU16All b => chunks_ok (fun i => of_prim_u 2 i) 2 0 (N.to_nat 65536) b
  | CI16All b => chunks_ok (fun i => of_prim_i 2 (Z.of_N i - 32768)) 2 0 (N.to_nat 65536) b
  | CI16Inv b => chunks_ok (fun i => le_enc 2 (Z.to_N (to_prim_i (le_enc 2 i) + 32768))) 2 0 (N.to_nat 65536) b
  | CBoolAll b => chunks_ok (fun i => [of_bool (to_bool (b8 i))]) 1 0 (N.to_nat 256) b
  | CU w x bytes => list_byte_eqb (of_prim_u (N.to_nat w) x) bytes && (to_prim_u bytes =? x)
  | CI w x bytes => list_byte_eqb (of_prim_i (N.to_nat w) x) bytes && (to_prim_i bytes =? x)%Z
  | CUsize w n r => opt_bytes_eqb (try_from_usize (N.to_nat w) n) r
  | CToUsize bytes r => agree N.eqb (to_usize bytes) r
  | CCast sz l r => agree pair_eqb (pod_from_bytes sz l) r
  | CMaybe sz l r => agree (opt_eqb pair_eqb) (pod_maybe_from_bytes sz l) r
  | CSlice sz l r => agree N.eqb (pod_slice_from_bytes sz l) r
  | COpt32 p g => opt_bytes_eqb (get32 p) g
  | CTry32 o r => agree list_byte_eqb (try32 o) r
  | COpt64 p g => opt_eqb N.eqb (get64 p) g
  | CTry64 o r => agree N.eqb (try64 o) r
  | COptG none p g => opt_eqb N.eqb (get N N.eqb none p) g
  | CTryG none o r => agree N.eqb (try_from_option N N.eqb none o) r
  | CDefG none d => default N none =? d
  end.
