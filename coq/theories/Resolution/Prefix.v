(** Resolution can only look at the first 255 + 255 bytes of the instruction data and of each
    account's data: whatever lies beyond byte 510 -- kilobytes or gigabytes -- cannot influence
    the result (C05, "instruction data / account data of any length"). *)
From SplVerif Require Import Lib.Base Resolution.Seeds Resolution.Account.
From Coq Require Import Strings.Byte.
Local Open Scope N_scope.

Definition same_prefix (d d' : list byte) : Prop :=
  d = d' \/ exists p r1 r2, d = p ++ r1 /\ d' = p ++ r2 /\ 510 <= len p.

Definition getter_rel (g g' : getter) : Prop :=
  forall i, match g i, g' i with
            | Some (k, od), Some (k', od') =>
                k = k' /\ match od, od' with
                          | Some d, Some d' => same_prefix d d'
                          | None, None => True
                          | _, _ => False
                          end
            | None, None => True
            | _, _ => False
            end.

Lemma byte_lt (b : byte) : Byte.to_N b <= 255.
Proof. apply Byte.to_N_bounded. Qed.

Lemma slice_prefix {A} (p r : list A) a b : a <= b -> b <= len p -> slice (p ++ r) a b = slice p a b.
Proof.
  intros Hab Hb. unfold slice. rewrite len_app.
  replace ((a <=? b) && (b <=? len p + len r)) with true by lia.
  replace ((a <=? b) && (b <=? len p)) with true by lia.
  f_equal. rewrite skipn_app.
  replace (N.to_nat a - length p)%nat with 0%nat by (unfold len in *; lia). cbn [skipn].
  rewrite firstn_app.
  replace (N.to_nat (b - a) - length (skipn (N.to_nat a) p))%nat with 0%nat by (rewrite skipn_length; unfold len in *; lia).
  cbn [firstn]. apply app_nil_r.
Qed.

Lemma data_range_prefix (p r1 r2 : list byte) s l : s + l <= len p ->
  data_range (p ++ r1) s l = data_range (p ++ r2) s l.
Proof.
  intros H. unfold data_range. rewrite !len_app.
  replace (len p + len r1 <? s + l) with false by lia. replace (len p + len r2 <? s + l) with false by lia.
  rewrite !slice_prefix by lia. reflexivity.
Qed.

Lemma data_range_same d d' (i l : byte) : same_prefix d d' ->
  data_range d (Byte.to_N i) (Byte.to_N l) = data_range d' (Byte.to_N i) (Byte.to_N l).
Proof.
  intros [->|(p & r1 & r2 & -> & -> & Hp)]; [reflexivity|].
  apply data_range_prefix. pose proof (byte_lt i). pose proof (byte_lt l). lia.
Qed.
Lemma data_range_same32 d d' (i : byte) : same_prefix d d' ->
  data_range d (Byte.to_N i) 32 = data_range d' (Byte.to_N i) 32.
Proof.
  intros [->|(p & r1 & r2 & -> & -> & Hp)]; [reflexivity|].
  apply data_range_prefix. pose proof (byte_lt i). lia.
Qed.

Section P.
Variable find_pda : list (list byte) -> key -> option key.

Lemma seed_values_same seeds ix ix' g g' : same_prefix ix ix' -> getter_rel g g' ->
  seed_values seeds ix g = seed_values seeds ix' g'.
Proof.
  intros Hix Hg. induction seeds as [|s rest IH]; [reflexivity|].
  cbn [seed_values]. rewrite IH.
  destruct s as [|b|i l|i|a d l]; try reflexivity.
  - now rewrite (data_range_same ix ix' i l Hix).
  - specialize (Hg (Byte.to_N i)). destruct (g (Byte.to_N i)) as [[k od]|], (g' (Byte.to_N i)) as [[k' od']|]; try contradiction; [|reflexivity].
    destruct Hg as [-> _]. reflexivity.
  - specialize (Hg (Byte.to_N a)). destruct (g (Byte.to_N a)) as [[k od]|], (g' (Byte.to_N a)) as [[k' od']|]; try contradiction; [|reflexivity].
    destruct Hg as [_ Hd]. destruct od as [dd|], od' as [dd'|]; try contradiction; [|reflexivity].
    now rewrite (data_range_same dd dd' d l Hd).
Qed.

Theorem resolve_prefix_only e ix ix' pid g g' : same_prefix ix ix' -> getter_rel g g' ->
  resolve find_pda e ix pid g = resolve find_pda e ix' pid g'.
Proof.
  intros Hix Hg. unfold resolve.
  destruct (Byte.to_N (e_disc e) =? 0); [reflexivity|].
  destruct ((Byte.to_N (e_disc e) =? 1) || (128 <=? Byte.to_N (e_disc e))).
  - assert (Hprog : (if Byte.to_N (e_disc e) =? 1 then Ok pid
                     else match g (Byte.to_N (e_disc e) - 128) with Some (k, _) => Ok k | None => Err E_RES end) =
                    (if Byte.to_N (e_disc e) =? 1 then Ok pid
                     else match g' (Byte.to_N (e_disc e) - 128) with Some (k, _) => Ok k | None => Err E_RES end)).
    { destruct (Byte.to_N (e_disc e) =? 1); [reflexivity|].
      specialize (Hg (Byte.to_N (e_disc e) - 128)).
      destruct (g (Byte.to_N (e_disc e) - 128)) as [[k od]|], (g' (Byte.to_N (e_disc e) - 128)) as [[k' od']|]; try contradiction; [|reflexivity].
      destruct Hg as [-> _]. reflexivity. }
    rewrite Hprog.
    match goal with |- bind ?P _ = bind ?P _ => destruct P as [prog|c|] end; try reflexivity. cbn [bind].
    destruct (unpack_config (e_cfg e)) as [seeds|c|]; try reflexivity. cbn [bind].
    unfold resolve_pda. now rewrite (seed_values_same seeds ix ix' g g' Hix Hg).
  - destruct (Byte.to_N (e_disc e) =? 2); [|reflexivity].
    destruct (kd_unpack (e_cfg e)) as [kd|c|]; try reflexivity. cbn [bind].
    assert (Hk : resolve_key_data kd ix g = resolve_key_data kd ix' g').
    { destruct kd as [|i|a d]; cbn [resolve_key_data]; [reflexivity| |].
      - now apply data_range_same32.
      - specialize (Hg (Byte.to_N a)). destruct (g (Byte.to_N a)) as [[k od]|], (g' (Byte.to_N a)) as [[k' od']|]; try contradiction; [|reflexivity].
        destruct Hg as [_ Hd]. destruct od as [dd|], od' as [dd'|]; try contradiction; [|reflexivity].
        now apply data_range_same32. }
    now rewrite Hk.
Qed.
End P.
