(** Proofs about account resolution (C05-C08).  Everything is parametric in
    [find_pda]. *)
From SplVerif Require Import Lib.Base Resolution.Seeds Resolution.SeedsProofs Resolution.Account.
From Coq Require Import Permutation.
Local Open Scope N_scope.

Section Proofs.
Variable find_pda : list (list byte) -> key -> option key.
Notation resolve := (resolve find_pda).
Notation resolve_pda := (resolve_pda find_pda).

Lemma key_eqb_eq a b : key_eqb a b = true <-> a = b.
Proof. apply list_byte_eqb_eq. Qed.
Lemma key_eqb_refl a : key_eqb a a = true.
Proof. now apply key_eqb_eq. Qed.

(** * C05 *)
Lemma data_range_spec d s l :
  data_range d s l = if len d <? s + l then Err E_RES else Ok (firstn (N.to_nat l) (skipn (N.to_nat s) d)).
Proof.
  unfold data_range. destruct (len d <? s + l) eqn:E; [reflexivity|].
  unfold slice. replace ((s <=? s + l) && (s + l <=? len d)) with true by lia.
  now replace (s + l - s) with l by lia.
Qed.
Lemma data_range_no_panic d s l : data_range d s l <> Panic.
Proof. rewrite data_range_spec. destruct (_ <? _); discriminate. Qed.

Lemma seed_values_no_panic seeds ix get : seed_values seeds ix get <> Panic.
Proof.
  induction seeds as [|s rest IH]; [discriminate|]. cbn [seed_values].
  assert (H : forall (x : outcome (list (list byte))), x <> Panic ->
              (let? here := x in let? more := seed_values rest ix get in Ok (here ++ more)) <> Panic).
  { intros [h|e|] Hx; cbn [bind]; try discriminate; try contradiction.
    destruct (seed_values rest ix get); cbn [bind]; congruence. }
  apply H. destruct s as [|b|i l|i|a d l]; try discriminate.
  - pose proof (data_range_no_panic ix (Byte.to_N i) (Byte.to_N l)) as Hd.
    destruct (data_range _ _ _); cbn [bind]; congruence.
  - destruct (get (Byte.to_N i)) as [[k o]|]; discriminate.
  - destruct (get (Byte.to_N a)) as [[k [data|]]|]; try discriminate.
    pose proof (data_range_no_panic data (Byte.to_N d) (Byte.to_N l)) as Hd.
    destruct (data_range _ _ _); cbn [bind]; congruence.
Qed.

Definition flags_of (e : extra) (k : key) : meta :=
  {| m_key := k; m_signer := pod_bool (e_signer e); m_writable := pod_bool (e_writable e) |}.

Theorem resolve_no_panic e ix pid get : length (e_cfg e) = 32%nat -> resolve e ix pid get <> Panic.
Proof.
  intros Hc. unfold Account.resolve. destruct (Byte.to_N (e_disc e) =? 0); [discriminate|].
  destruct ((Byte.to_N (e_disc e) =? 1) || (128 <=? Byte.to_N (e_disc e))).
  - assert (Hp : forall (p : outcome key), p <> Panic ->
       (let? program := p in let? seeds := unpack_config (e_cfg e) in
        let? k := resolve_pda seeds ix program get in
        Ok {| m_key := k; m_signer := pod_bool (e_signer e); m_writable := pod_bool (e_writable e) |}) <> Panic).
    { intros [p|?|] Hp; cbn [bind]; try discriminate; try contradiction.
      pose proof (unpack_config_total (e_cfg e) Hc) as Hu.
      destruct (unpack_config (e_cfg e)) as [ss|?|]; cbn [bind]; try discriminate; try contradiction.
      unfold Account.resolve_pda. pose proof (seed_values_no_panic ss ix get) as Hs.
      destruct (seed_values ss ix get) as [vs|?|]; cbn [bind]; try discriminate; try contradiction.
      destruct (find_pda vs p); cbn [bind]; discriminate. }
    apply Hp. destruct (Byte.to_N (e_disc e) =? 1); [discriminate|].
    destruct (get _) as [[k o]|]; discriminate.
  - destruct (Byte.to_N (e_disc e) =? 2); [|discriminate].
    pose proof (kd_unpack_total (e_cfg e)) as Hk.
    destruct (kd_unpack (e_cfg e)) as [kd|?|]; cbn [bind]; try discriminate; try contradiction.
    assert (Hr : resolve_key_data kd ix get <> Panic).
    { destruct kd as [|i|a d]; cbn [resolve_key_data]; try discriminate.
      - apply data_range_no_panic.
      - destruct (get _) as [[k [data|]]|]; try discriminate. apply data_range_no_panic. }
    destruct (resolve_key_data kd ix get); cbn [bind]; congruence.
Qed.

(** the resolved meta always carries the configured flags *)
Theorem resolve_flags e ix pid get m : resolve e ix pid get = Ok m ->
  m_signer m = pod_bool (e_signer e) /\ m_writable m = pod_bool (e_writable e).
Proof.
  unfold Account.resolve. destruct (_ =? 0); [intros [= <-]; auto|].
  destruct (_ || _).
  - destruct (if _ =? 1 then _ else _) as [p|?|]; cbn [bind]; try discriminate.
    destruct (unpack_config _) as [ss|?|]; cbn [bind]; try discriminate.
    destruct (resolve_pda ss ix p get) as [k|?|]; cbn [bind]; try discriminate. intros [= <-]; auto.
  - destruct (_ =? 2); [|discriminate].
    destruct (kd_unpack _) as [kd|?|]; cbn [bind]; try discriminate.
    destruct (resolve_key_data kd ix get) as [k|?|]; cbn [bind]; try discriminate. intros [= <-]; auto.
Qed.

Theorem resolve_fixed e ix pid get : Byte.to_N (e_disc e) = 0 -> resolve e ix pid get = Ok (flags_of e (e_cfg e)).
Proof. intros H. unfold Account.resolve. now rewrite H. Qed.
Theorem resolve_unknown_kind e ix pid get : 3 <= Byte.to_N (e_disc e) < 128 -> exists c, resolve e ix pid get = Err c.
Proof.
  intros H. unfold Account.resolve. replace (_ =? 0) with false by lia. replace (_ =? 1) with false by lia.
  replace (128 <=? _) with false by lia. cbn [orb]. replace (_ =? 2) with false by lia. eauto.
Qed.

(** PDA configs: the canonical PDA of the materialised seeds under the executing program
    (kind 1) or under the account at index kind-128 *)
Theorem resolve_pda_kind e ix pid get program ss vs :
  (Byte.to_N (e_disc e) = 1 /\ program = pid) \/
  (128 <= Byte.to_N (e_disc e) /\ exists o, get (Byte.to_N (e_disc e) - 128) = Some (program, o)) ->
  unpack_config (e_cfg e) = Ok ss -> seed_values ss ix get = Ok vs ->
  resolve e ix pid get = match find_pda vs program with Some k => Ok (flags_of e k) | None => Err E_RES end.
Proof.
  intros Hk Hu Hs. unfold Account.resolve.
  destruct Hk as [[Hd ->]|[Hd [o Hg]]].
  - rewrite Hd. cbn [N.eqb orb bind]. change (1 =? 0) with false. change (1 =? 1) with true. cbn [orb bind].
    rewrite Hu. cbn [bind]. unfold Account.resolve_pda. rewrite Hs. cbn [bind]. destruct (find_pda vs pid); reflexivity.
  - replace (_ =? 0) with false by lia. replace (_ =? 1) with false by lia. replace (128 <=? _) with true by lia.
    cbn [orb]. rewrite Hg. cbn [bind]. rewrite Hu. cbn [bind]. unfold Account.resolve_pda. rewrite Hs. cbn [bind].
    destruct (find_pda vs program); reflexivity.
Qed.
Theorem external_program_missing e ix pid get :
  128 <= Byte.to_N (e_disc e) -> get (Byte.to_N (e_disc e) - 128) = None -> exists c, resolve e ix pid get = Err c.
Proof.
  intros Hd Hg. unfold Account.resolve. replace (_ =? 0) with false by lia. replace (_ =? 1) with false by lia.
  replace (128 <=? _) with true by lia. cbn [orb]. rewrite Hg. cbn [bind]. eauto.
Qed.

(** what each seed contributes *)
Theorem seed_values_cons s rest ix get :
  seed_values (s :: rest) ix get =
  let? here :=
    match s with
    | SUninit => Ok []
    | SLiteral b => Ok [b]
    | SIxData i l => if len ix <? Byte.to_N i + Byte.to_N l then Err E_RES
                     else Ok [firstn (N.to_nat (Byte.to_N l)) (skipn (N.to_nat (Byte.to_N i)) ix)]
    | SAcctKey i => match get (Byte.to_N i) with Some (k, _) => Ok [k] | None => Err E_RES end
    | SAcctData a d l =>
        match get (Byte.to_N a) with
        | Some (_, Some data) =>
            if len data <? Byte.to_N d + Byte.to_N l then Err E_RES
            else Ok [firstn (N.to_nat (Byte.to_N l)) (skipn (N.to_nat (Byte.to_N d)) data)]
        | _ => Err E_RES
        end
    end in
  let? more := seed_values rest ix get in Ok (here ++ more).
Proof.
  cbn [seed_values]. destruct s as [|b|i l|i|a d l]; try reflexivity.
  - rewrite data_range_spec. destruct (_ <? _); reflexivity.
  - destruct (get _) as [[k [data|]]|]; try reflexivity. rewrite data_range_spec. destruct (_ <? _); reflexivity.
Qed.

(** key-from-data configs: the 32 bytes at the indexed position *)
Theorem resolve_key_data_kind e ix pid get kd :
  Byte.to_N (e_disc e) = 2 -> kd_unpack (e_cfg e) = Ok kd ->
  resolve e ix pid get =
  match kd with
  | KUninit => Err E_RES
  | KIxData i => if len ix <? Byte.to_N i + 32 then Err E_RES
                 else Ok (flags_of e (firstn 32 (skipn (N.to_nat (Byte.to_N i)) ix)))
  | KAcctData a d =>
      match get (Byte.to_N a) with
      | Some (_, Some data) => if len data <? Byte.to_N d + 32 then Err E_RES
                               else Ok (flags_of e (firstn 32 (skipn (N.to_nat (Byte.to_N d)) data)))
      | _ => Err E_RES
      end
  end.
Proof.
  intros Hd Hk. unfold Account.resolve. rewrite Hd. change (2 =? 0) with false. change (2 =? 1) with false.
  change (128 <=? 2) with false. cbn [orb]. change (2 =? 2) with true. cbn iota. rewrite Hk. cbn [bind].
  destruct kd as [|i|a d]; cbn [resolve_key_data bind]; try reflexivity.
  - rewrite data_range_spec. destruct (_ <? _); reflexivity.
  - destruct (get _) as [[k [data|]]|]; try reflexivity. rewrite data_range_spec. destruct (_ <? _); reflexivity.
Qed.

(** constructors store exactly the information given *)
Theorem ctor_pubkey k s w ix pid get :
  resolve (new_with_pubkey k s w) ix pid get = Ok {| m_key := k; m_signer := s; m_writable := w |}.
Proof. destruct s, w; reflexivity. Qed.
Theorem ctor_seeds ss s w e : new_with_seeds ss s w = Ok e ->
  Byte.to_N (e_disc e) = 1 /\ unpack_config (e_cfg e) = Ok ss /\ length (e_cfg e) = 32%nat /\
  pod_bool (e_signer e) = s /\ pod_bool (e_writable e) = w.
Proof.
  unfold new_with_seeds. destruct (pack_config ss) as [c|?|] eqn:Ep; cbn [bind]; try discriminate. intros [= <-].
  cbn [e_disc e_cfg e_signer e_writable]. repeat split.
  - now apply unpack_pack_roundtrip.
  - now destruct (pack_unused_zero ss c Ep).
  - destruct s; reflexivity.
  - destruct w; reflexivity.
Qed.
Theorem ctor_external idx ss s w :
  (128 <= Byte.to_N idx -> exists c, new_external_pda idx ss s w = Err c) /\
  (forall e, new_external_pda idx ss s w = Ok e ->
     Byte.to_N (e_disc e) = Byte.to_N idx + 128 /\ unpack_config (e_cfg e) = Ok ss).
Proof.
  unfold new_external_pda. split.
  - intros H. replace (128 <=? _) with true by lia. eauto.
  - intros e. destruct (128 <=? Byte.to_N idx) eqn:E; [discriminate|].
    destruct (pack_config ss) as [c|?|] eqn:Ep; cbn [bind]; try discriminate. intros [= <-]. cbn [e_disc e_cfg].
    split; [rewrite to_N_b8; apply N.mod_small; lia|now apply unpack_pack_roundtrip].
Qed.

(** * C06: de-escalation *)
Definition same_key (m : meta) (ms : list meta) : list meta := filter (fun x => key_eqb (m_key x) (m_key m)) ms.

Theorem de_escalate_key m ms : m_key (de_escalate m ms) = m_key m.
Proof. reflexivity. Qed.
Theorem de_escalate_signer m ms : m_signer (de_escalate m ms) = false.
Proof. reflexivity. Qed.
Theorem de_escalate_writable m ms :
  m_writable (de_escalate m ms) = m_writable m && (match same_key m ms with [] => true | l => existsb m_writable l end).
Proof.
  unfold de_escalate, same_key. cbn [m_writable].
  destruct (filter _ ms) as [|x l]; [now rewrite andb_true_r|].
  destruct (existsb m_writable (x :: l)), (m_writable m); reflexivity.
Qed.
Theorem de_escalate_only_if_configured m ms : m_writable (de_escalate m ms) = true -> m_writable m = true.
Proof. rewrite de_escalate_writable. intros H. now apply andb_true_iff in H. Qed.
Theorem de_escalate_readonly_stays m ms :
  same_key m ms <> [] -> Forall (fun p => m_writable p = false) (same_key m ms) -> m_writable (de_escalate m ms) = false.
Proof.
  rewrite de_escalate_writable. intros Hne Hall. destruct (same_key m ms) as [|x l]; [contradiction|].
  assert (existsb m_writable (x :: l) = false).
  { apply not_true_is_false. intros H. apply existsb_exists in H as (p & Hp & Hw).
    rewrite Forall_forall in Hall. rewrite (Hall p Hp) in Hw. discriminate. }
  rewrite H. apply andb_false_r.
Qed.
Theorem de_escalate_keeps_writable m ms :
  m_writable m = true -> (same_key m ms = [] \/ Exists (fun p => m_writable p = true) (same_key m ms)) ->
  m_writable (de_escalate m ms) = true.
Proof.
  rewrite de_escalate_writable. intros -> [->|H]; [reflexivity|].
  destruct (same_key m ms) as [|x l]; [inversion H|]. cbn [andb].
  apply existsb_exists. apply Exists_exists in H as (p & Hp & Hw). eauto.
Qed.

(** what both append paths produce: one de-escalated meta per stored config, each
    de-escalated against everything before it *)
Inductive appended_ok : list extra -> list meta -> list meta -> Prop :=
| ap_nil pre : appended_ok [] pre []
| ap_cons c cfgs pre m rest :
    m_signer m = pod_bool (e_signer c) -> m_writable m = pod_bool (e_writable c) ->
    appended_ok cfgs (pre ++ [de_escalate m pre]) rest ->
    appended_ok (c :: cfgs) pre (de_escalate m pre :: rest).

Theorem offchain_appends fetch cfgs ix pid : forall kds metas out,
  offchain_loop find_pda fetch cfgs ix pid kds metas = Ok out ->
  exists app, out = metas ++ app /\ appended_ok cfgs metas app.
Proof.
  induction cfgs as [|c cfgs IH]; intros kds metas out H; cbn [offchain_loop] in H.
  - injection H as <-. exists []. split; [now rewrite app_nil_r|constructor].
  - destruct (resolve c ix pid (kd_getter kds)) as [m|?|] eqn:Er; cbn [bind] in H; try discriminate.
    destruct (fetch (m_key (de_escalate m metas))) as [d|?|]; cbn [bind] in H; try discriminate.
    destruct (IH _ _ _ H) as (app & -> & Ha). destruct (resolve_flags _ _ _ _ _ Er) as [Hs Hw].
    exists (de_escalate m metas :: app). split; [now rewrite <- app_assoc|]. now constructor.
Qed.
Theorem cpi_appends pool cfgs ix pid : forall infos metas out infos',
  cpi_loop find_pda pool cfgs ix pid infos metas = Ok (out, infos') ->
  exists app, out = metas ++ app /\ appended_ok cfgs metas app.
Proof.
  induction cfgs as [|c cfgs IH]; intros infos metas out infos' H; cbn [cpi_loop] in H.
  - injection H as <- <-. exists []. split; [now rewrite app_nil_r|constructor].
  - destruct (resolve c ix pid (info_getter infos)) as [m|?|] eqn:Er; cbn [bind] in H; try discriminate.
    destruct (find _ pool) as [inf|]; [|discriminate].
    destruct (IH _ _ _ _ H) as (app & -> & Ha). destruct (resolve_flags _ _ _ _ _ Er) as [Hs Hw].
    exists (de_escalate m metas :: app). split; [now rewrite <- app_assoc|]. now constructor.
Qed.
Theorem appended_length cfgs pre app : appended_ok cfgs pre app -> length app = length cfgs.
Proof. induction 1; cbn; auto. Qed.

(** the four implications, for the j-th appended meta against everything before it *)
Theorem appended_privileges cfgs : forall pre app, appended_ok cfgs pre app ->
  forall j c a, nth_error cfgs j = Some c -> nth_error app j = Some a ->
  let before := pre ++ firstn j app in
  m_signer a = false /\
  (m_writable a = true -> pod_bool (e_writable c) = true) /\
  (same_key a before <> [] -> Forall (fun p => m_writable p = false) (same_key a before) -> m_writable a = false) /\
  (pod_bool (e_writable c) = true -> (same_key a before = [] \/ Exists (fun p => m_writable p = true) (same_key a before)) ->
   m_writable a = true).
Proof.
  intros pre app H. induction H as [pre|c0 cfgs pre m rest Hs Hw Hrest IH]; intros j c a Hc Ha.
  - destruct j; discriminate.
  - destruct j as [|j]; cbn [nth_error firstn] in *.
    + injection Hc as <-. injection Ha as <-. rewrite app_nil_r. cbv zeta.
      assert (Hsk : same_key (de_escalate m pre) pre = same_key m pre) by reflexivity. rewrite Hsk.
      repeat split.
      * intros Hx. rewrite <- Hw. now apply (de_escalate_only_if_configured m pre).
      * apply de_escalate_readonly_stays.
      * intros Hx. apply de_escalate_keeps_writable. now rewrite Hw.
    + specialize (IH j c a Hc Ha). cbv zeta in *. rewrite <- app_assoc in IH. exact IH.
Qed.

(** * C07: the account check *)
Definition position_ok (c : extra) (ix : list byte) (pid : key) (accounts : list info) (pos : nat) : Prop :=
  exists m a, resolve c ix pid (info_getter accounts) = Ok m /\ nth_error accounts pos = Some a /\
              i_key a = m_key m /\ i_signer a = m_signer m /\ i_writable a = m_writable m.

Lemma meta_eqb_spec a m : meta_eqb (info_meta a) m = true <->
  (i_key a = m_key m /\ i_signer a = m_signer m /\ i_writable a = m_writable m).
Proof.
  unfold meta_eqb, info_meta. cbn [m_key m_signer m_writable].
  rewrite !andb_true_iff, key_eqb_eq, !Bool.eqb_true_iff. tauto.
Qed.

Lemma check_loop_iff cfgs ix pid accounts : forall pos,
  check_loop find_pda cfgs ix pid accounts pos = Ok tt <->
  (forall i c, nth_error cfgs i = Some c -> position_ok c ix pid accounts (N.to_nat pos + i)).
Proof.
  induction cfgs as [|c cfgs IH]; intros pos; cbn [check_loop].
  - split; [intros _ i c H; destruct i; discriminate|reflexivity].
  - split.
    + intros H i c' Hi.
      destruct (resolve c ix pid (info_getter accounts)) as [m|?|] eqn:Er; cbn [bind] in H; try discriminate.
      destruct (nth_error accounts (N.to_nat pos)) as [a|] eqn:Ea; [|discriminate].
      destruct (meta_eqb (info_meta a) m) eqn:Em; [|discriminate].
      destruct i as [|i]; cbn [nth_error] in Hi.
      * injection Hi as <-. exists m, a. rewrite Nat.add_0_r. apply meta_eqb_spec in Em. tauto.
      * apply (proj1 (IH (pos + 1))) with (i := i) (c := c') in H; [|exact Hi].
        replace (N.to_nat pos + S i)%nat with (N.to_nat (pos + 1) + i)%nat by lia. exact H.
    + intros H. destruct (H 0%nat c eq_refl) as (m & a & Er & Ea & Hk). rewrite Nat.add_0_r in Ea.
      rewrite Er. cbn [bind]. rewrite Ea. rewrite (proj2 (meta_eqb_spec a m) Hk).
      apply IH. intros i c' Hi. specialize (H (S i) c' Hi).
      replace (N.to_nat (pos + 1) + i)%nat with (N.to_nat pos + S i)%nat by lia. exact H.
Qed.

Theorem check_accounts_iff cfgs ix pid accounts :
  check_accounts find_pda cfgs ix pid accounts = Ok tt <->
  ((length cfgs <= length accounts)%nat /\
   forall i c, nth_error cfgs i = Some c -> position_ok c ix pid accounts (length accounts - length cfgs + i)).
Proof.
  unfold check_accounts. destruct (len accounts <? len cfgs) eqn:E.
  - split; [discriminate|]. intros [H _]. unfold len in E. lia.
  - rewrite check_loop_iff. unfold len in *.
    replace (N.to_nat (N.of_nat (length accounts) - N.of_nat (length cfgs))) with (length accounts - length cfgs)%nat by lia.
    split; [intros H; split; [lia|exact H]|tauto].
Qed.

Lemma check_loop_no_panic cfgs ix pid accounts : Forall (fun c => length (e_cfg c) = 32%nat) cfgs ->
  forall pos, check_loop find_pda cfgs ix pid accounts pos <> Panic.
Proof.
  induction 1 as [|c cfgs Hc Hcs IH]; intros pos; cbn [check_loop]; [discriminate|].
  pose proof (resolve_no_panic c ix pid (info_getter accounts) Hc) as Hr.
  destruct (resolve c ix pid (info_getter accounts)) as [m|?|]; cbn [bind]; try discriminate; try contradiction.
  destruct (nth_error accounts (N.to_nat pos)) as [a|]; [|discriminate].
  destruct (meta_eqb _ _); [apply IH|discriminate].
Qed.
Theorem check_accounts_total cfgs ix pid accounts :
  Forall (fun c => length (e_cfg c) = 32%nat) cfgs -> check_accounts find_pda cfgs ix pid accounts <> Panic.
Proof. intros H. unfold check_accounts. destruct (_ <? _); [discriminate|]. now apply check_loop_no_panic. Qed.

(** * C08: the two paths agree *)
Definition kd_of (infos : list info) : list (key * option (list byte)) := map (fun i => (i_key i, Some (i_data i))) infos.
Lemma getters_agree infos i : kd_getter (kd_of infos) i = info_getter infos i.
Proof.
  unfold kd_getter, info_getter, kd_of. rewrite nth_error_map. destruct (nth_error infos (N.to_nat i)); reflexivity.
Qed.
Lemma resolve_ext e ix pid g1 g2 : (forall i, g1 i = g2 i) -> resolve e ix pid g1 = resolve e ix pid g2.
Proof.
  intros H. unfold Account.resolve.
  assert (Hs : forall ss, seed_values ss ix g1 = seed_values ss ix g2).
  { induction ss as [|s ss IH]; [reflexivity|]. cbn [seed_values]. rewrite IH. destruct s; rewrite ?H; reflexivity. }
  assert (Hk : forall kd, resolve_key_data kd ix g1 = resolve_key_data kd ix g2).
  { intros [|i|a d]; cbn [resolve_key_data]; rewrite ?H; reflexivity. }
  rewrite H. unfold Account.resolve_pda.
  destruct (_ =? 0); [reflexivity|]. destruct (_ || _).
  - destruct (if _ =? 1 then _ else _); cbn [bind]; try reflexivity.
    destruct (unpack_config _); cbn [bind]; try reflexivity. now rewrite Hs.
  - destruct (_ =? 2); [|reflexivity]. destruct (kd_unpack _); cbn [bind]; try reflexivity. now rewrite Hk.
Qed.

(** the fetcher returns the data the pool's infos hold, and fails for keys outside the pool *)
Definition fetch_matches (fetch : fetcher) (pool : list info) : Prop :=
  forall k, match find (fun x => key_eqb (i_key x) k) pool with
            | Some inf => fetch k = Ok (Some (i_data inf))
            | None => exists e, fetch k = Err e
            end.

Theorem paths_agree fetch pool cfgs ix pid : fetch_matches fetch pool ->
  forall infos metas,
  match cpi_loop find_pda pool cfgs ix pid infos metas with
  | Ok (ms, infos') =>
      offchain_loop find_pda fetch cfgs ix pid (kd_of infos) metas = Ok ms /\
      exists added, infos' = infos ++ added /\ map i_key added = map m_key (skipn (length metas) ms) /\
                    length added = length cfgs
  | Err _ => exists e, offchain_loop find_pda fetch cfgs ix pid (kd_of infos) metas = Err e
  | Panic => offchain_loop find_pda fetch cfgs ix pid (kd_of infos) metas = Panic
  end.
Proof.
  intros Hf. induction cfgs as [|c cfgs IH]; intros infos metas; cbn [cpi_loop offchain_loop].
  - split; [reflexivity|]. exists []. rewrite app_nil_r, skipn_all. repeat split; reflexivity.
  - rewrite (resolve_ext c ix pid _ _ (getters_agree infos)).
    destruct (resolve c ix pid (info_getter infos)) as [m|e|]; cbn [bind]; [|eauto|reflexivity].
    set (m' := de_escalate m metas). specialize (Hf (m_key m')).
    destruct (find (fun x => key_eqb (i_key x) (m_key m')) pool) as [inf|] eqn:Efind.
    + rewrite Hf. cbn [bind].
      apply find_some in Efind as [_ Hk]. apply key_eqb_eq in Hk.
      assert (Hkd : kd_of infos ++ [(m_key m', Some (i_data inf))] = kd_of (infos ++ [inf])).
      { unfold kd_of. rewrite map_app. cbn [map]. now rewrite Hk. }
      rewrite Hkd. specialize (IH (infos ++ [inf]) (metas ++ [m'])).
      destruct (cpi_loop find_pda pool cfgs ix pid (infos ++ [inf]) (metas ++ [m'])) as [[ms infos']|e|]; [|exact IH|exact IH].
      destruct IH as (Hoff & added & -> & Hkeys & Hlen). split; [exact Hoff|].
      exists (inf :: added). rewrite <- app_assoc. split; [reflexivity|]. split; [|cbn; lia].
      destruct (offchain_appends _ _ _ _ _ _ _ Hoff) as (apx & -> & _).
      rewrite app_length in Hkeys. cbn [length] in Hkeys.
      rewrite <- app_assoc in *. rewrite skipn_app_r in Hkeys by lia.
      rewrite skipn_app_r by lia. replace (length metas - length metas)%nat with 0%nat by lia.
      replace (length metas + 1 - length metas)%nat with 1%nat in Hkeys by lia. cbn [app skipn map] in *.
      now rewrite Hk, Hkeys.
    + destruct Hf as [e ->]. cbn [bind]. eauto.
Qed.

(** the initial fetches succeed when the initial infos mirror the metas and come from the pool *)
Theorem fetch_all_mirrors fetch infos metas :
  Forall2 (fun m i => m_key m = i_key i /\ fetch (i_key i) = Ok (Some (i_data i))) metas infos ->
  fetch_all fetch metas = Ok (kd_of infos).
Proof.
  induction 1 as [|m i metas infos [Hk Hf] _ IH]; [reflexivity|]. cbn [fetch_all kd_of map].
  rewrite Hk, Hf. cbn [bind]. fold (kd_of infos). rewrite IH. reflexivity.
Qed.

Theorem c08_agree fetch pool cfgs ix pid infos metas :
  fetch_matches fetch pool ->
  Forall2 (fun m i => m_key m = i_key i /\ fetch (i_key i) = Ok (Some (i_data i))) metas infos ->
  match cpi_loop find_pda pool cfgs ix pid infos metas with
  | Ok (ms, infos') =>
      add_offchain find_pda fetch cfgs ix pid metas = Ok ms /\
      (exists app, ms = metas ++ app /\ length app = length cfgs) /\
      exists added, infos' = infos ++ added /\ map i_key added = map m_key (skipn (length metas) ms)
  | Err _ => exists e, add_offchain find_pda fetch cfgs ix pid metas = Err e
  | Panic => add_offchain find_pda fetch cfgs ix pid metas = Panic
  end.
Proof.
  intros Hf Hm. unfold add_offchain. rewrite (fetch_all_mirrors fetch infos metas Hm). cbn [bind].
  pose proof (paths_agree fetch pool cfgs ix pid Hf infos metas) as H.
  destruct (cpi_loop find_pda pool cfgs ix pid infos metas) as [[ms infos']|e|] eqn:Ec; [|exact H|exact H].
  destruct H as (Hoff & added & -> & Hk & Hl). split; [exact Hoff|]. split.
  - destruct (cpi_appends _ _ _ _ _ _ _ _ Ec) as (app & -> & Ha). exists app. split; [reflexivity|].
    now apply appended_length in Ha.
  - eauto.
Qed.

(** the order of the pool does not matter as long as every key finds the same data *)
Definition pools_equiv (p1 p2 : list info) : Prop :=
  forall k, option_map (fun i => (i_key i, i_data i)) (find (fun x => key_eqb (i_key x) k) p1) =
            option_map (fun i => (i_key i, i_data i)) (find (fun x => key_eqb (i_key x) k) p2).

Theorem pool_order_irrelevant p1 p2 cfgs ix pid : pools_equiv p1 p2 ->
  forall infos1 infos2 metas, kd_of infos1 = kd_of infos2 ->
  match cpi_loop find_pda p1 cfgs ix pid infos1 metas, cpi_loop find_pda p2 cfgs ix pid infos2 metas with
  | Ok (ms1, i1), Ok (ms2, i2) => ms1 = ms2 /\ kd_of i1 = kd_of i2
  | Err _, Err _ => True
  | Panic, Panic => True
  | _, _ => False
  end.
Proof.
  intros Hp. induction cfgs as [|c cfgs IH]; intros infos1 infos2 metas Hkd; cbn [cpi_loop]; [auto|].
  assert (Hg : forall i, info_getter infos1 i = info_getter infos2 i).
  { intros i. rewrite <- !getters_agree. now rewrite Hkd. }
  rewrite (resolve_ext c ix pid _ _ Hg).
  destruct (resolve c ix pid (info_getter infos2)) as [m|e|]; cbn [bind]; auto.
  specialize (Hp (m_key (de_escalate m metas))).
  destruct (find _ p1) as [a|], (find _ p2) as [b|]; cbn [option_map] in Hp; try discriminate; auto.
  apply IH. unfold kd_of in *. rewrite !map_app, Hkd. cbn [map]. injection Hp as -> ->. reflexivity.
Qed.
End Proofs.

(** a pool with one info per key: any permutation finds the same info for every key *)
Definition distinct_keys (pool : list info) : Prop := NoDup (map i_key pool).

Lemma find_in_distinct pool k x : distinct_keys pool -> In x pool -> i_key x = k ->
  find (fun y => key_eqb (i_key y) k) pool = Some x.
Proof.
  induction pool as [|y pool IH]; intros Hd Hin Hk; [inversion Hin|].
  cbn [find]. unfold distinct_keys in Hd. cbn [map] in Hd. inversion Hd as [|? ? Hny Hd']; subst.
  destruct Hin as [->|Hin].
  - now rewrite key_eqb_refl.
  - destruct (key_eqb (i_key y) (i_key x)) eqn:E.
    + apply key_eqb_eq in E. exfalso. apply Hny. rewrite E. now apply in_map.
    + now apply IH.
Qed.
Lemma find_none_perm pool pool' k : Permutation pool pool' ->
  find (fun y => key_eqb (i_key y) k) pool = None -> find (fun y => key_eqb (i_key y) k) pool' = None.
Proof.
  intros Hp Hn. destruct (find _ pool') as [x|] eqn:E; [|reflexivity].
  apply find_some in E as [Hin Hk]. apply Permutation_sym in Hp.
  pose proof (Permutation_in _ Hp Hin) as Hin'.
  pose proof (find_none _ _ Hn _ Hin') as Hc. cbv beta in Hc. congruence.
Qed.
Theorem permuted_pool_equiv pool pool' :
  distinct_keys pool -> Permutation pool pool' -> pools_equiv pool pool'.
Proof.
  intros Hd Hp k. unfold pools_equiv.
  assert (Hd' : distinct_keys pool').
  { unfold distinct_keys in *. eapply Permutation_NoDup; [|exact Hd]. now apply Permutation_map. }
  destruct (find (fun x => key_eqb (i_key x) k) pool) as [x|] eqn:E.
  - apply find_some in E as [Hin Hk]. apply key_eqb_eq in Hk.
    rewrite (find_in_distinct pool' k x Hd' (Permutation_in _ Hp Hin) Hk). reflexivity.
  - now rewrite (find_none_perm pool pool' k Hp E).
Qed.

(** C07: consequences of the iff — single mutations of an accepted list *)
Section Mut.
Variable find_pda : list (list byte) -> key -> option key.

Theorem check_rejects_missing_account cfgs ix pid accounts :
  cfgs <> [] -> check_accounts find_pda cfgs ix pid accounts = Ok tt ->
  forall shorter, (length shorter < length cfgs)%nat -> check_accounts find_pda cfgs ix pid shorter <> Ok tt.
Proof.
  intros _ _ shorter Hs E. apply check_accounts_iff in E. lia.
Qed.

(** flipping a flag (or changing the key) of the trailing account at a config's position,
    while that config still resolves to the same meta, is rejected *)
Theorem check_rejects_changed_triple cfgs ix pid accounts i c m a :
  (length cfgs <= length accounts)%nat -> nth_error cfgs i = Some c ->
  resolve find_pda c ix pid (info_getter accounts) = Ok m ->
  nth_error accounts (length accounts - length cfgs + i) = Some a ->
  (i_key a <> m_key m \/ i_signer a <> m_signer m \/ i_writable a <> m_writable m) ->
  check_accounts find_pda cfgs ix pid accounts <> Ok tt.
Proof.
  intros Hl Hc Hr Ha Hne E. apply check_accounts_iff in E as [_ E].
  destruct (E i c Hc) as (m' & a' & Hr' & Ha' & Hk & Hs & Hw).
  rewrite Hr in Hr'. injection Hr' as <-. rewrite Ha in Ha'. injection Ha' as <-. tauto.
Qed.
End Mut.

(** C05: a config built from a seed list resolves to the PDA of exactly those seeds *)
Theorem ctor_seeds_resolves find_pda ss s w e ix pid get vs :
  new_with_seeds ss s w = Ok e -> seed_values ss ix get = Ok vs ->
  resolve find_pda e ix pid get =
  match find_pda vs pid with Some k => Ok {| m_key := k; m_signer := s; m_writable := w |} | None => Err E_RES end.
Proof.
  intros Hc Hs. destruct (ctor_seeds ss s w e Hc) as (Hd & Hu & _ & Hsg & Hwr).
  rewrite (resolve_pda_kind find_pda e ix pid get pid ss vs (or_introl (conj Hd eq_refl)) Hu Hs).
  unfold flags_of. now rewrite Hsg, Hwr.
Qed.
