(** Proofs about the seed / key-data codecs (C11). *)
From SplVerif Require Import Lib.Base Resolution.Seeds.
Local Open Scope N_scope.

(** independent specification: canonical encoding of one seed and of a list *)
Definition enc_seed (s : seed) : list byte :=
  match s with
  | SUninit => []
  | SLiteral b => x01 :: b8 (len b) :: b
  | SIxData i l => [x02; i; l]
  | SAcctKey i => [x03; i]
  | SAcctData a d l => [x04; a; d; l]
  end.
Definition enc_seeds (ss : list seed) : list byte := concat (map enc_seed ss).
Definition total_size (ss : list seed) : N := fold_right (fun s acc => packed_size s + acc) 0 ss.
Definition initialised (s : seed) : bool := negb (seed_is_uninit s).
Definition all_init (ss : list seed) : bool := forallb initialised ss.

Lemma len_cons {A} (x : A) l : len (x :: l) = 1 + len l.
Proof. unfold len. cbn [length]. lia. Qed.
Lemma len_nil {A} : len (@nil A) = 0. Proof. reflexivity. Qed.

Lemma enc_seed_len s : initialised s = true -> len (enc_seed s) = packed_size s.
Proof. destruct s; cbn [enc_seed packed_size]; rewrite ?len_cons, ?len_nil; intros; try lia; try discriminate. Qed.
Lemma enc_seeds_len ss : all_init ss = true -> len (enc_seeds ss) = total_size ss.
Proof.
  induction ss as [|s ss IH]; [reflexivity|]. cbn [all_init forallb enc_seeds map concat total_size fold_right].
  rewrite andb_true_iff. intros [Hs Hss]. rewrite len_app, enc_seed_len by assumption.
  fold (enc_seeds ss). fold (total_size ss). fold (all_init ss) in Hss. rewrite IH by assumption. reflexivity.
Qed.
Lemma tlv_size_le s : tlv_size s <= packed_size s.
Proof. destruct s; cbn [tlv_size packed_size]; lia. Qed.
Lemma tlv_size_small s : tlv_size s <= 32 -> tlv_size s = packed_size s.
Proof. destruct s; cbn [tlv_size packed_size]; lia. Qed.
Lemma tlv_size_big s : 32 < tlv_size s -> 32 < packed_size s.
Proof. pose proof (tlv_size_le s). lia. Qed.

(** slicing a zero tail *)
Lemma slice_zeros_tail (P : list byte) k a b :
  a = len P -> a <= b -> b <= len P + N.of_nat k ->
  slice (P ++ zeros k) a b = Some (zeros (N.to_nat (b - a))).
Proof.
  intros -> Hab Hb.
  replace k with (N.to_nat (b - len P) + (k - N.to_nat (b - len P)))%nat by lia.
  rewrite zeros_app. apply slice_app; [reflexivity|]. rewrite len_zeros. lia.
Qed.
Lemma write_zeros_tail (P d : list byte) k a :
  a = len P -> len d <= N.of_nat k ->
  write_at (P ++ zeros k) a d = Some ((P ++ d) ++ zeros (k - length d)).
Proof.
  intros -> Hd. unfold len in Hd.
  replace k with (length d + (k - length d))%nat at 1 by lia.
  rewrite zeros_app, <- app_assoc. apply write_at_app; [reflexivity|]. now rewrite zeros_length.
Qed.

(** one seed packs into an all-zero (indeed any) destination of its size *)
Lemma pack_seed_ok s dst :
  len dst = tlv_size s -> tlv_size s <= 32 -> initialised s = true -> pack_seed s dst = Ok (enc_seed s).
Proof.
  intros HL H32 Hi. unfold pack_seed. rewrite HL, N.eqb_refl. cbn [negb].
  replace (32 <? tlv_size s) with false by lia.
  destruct s; cbn [tlv_size enc_seed] in *; try discriminate; try (replace (_ <=? _) with true by lia; reflexivity).
  replace ((2 <=? _) && (_ =? _)) with true by lia. reflexivity.
Qed.
Lemma pack_seed_uninit dst : len dst = 0 -> pack_seed SUninit dst = Err 3.
Proof. intros HL. unfold pack_seed. rewrite HL. reflexivity. Qed.

(** characterisation of the packing loop from any prefix *)
Lemma pack_loop_spec ss : forall (P : list byte) i,
  i = len P -> i <= 32 ->
  match pack_loop ss (P ++ zeros (N.to_nat (32 - i))) i with
  | Ok b => all_init ss = true /\ i + total_size ss <= 32 /\
            b = P ++ enc_seeds ss ++ zeros (N.to_nat (32 - i - total_size ss))
  | Err _ => ~ (all_init ss = true /\ i + total_size ss <= 32)
  | Panic => False
  end.
Proof.
  induction ss as [|s ss IH]; intros P i Hi Hi32.
  - cbn [pack_loop all_init forallb total_size fold_right enc_seeds map concat app].
    repeat split; try lia. now rewrite N.sub_0_r.
  - cbn [pack_loop]. cbn [all_init forallb total_size fold_right]. fold (total_size ss). fold (all_init ss).
    destruct (32 <? i + tlv_size s) eqn:E32.
    { pose proof (tlv_size_le s). intros [_ Hc]. lia. }
    rewrite (slice_zeros_tail P _ i (i + tlv_size s)) by lia.
    replace (i + tlv_size s - i) with (tlv_size s) by lia.
    destruct (initialised s) eqn:Einit.
    2:{ destruct s; try discriminate. rewrite pack_seed_uninit by (rewrite len_zeros; cbn; lia).
        cbn [bind]. intros [H _]. discriminate. }
    rewrite pack_seed_ok by (rewrite ?len_zeros; lia || assumption). cbn [bind].
    assert (Hsz : tlv_size s = packed_size s) by (apply tlv_size_small; lia).
    assert (Hel : len (enc_seed s) = packed_size s) by now apply enc_seed_len.
    rewrite write_zeros_tail by lia.
    specialize (IH (P ++ enc_seed s) (i + tlv_size s)).
    replace (N.to_nat (32 - i) - length (enc_seed s))%nat with (N.to_nat (32 - (i + tlv_size s))) by (unfold len in Hel; lia).
    rewrite len_app in IH. specialize (IH ltac:(lia) ltac:(lia)).
    destruct (pack_loop ss _ _) as [b|e|]; [|intros [H1 H2]; apply IH; split; [exact H1|lia]|exact IH].
    destruct IH as (Ha & Ht & ->). cbn [andb]. repeat split; [assumption|lia|].
    cbn [enc_seeds map concat]. fold (enc_seeds ss).
    replace (32 - (i + tlv_size s) - total_size ss) with (32 - i - (packed_size s + total_size ss)) by lia.
    now rewrite <- !app_assoc.
Qed.

Theorem pack_config_spec ss :
  match pack_config ss with
  | Ok b => all_init ss = true /\ total_size ss <= 32 /\
            b = enc_seeds ss ++ zeros (N.to_nat (32 - total_size ss))
  | Err _ => ~ (all_init ss = true /\ total_size ss <= 32)
  | Panic => False
  end.
Proof.
  pose proof (pack_loop_spec ss [] 0 eq_refl ltac:(lia)) as H. cbn [app] in H.
  unfold pack_config. change (N.to_nat (32 - 0)) with 32%nat in H.
  destruct (pack_loop ss (zeros 32) 0); rewrite ?N.add_0_l, ?N.sub_0_r in H; exact H.
Qed.

Theorem pack_config_iff ss :
  (exists b, pack_config ss = Ok b) <-> (all_init ss = true /\ total_size ss <= 32).
Proof.
  pose proof (pack_config_spec ss) as H. destruct (pack_config ss) as [b|e|].
  - split; [intros _; tauto | intros _; eauto].
  - split; [intros [b Hb]; discriminate | intros Hc; contradiction].
  - contradiction.
Qed.
Theorem pack_config_no_panic ss : pack_config ss <> Panic.
Proof. pose proof (pack_config_spec ss) as H. destruct (pack_config ss); congruence || contradiction. Qed.
Theorem pack_config_err ss :
  ~ (all_init ss = true /\ total_size ss <= 32) -> exists e, pack_config ss = Err e.
Proof.
  pose proof (pack_config_spec ss) as H. destruct (pack_config ss) as [b|e|]; intros Hn.
  - exfalso. apply Hn. tauto.
  - eauto.
  - contradiction.
Qed.

(** * Unpacking *)
Lemma unpack_enc_seed s rest :
  initialised s = true -> len (enc_seed s) <= 257 -> packed_size s <= 257 ->
  match s with SLiteral b => len b < 256 | _ => True end ->
  unpack_seed (enc_seed s ++ rest) = Ok s.
Proof.
  destruct s as [|b|i l|i|a d l]; cbn [enc_seed app unpack_seed]; intros Hi _ _ Hb; try discriminate; try reflexivity.
  cbn [Byte.to_N]. rewrite to_N_b8, N.mod_small by lia.
  rewrite len_app. replace (_ <? _) with false by lia.
  unfold len. rewrite Nnat.Nat2N.id, firstn_exact. reflexivity.
Qed.

Lemma unpack_loop_enc fuel ss : forall (P : list byte) Z i,
  all_init ss = true -> i = len P -> len (P ++ enc_seeds ss ++ Z) = 32 ->
  Z = zeros (length Z) ->
  (2 * length ss < fuel)%nat ->
  unpack_loop fuel (P ++ enc_seeds ss ++ Z) i = Ok ss.
Proof.
  revert fuel. induction ss as [|s ss IH]; intros fuel P Z i Hinit Hi HL HZ Hf.
  - destruct fuel; [lia|]. cbn [unpack_loop enc_seeds map concat app] in *.
    destruct (i <? 32) eqn:E; [|reflexivity].
    unfold slice_from. rewrite HL. replace (i <=? 32) with true by lia.
    subst i. unfold len. rewrite Nnat.Nat2N.id, skipn_exact.
    rewrite len_app in HL. destruct Z as [|z Z]; [unfold len in *; cbn in *; lia|].
    rewrite HZ. cbn. reflexivity.
  - destruct fuel; [cbn in Hf; lia|]. cbn [all_init forallb] in Hinit. apply andb_true_iff in Hinit as [Hs Hss].
    cbn [enc_seeds map concat] in *. fold (enc_seeds ss) in *. cbn [unpack_loop].
    assert (Hes : len (enc_seed s) = packed_size s) by now apply enc_seed_len.
    assert (Hps : 2 <= packed_size s) by (destruct s; cbn in *; try discriminate; lia).
    rewrite !len_app in HL.
    replace (i <? 32) with true by lia.
    unfold slice_from. rewrite !len_app. replace (i <=? _) with true by lia.
    subst i. unfold len at 1. rewrite Nnat.Nat2N.id, skipn_exact, <- app_assoc.
    rewrite unpack_enc_seed; try assumption; try lia.
    2:{ destruct s; auto. cbn [enc_seed] in HL. rewrite !len_cons in HL. lia. }
    cbn [bind]. unfold initialised in Hs. apply negb_true_iff in Hs. rewrite Hs.
    assert (Hts : tlv_size s = packed_size s) by (apply tlv_size_small; pose proof (tlv_size_le s); lia).
    rewrite Hts, <- Hes. rewrite (app_assoc P (enc_seed s)).
    rewrite IH; try assumption; [reflexivity| now rewrite len_app | rewrite !len_app; lia | cbn in Hf; lia].
Qed.

Theorem unpack_pack_roundtrip ss b :
  pack_config ss = Ok b -> unpack_config b = Ok ss.
Proof.
  intros Hp. pose proof (pack_config_spec ss) as H. rewrite Hp in H. destruct H as (Hi & Ht & ->).
  unfold unpack_config.
  assert (Hlen : len (enc_seeds ss) = total_size ss) by now apply enc_seeds_len.
  apply (unpack_loop_enc 33 ss [] (zeros (N.to_nat (32 - total_size ss))) 0); try assumption; try reflexivity.
  - cbn [app]. rewrite len_app, len_zeros. lia.
  - now rewrite zeros_length.
  - (* every initialised seed takes at least 2 bytes *)
    assert (Hc : forall l, all_init l = true -> 2 * N.of_nat (length l) <= total_size l).
    { induction l as [|s l IHl]; [cbn; lia|]. cbn [all_init forallb length total_size fold_right].
      rewrite andb_true_iff. intros [Hs Hl]. fold (total_size l). specialize (IHl Hl).
      assert (2 <= packed_size s) by (destruct s; cbn in *; try discriminate; lia). lia. }
    specialize (Hc ss Hi). lia.
Qed.

Theorem pack_unused_zero ss b :
  pack_config ss = Ok b -> skipn (N.to_nat (total_size ss)) b = zeros (N.to_nat (32 - total_size ss))
                           /\ length b = 32%nat.
Proof.
  intros Hp. pose proof (pack_config_spec ss) as H. rewrite Hp in H. destruct H as (Hi & Ht & ->).
  pose proof (enc_seeds_len ss Hi) as HL. unfold len in HL. split.
  - apply skipn_exact'. lia.
  - rewrite app_length, zeros_length. lia.
Qed.

(** unpacking is total on 32-byte arrays *)
Lemma unpack_seed_no_panic b : unpack_seed b <> Panic.
Proof.
  unfold unpack_seed. destruct b as [|d rest]; [discriminate|]. cbv zeta.
  repeat (destruct (_ =? _); [try discriminate|]); try discriminate.
  all: destruct rest as [|x [|y [|z r]]]; try discriminate.
  all: try (destruct (_ <? _); discriminate).
Qed.

(** what one successful [unpack_seed] consumed *)
Lemma byte_is k d : Byte.to_N d = k -> d = b8 k.
Proof. intros <-. now rewrite b8_to_N. Qed.
Lemma unpack_seed_consumed tl s :
  unpack_seed tl = Ok s -> initialised s = true ->
  firstn (N.to_nat (packed_size s)) tl = enc_seed s /\ packed_size s <= len tl /\ tlv_size s = N.min 255 (packed_size s).
Proof.
  unfold unpack_seed. destruct tl as [|d rest]; [discriminate|]. cbv zeta.
  destruct (Byte.to_N d =? 0) eqn:E0; [intros [= <-]; discriminate|].
  destruct (Byte.to_N d =? 1) eqn:E1.
  { apply N.eqb_eq, byte_is in E1. subst d. destruct rest as [|l r]; try discriminate.
    destruct (len r <? Byte.to_N l) eqn:El; [discriminate|]. intros [= <-] _.
    pose proof (Byte.to_N_bounded l) as Hl.
    assert (Hfl : len (firstn (N.to_nat (Byte.to_N l)) r) = Byte.to_N l).
    { unfold len in *. rewrite firstn_length. lia. }
    cbn [packed_size enc_seed tlv_size]. rewrite !len_cons, Hfl. repeat split; try lia.
    replace (N.to_nat (2 + Byte.to_N l)) with (S (S (N.to_nat (Byte.to_N l)))) by lia.
    cbn [firstn]. rewrite b8_to_N. reflexivity. }
  destruct (Byte.to_N d =? 2) eqn:E2.
  { apply N.eqb_eq, byte_is in E2. subst d. destruct rest as [|i [|l r]]; try discriminate. intros [= <-] _.
    cbn [packed_size enc_seed tlv_size]. rewrite !len_cons. repeat split; try lia. }
  destruct (Byte.to_N d =? 3) eqn:E3.
  { apply N.eqb_eq, byte_is in E3. subst d. destruct rest as [|i r]; try discriminate. intros [= <-] _.
    cbn [packed_size enc_seed tlv_size]. rewrite !len_cons. repeat split; try lia. }
  destruct (Byte.to_N d =? 4) eqn:E4; [|discriminate].
  apply N.eqb_eq, byte_is in E4. subst d. destruct rest as [|a [|dd [|l r]]]; try discriminate. intros [= <-] _.
  cbn [packed_size enc_seed tlv_size]. rewrite !len_cons. repeat split; try lia.
Qed.

Lemma unpack_loop_no_panic fuel cfg : forall i,
  len cfg = 32 -> (N.to_nat (32 - i) < fuel)%nat -> unpack_loop fuel cfg i <> Panic.
Proof.
  induction fuel as [|fuel IH]; intros i HL Hf; [lia|]. cbn [unpack_loop].
  destruct (i <? 32) eqn:E; [|discriminate].
  unfold slice_from. rewrite HL. replace (i <=? 32) with true by lia.
  pose proof (unpack_seed_no_panic (skipn (N.to_nat i) cfg)) as Hnp.
  destruct (unpack_seed _) as [s|e|] eqn:Eu; cbn [bind]; try discriminate; try contradiction.
  destruct (seed_is_uninit s) eqn:Es; [discriminate|].
  assert (Hi : initialised s = true) by (unfold initialised; now rewrite Es).
  destruct (unpack_seed_consumed _ _ Eu Hi) as (_ & Hle & Hts).
  assert (2 <= packed_size s) by (destruct s; cbn in *; try discriminate; lia).
  specialize (IH (i + tlv_size s) HL ltac:(lia)).
  destruct (unpack_loop fuel cfg _); cbn [bind]; congruence.
Qed.
Theorem unpack_config_total cfg : length cfg = 32%nat -> unpack_config cfg <> Panic.
Proof. intros HL. apply unpack_loop_no_panic; unfold len; cbn; lia. Qed.

(** what a successful unpack consumed is the canonical encoding of its result *)
Lemma unpack_loop_consumed fuel cfg : forall i ss,
  len cfg = 32 -> i <= 32 -> unpack_loop fuel cfg i = Ok ss ->
  all_init ss = true /\ i + total_size ss <= 32 /\
  firstn (N.to_nat (total_size ss)) (skipn (N.to_nat i) cfg) = enc_seeds ss.
Proof.
  induction fuel as [|fuel IH]; intros i ss HL Hi H; [discriminate|]. cbn [unpack_loop] in H.
  destruct (i <? 32) eqn:E.
  2:{ injection H as <-. cbn. repeat split; lia. }
  unfold slice_from in H. rewrite HL in H. replace (i <=? 32) with true in H by lia.
  destruct (unpack_seed _) as [s|e|] eqn:Eu; cbn [bind] in H; try discriminate.
  destruct (seed_is_uninit s) eqn:Es.
  { injection H as <-. cbn. repeat split; lia. }
  assert (Hin : initialised s = true) by (unfold initialised; now rewrite Es).
  destruct (unpack_seed_consumed _ _ Eu Hin) as (Hf & Hle & Hts).
  assert (Hlen_sk : len (skipn (N.to_nat i) cfg) = 32 - i) by (unfold len in *; rewrite skipn_length; lia).
  rewrite Hlen_sk in Hle.
  assert (Hts' : tlv_size s = packed_size s) by lia.
  destruct (unpack_loop fuel cfg (i + tlv_size s)) as [rest|e|] eqn:Er; cbn [bind] in H; try discriminate.
  injection H as <-.
  assert (Hi2 : i + tlv_size s <= 32) by lia.
  destruct (IH _ _ HL Hi2 Er) as (Ha & Ht & Hfr).
  cbn [all_init forallb total_size fold_right enc_seeds map concat]. fold (total_size rest). fold (enc_seeds rest). fold (all_init rest).
  rewrite Hin, Ha. repeat split; [lia|].
  rewrite <- Hf, <- Hfr. rewrite Hts'.
  replace (N.to_nat (packed_size s + total_size rest)) with (N.to_nat (packed_size s) + N.to_nat (total_size rest))%nat by lia.
  replace (N.to_nat (i + packed_size s)) with (N.to_nat (packed_size s) + N.to_nat i)%nat by lia.
  rewrite firstn_add, skipn_add. reflexivity.
Qed.

Theorem repack_canonical cfg ss :
  length cfg = 32%nat -> unpack_config cfg = Ok ss ->
  total_size ss <= 32 /\
  pack_config ss = Ok (firstn (N.to_nat (total_size ss)) cfg ++ zeros (N.to_nat (32 - total_size ss))).
Proof.
  intros HL Hu. unfold unpack_config in Hu.
  destruct (unpack_loop_consumed 33 cfg 0 ss ltac:(unfold len; lia) ltac:(lia) Hu) as (Ha & Ht & Hf).
  change (N.to_nat 0) with 0%nat in Hf. cbn [skipn] in Hf. split; [lia|].
  pose proof (pack_config_spec ss) as H. destruct (pack_config ss) as [b|e|].
  - destruct H as (_ & _ & ->). now rewrite Hf.
  - exfalso. apply H. split; [assumption|lia].
  - contradiction.
Qed.

(** * Key-data configs *)
Definition enc_kd (k : keydata) : list byte :=
  match k with KUninit => [] | KIxData i => [x01; i] | KAcctData a d => [x02; a; d] end.

Theorem kd_pack_spec k :
  kd_pack_config k = match k with KUninit => Err 5 | _ => Ok (enc_kd k ++ zeros (32 - length (enc_kd k))) end.
Proof. destruct k; reflexivity. Qed.
Theorem kd_roundtrip k b : kd_pack_config k = Ok b -> kd_unpack b = Ok k.
Proof. rewrite kd_pack_spec. destruct k; intros [= <-]; reflexivity. Qed.
Theorem kd_unpack_total b : kd_unpack b <> Panic.
Proof.
  unfold kd_unpack. destruct b as [|d rest]; [discriminate|]. cbv zeta.
  repeat (destruct (_ =? _); [try discriminate|]); try discriminate.
  all: destruct rest as [|x [|y r]]; discriminate.
Qed.
Theorem kd_repack b k :
  kd_unpack b = Ok k -> k <> KUninit ->
  kd_pack_config k = Ok (firstn (N.to_nat (kd_size k)) b ++ zeros (32 - N.to_nat (kd_size k))).
Proof.
  unfold kd_unpack. destruct b as [|d rest]; [discriminate|]. cbv zeta.
  destruct (Byte.to_N d =? 0) eqn:E0; [intros [= <-] Hk; congruence|].
  destruct (Byte.to_N d =? 1) eqn:E1.
  { apply N.eqb_eq, byte_is in E1. subst d. destruct rest as [|i r]; try discriminate.
    intros [= <-] _. rewrite kd_pack_spec. reflexivity. }
  destruct (Byte.to_N d =? 2) eqn:E2; [|discriminate].
  apply N.eqb_eq, byte_is in E2. subst d. destruct rest as [|a [|dd r]]; try discriminate.
  intros [= <-] _. rewrite kd_pack_spec. reflexivity.
Qed.
(** every prefix of a packed key-data config: unpacking is total and, once the
    prefix covers the entry, returns it *)
Theorem kd_prefix k b n :
  kd_pack_config k = Ok b -> (N.to_nat (kd_size k) <= n)%nat -> kd_unpack (firstn n b) = Ok k.
Proof.
  rewrite kd_pack_spec. destruct k; intros [= <-]; cbn [kd_size enc_kd]; intros Hn.
  - destruct n as [|[|n]]; try lia. reflexivity.
  - destruct n as [|[|[|n]]]; try lia. reflexivity.
Qed.
