(** Model of tlv-account-resolution/src/account.rs (resolution of one extra-account
    config) and of the helpers of state.rs: de-escalation, the off-chain and CPI append
    paths, and check_account_infos.  Definitions only.

    The PDA derivation (`Pubkey::try_find_program_address`) is a parameter [find_pda] of
    every definition that needs it: theorems hold for any function; Lib/Pda.v gives the
    executable instance used by the correspondence check.
    Models the code after the repairs D4 (try_find_program_address), D6 (`?` instead of
    unwrap) and D7 (checked_sub). *)
From SplVerif Require Import Lib.Base Resolution.Seeds.
Local Open Scope N_scope.

Definition key := list byte.                         (* 32 bytes *)
Definition key_eqb (a b : key) : bool := list_byte_eqb a b.

Record meta := { m_key : key; m_signer : bool; m_writable : bool }.
Definition meta_eqb (a b : meta) : bool :=
  key_eqb (m_key a) (m_key b) && Bool.eqb (m_signer a) (m_signer b) && Bool.eqb (m_writable a) (m_writable b).

(** ExtraAccountMeta: 35 bytes = discriminator, 32-byte address config, two PodBool flags *)
Record extra := { e_disc : byte; e_cfg : list byte; e_signer : byte; e_writable : byte }.
Definition pod_bool (b : byte) : bool := negb (is_zero b).

(** what resolution can see of the accounts before: index -> (key, data if any) *)
Definition getter := N -> option (key * option (list byte)).

Definition E_RES : N := 30.

Section Resolve.
Variable find_pda : list (list byte) -> key -> option key.

(** bytes [start, start+length) of [d]: `arg_end > len` is an error, not a panic *)
Definition data_range (d : list byte) (start length : N) : outcome (list byte) :=
  if len d <? start + length then Err E_RES
  else match slice d start (start + length) with Some s => Ok s | None => Panic end.

(** resolve_pda: materialise the seeds in order *)
Fixpoint seed_values (seeds : list seed) (ix : list byte) (get : getter) : outcome (list (list byte)) :=
  match seeds with
  | [] => Ok []
  | s :: rest =>
      let? here :=
        match s with
        | SUninit => Ok []
        | SLiteral b => Ok [b]
        | SIxData i l => let? v := data_range ix (Byte.to_N i) (Byte.to_N l) in Ok [v]
        | SAcctKey i => match get (Byte.to_N i) with Some (k, _) => Ok [k] | None => Err E_RES end
        | SAcctData a d l =>
            match get (Byte.to_N a) with
            | Some (_, Some data) => let? v := data_range data (Byte.to_N d) (Byte.to_N l) in Ok [v]
            | _ => Err E_RES
            end
        end in
      let? more := seed_values rest ix get in Ok (here ++ more)
  end.
Definition resolve_pda (seeds : list seed) (ix : list byte) (program : key) (get : getter) : outcome key :=
  let? vs := seed_values seeds ix get in
  match find_pda vs program with Some k => Ok k | None => Err E_RES end.

(** resolve_key_data: 32 bytes at the indexed position *)
Definition resolve_key_data (k : keydata) (ix : list byte) (get : getter) : outcome key :=
  match k with
  | KUninit => Err E_RES
  | KIxData i => data_range ix (Byte.to_N i) 32
  | KAcctData a d =>
      match get (Byte.to_N a) with
      | Some (_, Some data) => data_range data (Byte.to_N d) 32
      | _ => Err E_RES
      end
  end.

(** ExtraAccountMeta::resolve *)
Definition resolve (e : extra) (ix : list byte) (program_id : key) (get : getter) : outcome meta :=
  let d := Byte.to_N (e_disc e) in
  let flags k := {| m_key := k; m_signer := pod_bool (e_signer e); m_writable := pod_bool (e_writable e) |} in
  if d =? 0 then Ok (flags (e_cfg e))
  else if (d =? 1) || (128 <=? d) then
    let? program :=
      if d =? 1 then Ok program_id
      else match get (d - 128) with Some (k, _) => Ok k | None => Err E_RES end in
    let? seeds := unpack_config (e_cfg e) in
    let? k := resolve_pda seeds ix program get in Ok (flags k)
  else if d =? 2 then
    let? kd := kd_unpack (e_cfg e) in
    let? k := resolve_key_data kd ix get in Ok (flags k)
  else Err E_RES.

(** constructors *)
Definition byte_of_bool (b : bool) : byte := if b then x01 else x00.
Definition new_with_pubkey (k : key) (s w : bool) : extra :=
  {| e_disc := x00; e_cfg := k; e_signer := byte_of_bool s; e_writable := byte_of_bool w |}.
Definition new_with_seeds (ss : list seed) (s w : bool) : outcome extra :=
  let? c := pack_config ss in
  Ok {| e_disc := x01; e_cfg := c; e_signer := byte_of_bool s; e_writable := byte_of_bool w |}.
Definition new_with_pubkey_data (k : keydata) (s w : bool) : outcome extra :=
  let? c := kd_pack_config k in
  Ok {| e_disc := x02; e_cfg := c; e_signer := byte_of_bool s; e_writable := byte_of_bool w |}.
(** program_index.checked_add(128) *)
Definition new_external_pda (idx : byte) (ss : list seed) (s w : bool) : outcome extra :=
  if 128 <=? Byte.to_N idx then Err E_RES
  else let? c := pack_config ss in
       Ok {| e_disc := b8 (Byte.to_N idx + 128); e_cfg := c; e_signer := byte_of_bool s; e_writable := byte_of_bool w |}.

(** * de_escalate_account_meta *)
Definition de_escalate (m : meta) (metas : list meta) : meta :=
  let same := filter (fun x => key_eqb (m_key x) (m_key m)) metas in
  let w := match same with
           | [] => m_writable m
           | _ => let highest := existsb m_writable same in
                  if negb highest && negb (Bool.eqb highest (m_writable m)) then false else m_writable m
           end in
  {| m_key := m_key m; m_signer := false; m_writable := w |}.

(** * add_to_instruction (off-chain).  [fetch] returns the account data for a key
    (Ok None = the account has no data), or fails. *)
Definition fetcher := key -> outcome (option (list byte)).
Definition kd_getter (kds : list (key * option (list byte))) : getter := fun i => nth_error kds (N.to_nat i).

Fixpoint fetch_all (fetch : fetcher) (ms : list meta) : outcome (list (key * option (list byte))) :=
  match ms with
  | [] => Ok []
  | m :: ms => let? d := fetch (m_key m) in let? rest := fetch_all fetch ms in Ok ((m_key m, d) :: rest)
  end.
Fixpoint offchain_loop (fetch : fetcher) (cfgs : list extra) (ix : list byte) (pid : key)
         (kds : list (key * option (list byte))) (metas : list meta) : outcome (list meta) :=
  match cfgs with
  | [] => Ok metas
  | c :: cfgs =>
      let? m := resolve c ix pid (kd_getter kds) in
      let m' := de_escalate m metas in
      let? d := fetch (m_key m') in
      offchain_loop fetch cfgs ix pid (kds ++ [(m_key m', d)]) (metas ++ [m'])
  end.
Definition add_offchain (fetch : fetcher) (cfgs : list extra) (ix : list byte) (pid : key) (metas : list meta)
  : outcome (list meta) :=
  let? kds := fetch_all fetch metas in offchain_loop fetch cfgs ix pid kds metas.

(** * add_to_cpi_instruction *)
Record info := { i_key : key; i_signer : bool; i_writable : bool; i_data : list byte }.
Definition info_getter (infos : list info) : getter :=
  fun i => match nth_error infos (N.to_nat i) with Some x => Some (i_key x, Some (i_data x)) | None => None end.
Fixpoint cpi_loop (pool : list info) (cfgs : list extra) (ix : list byte) (pid : key)
         (infos : list info) (metas : list meta) : outcome (list meta * list info) :=
  match cfgs with
  | [] => Ok (metas, infos)
  | c :: cfgs =>
      let? m := resolve c ix pid (info_getter infos) in
      let m' := de_escalate m metas in
      match find (fun x => key_eqb (i_key x) (m_key m')) pool with
      | None => Err E_RES
      | Some inf => cpi_loop pool cfgs ix pid (infos ++ [inf]) (metas ++ [m'])
      end
  end.

(** * check_account_infos, given the stored configs (list-view contents) *)
Definition info_meta (x : info) : meta := {| m_key := i_key x; m_signer := i_signer x; m_writable := i_writable x |}.
Fixpoint check_loop (cfgs : list extra) (ix : list byte) (pid : key) (accounts : list info) (pos : N) : outcome unit :=
  match cfgs with
  | [] => Ok tt
  | c :: cfgs =>
      let? m := resolve c ix pid (info_getter accounts) in
      match nth_error accounts (N.to_nat pos) with
      | Some a => if meta_eqb (info_meta a) m then check_loop cfgs ix pid accounts (pos + 1) else Err E_RES
      | None => Err E_RES
      end
  end.
Definition check_accounts (cfgs : list extra) (ix : list byte) (pid : key) (accounts : list info) : outcome unit :=
  if len accounts <? len cfgs then Err E_RES        (* checked_sub (D7) *)
  else check_loop cfgs ix pid accounts (len accounts - len cfgs).
End Resolve.
