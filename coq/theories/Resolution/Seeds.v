(** Model of tlv-account-resolution/src/seeds.rs and pubkey_data.rs (definitions only).
    Models the code as it is after the D5 repair ([tlv_size] saturating); the pre-fix
    arithmetic is kept in Findings/D5.v. *)
From SplVerif Require Import Lib.Base.
Local Open Scope N_scope.

Inductive seed :=
| SUninit
| SLiteral (bytes : list byte)
| SIxData (index length : byte)
| SAcctKey (index : byte)
| SAcctData (account_index data_index length : byte).

(** [Seed::tlv_size] : u8.  Literal: u8::try_from(len).unwrap_or(MAX).saturating_add(2) *)
Definition tlv_size (s : seed) : N :=
  match s with
  | SUninit => 0
  | SLiteral b => N.min 255 (N.min (len b) 255 + 2)
  | SIxData _ _ => 3
  | SAcctKey _ => 2
  | SAcctData _ _ _ => 4
  end.

(** The mathematical packed size the property speaks about. *)
Definition packed_size (s : seed) : N :=
  match s with
  | SUninit => 0
  | SLiteral b => 2 + len b
  | SIxData _ _ => 3
  | SAcctKey _ => 2
  | SAcctData _ _ _ => 4
  end.

(** [Seed::pack(&self, dst)]: returns the new contents of [dst].  Every byte of
    [dst] is overwritten on success, so the result does not mention the old bytes. *)
Definition pack_seed (s : seed) (dst : list byte) : outcome (list byte) :=
  if negb (len dst =? tlv_size s) then Err 1          (* NotEnoughBytesForSeed *)
  else if 32 <? len dst then Err 2                     (* SeedConfigsTooLarge *)
  else match s with
       | SUninit => Err 3                              (* InvalidSeedConfig *)
       | SLiteral bytes =>
           (* dst[0]=1; dst[1]=len as u8; dst[2..].copy_from_slice(bytes) *)
           if (2 <=? len dst) && (len dst - 2 =? len bytes)
           then Ok (x01 :: b8 (len bytes) :: bytes) else Panic
       | SIxData i l => if 3 <=? len dst then Ok [x02; i; l] else Panic
       | SAcctKey i => if 2 <=? len dst then Ok [x03; i] else Panic
       | SAcctData a d l => if 4 <=? len dst then Ok [x04; a; d; l] else Panic
       end.

(** [Seed::pack_into_address_config] *)
Fixpoint pack_loop (seeds : list seed) (packed : list byte) (i : N) : outcome (list byte) :=
  match seeds with
  | [] => Ok packed
  | s :: rest =>
      let slice_end := i + tlv_size s in
      if 32 <? slice_end then Err 2
      else match slice packed i slice_end with
           | None => Panic
           | Some dst =>
               let? d := pack_seed s dst in
               match write_at packed i d with
               | None => Panic
               | Some packed' => pack_loop rest packed' slice_end
               end
           end
  end.
Definition pack_config (seeds : list seed) : outcome (list byte) := pack_loop seeds (zeros 32) 0.

(** [Seed::unpack] and helpers *)
Definition unpack_seed (bytes : list byte) : outcome seed :=
  match bytes with
  | [] => Err 10
  | d :: rest =>
      let k := Byte.to_N d in
      if k =? 0 then Ok SUninit
      else if k =? 1 then
        match rest with
        | [] => Err 11
        | l :: rest' =>
            if len rest' <? Byte.to_N l then Err 11
            else Ok (SLiteral (firstn (N.to_nat (Byte.to_N l)) rest'))
        end
      else if k =? 2 then match rest with i :: l :: _ => Ok (SIxData i l) | _ => Err 11 end
      else if k =? 3 then match rest with i :: _ => Ok (SAcctKey i) | _ => Err 11 end
      else if k =? 4 then match rest with a :: d :: l :: _ => Ok (SAcctData a d l) | _ => Err 11 end
      else Err 10
  end.

Definition seed_is_uninit (s : seed) : bool := match s with SUninit => true | _ => false end.

(** [Seed::unpack_address_config]: [while i < 32]; fuel = 33 suffices (every
    non-terminating iteration advances by >= 2).  Written without the accumulator:
    the vector is only returned when the whole loop succeeds. *)
Fixpoint unpack_loop (fuel : nat) (cfg : list byte) (i : N) : outcome (list seed) :=
  match fuel with
  | O => Panic   (* out of fuel: excluded by theorem *)
  | S fuel =>
      if i <? 32 then
        match slice_from cfg i with
        | None => Panic
        | Some tl =>
            let? s := unpack_seed tl in
            if seed_is_uninit s then Ok []
            else let? rest := unpack_loop fuel cfg (i + tlv_size s) in Ok (s :: rest)
        end
      else Ok []
  end.
Definition unpack_config (cfg : list byte) : outcome (list seed) := unpack_loop 33 cfg 0.

(** * PubkeyData *)
Inductive keydata :=
| KUninit
| KIxData (index : byte)
| KAcctData (account_index data_index : byte).

Definition kd_size (k : keydata) : N :=
  match k with KUninit => 0 | KIxData _ => 2 | KAcctData _ _ => 3 end.

Definition kd_pack (k : keydata) (dst : list byte) : outcome (list byte) :=
  if negb (len dst =? kd_size k) then Err 4
  else match k with
       | KUninit => Err 5
       | KIxData i => if 2 <=? len dst then Ok [x01; i] else Panic
       | KAcctData a d => if 3 <=? len dst then Ok [x02; a; d] else Panic
       end.

Definition kd_pack_config (k : keydata) : outcome (list byte) :=
  let packed := zeros 32 in
  match slice packed 0 (kd_size k) with
  | None => Panic
  | Some dst =>
      let? d := kd_pack k dst in
      match write_at packed 0 d with None => Panic | Some p => Ok p end
  end.

Definition kd_unpack (bytes : list byte) : outcome keydata :=
  match bytes with
  | [] => Err 10
  | d :: rest =>
      let k := Byte.to_N d in
      if k =? 0 then Ok KUninit
      else if k =? 1 then match rest with i :: _ => Ok (KIxData i) | _ => Err 12 end
      else if k =? 2 then match rest with a :: d :: _ => Ok (KAcctData a d) | _ => Err 12 end
      else Err 10
  end.

(** decidable equality on seeds, for the correspondence check *)
Definition seed_eqb (a b : seed) : bool :=
  match a, b with
  | SUninit, SUninit => true
  | SLiteral x, SLiteral y => list_byte_eqb x y
  | SIxData i l, SIxData i' l' => byte_eqb i i' && byte_eqb l l'
  | SAcctKey i, SAcctKey i' => byte_eqb i i'
  | SAcctData a d l, SAcctData a' d' l' => byte_eqb a a' && byte_eqb d d' && byte_eqb l l'
  | _, _ => false
  end.
Fixpoint seeds_eqb (a b : list seed) : bool :=
  match a, b with
  | [], [] => true
  | x :: a, y :: b => seed_eqb x y && seeds_eqb a b
  | _, _ => false
  end.
Definition keydata_eqb (a b : keydata) : bool :=
  match a, b with
  | KUninit, KUninit => true
  | KIxData i, KIxData j => byte_eqb i j
  | KAcctData a d, KAcctData a' d' => byte_eqb a a' && byte_eqb d d'
  | _, _ => false
  end.
