(** Whole-instruction consequences of the per-meta de-escalation rule (C06): what holds for a KEY
    across all the accounts a resolution appends, however many configs name it. *)
From SplVerif Require Import Lib.Base Resolution.Seeds Resolution.Account Resolution.Proofs.
Local Open Scope N_scope.

Lemma appended_length cfgs pre app : appended_ok cfgs pre app -> length app = length cfgs.
Proof. induction 1 as [|c cfgs pre m rest _ _ _ IH]; cbn [length]; [reflexivity|now rewrite IH]. Qed.

Lemma appended_no_signer cfgs pre app : appended_ok cfgs pre app -> Forall (fun a => m_signer a = false) app.
Proof. induction 1 as [|c cfgs pre m rest _ _ _ IH]; constructor; [reflexivity|exact IH]. Qed.

Lemma same_key_in m ms p : In p (same_key m ms) <-> In p ms /\ m_key p = m_key m.
Proof. unfold same_key. rewrite filter_In, key_eqb_eq. tauto. Qed.

Lemma existsb_false_all {A} (f : A -> bool) l : (forall x, In x l -> f x = false) -> existsb f l = false.
Proof. induction l as [|x l IH]; intros H; cbn [existsb]; [reflexivity|]. rewrite (H x (or_introl eq_refl)), IH; [reflexivity|]. intros y Hy. apply H. now right. Qed.

(** a meta de-escalated against a list where its key occurs, and only read-only, is read-only *)
Lemma de_escalate_readonly m pre p :
  In p pre -> m_key p = m_key m -> (forall q, In q pre -> m_key q = m_key m -> m_writable q = false) ->
  m_writable (de_escalate m pre) = false.
Proof.
  intros Hin Hk Hro. rewrite de_escalate_writable.
  assert (Hp : In p (same_key m pre)) by (apply same_key_in; now split).
  destruct (same_key m pre) as [|x l] eqn:E; [contradiction|].
  rewrite existsb_false_all; [apply andb_false_r|].
  intros q Hq. rewrite <- E in Hq. apply same_key_in in Hq as [Hq1 Hq2]. now apply Hro.
Qed.

(** NO KEY GAINS WRITE ACCESS: a key that the instruction names, and names only read-only, is
    read-only in every account the resolution appends -- no matter how many configs resolve to it
    or what they ask for *)
Theorem no_key_gains_write cfgs pre app : appended_ok cfgs pre app ->
  forall k, (exists p, In p pre /\ m_key p = k) ->
  (forall p, In p pre -> m_key p = k -> m_writable p = false) ->
  forall a, In a app -> m_key a = k -> m_writable a = false.
Proof.
  induction 1 as [|c cfgs pre m rest Hs Hw Hrest IH]; intros k [p [Hin Hk]] Hro a Ha Hka; [contradiction|].
  assert (Hfirst : m_key m = k -> m_writable (de_escalate m pre) = false).
  { intros Hm. apply (de_escalate_readonly m pre p Hin); [congruence|]. intros q Hq Hqk. apply Hro; congruence. }
  destruct Ha as [<-|Ha].
  - apply Hfirst. exact Hka.
  - apply (IH k); [exists p; split; [apply in_or_app; now left|exact Hk]| |exact Ha|exact Hka].
    intros q Hq Hqk. apply in_app_or in Hq as [Hq|[<-|[]]]; [now apply Hro|]. apply Hfirst. exact Hqk.
Qed.

(** ... and no key gains signer status: every appended account is a non-signer, so a key is a
    signer in the result exactly where the caller's own metas made it one *)
Theorem signers_are_the_callers cfgs pre app : appended_ok cfgs pre app ->
  forall a, In a (pre ++ app) -> m_signer a = true -> In a pre.
Proof.
  intros H a Ha Hs. apply in_app_or in Ha as [Ha|Ha]; [exact Ha|].
  pose proof (appended_no_signer _ _ _ H) as Hf. rewrite Forall_forall in Hf. rewrite (Hf a Ha) in Hs. discriminate.
Qed.

(** a key the instruction already names writable keeps every configured-writable appended
    account writable (the converse clause, for the whole list) *)
Theorem writable_key_stays_writable : forall cfgs pre app, appended_ok cfgs pre app ->
  forall k, (exists p, In p pre /\ m_key p = k /\ m_writable p = true) ->
  forall j c a, nth_error cfgs j = Some c -> nth_error app j = Some a -> m_key a = k ->
  pod_bool (e_writable c) = true -> m_writable a = true.
Proof.
  induction 1 as [|c0 cfgs pre m rest Hs Hw Hrest IH]; intros k [p [Hin [Hk Hpw]]] j c a Hc Ha Hka Hcw.
  - destruct j; discriminate.
  - destruct j as [|j]; cbn [nth_error] in Hc, Ha.
    + injection Hc as <-. injection Ha as <-. rewrite de_escalate_writable. rewrite Hw, Hcw. cbn [andb].
      assert (Hp : In p (same_key m pre)) by (apply same_key_in; split; [exact Hin|]; cbn in Hka; congruence).
      destruct (same_key m pre) as [|x l] eqn:E; [reflexivity|]. rewrite <- E in *.
      apply existsb_exists. exists p. now split.
    + apply (IH k) with (j := j) (c := c); try assumption.
      exists p. split; [apply in_or_app; now left|now split].
Qed.

Theorem offchain_no_key_gains_write find_pda fetch cfgs ix pid kds metas out :
  offchain_loop find_pda fetch cfgs ix pid kds metas = Ok out ->
  forall k, (exists p, In p metas /\ m_key p = k) ->
  (forall p, In p metas -> m_key p = k -> m_writable p = false) ->
  forall a, In a out -> m_key a = k -> m_writable a = false.
Proof.
  intros H k Hex Hro a Ha Hk.
  destruct (offchain_appends find_pda fetch cfgs ix pid kds metas out H) as (app & -> & Hok).
  apply in_app_or in Ha as [Ha|Ha]; [now apply Hro|]. exact (no_key_gains_write cfgs metas app Hok k Hex Hro a Ha Hk).
Qed.
Theorem cpi_no_key_gains_write find_pda pool cfgs ix pid infos metas out infos' :
  cpi_loop find_pda pool cfgs ix pid infos metas = Ok (out, infos') ->
  forall k, (exists p, In p metas /\ m_key p = k) ->
  (forall p, In p metas -> m_key p = k -> m_writable p = false) ->
  forall a, In a out -> m_key a = k -> m_writable a = false.
Proof.
  intros H k Hex Hro a Ha Hk.
  destruct (cpi_appends find_pda pool cfgs ix pid infos metas out infos' H) as (app & -> & Hok).
  apply in_app_or in Ha as [Ha|Ha]; [now apply Hro|]. exact (no_key_gains_write cfgs metas app Hok k Hex Hro a Ha Hk).
Qed.
