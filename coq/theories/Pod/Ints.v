(** Model of pod/src/primitives.rs and pod/src/bytemuck.rs: Pod integers of width
    [w] bytes (2,4,8,16) are the little-endian bytes of the primitive; PodBool; the
    usize conversions; the byte-cast wrappers as length tests returning ranges. *)
From SplVerif Require Import Lib.Base.
Local Open Scope N_scope.

(** unsigned *)
Definition of_prim_u (w : nat) (x : N) : list byte := le_enc w x.
Definition to_prim_u (l : list byte) : N := le_dec l.
(** signed: two's complement over 8w bits *)
Definition modulus (w : nat) : Z := Z.of_N (256 ^ N.of_nat w).
Definition of_prim_i (w : nat) (x : Z) : list byte := le_enc w (Z.to_N (x mod modulus w)).
Definition to_prim_i (l : list byte) : Z :=
  let u := Z.of_N (le_dec l) in
  let m := modulus (length l) in
  if (2 * u <? m)%Z then u else (u - m)%Z.

(** PodBool *)
Definition of_bool (b : bool) : byte := if b then x01 else x00.
Definition to_bool (b : byte) : bool := negb (is_zero b).

(** TryFrom<usize> for PodUxx / From<PodUxx> for usize (usize = u64) *)
Definition USIZE_LIMIT : N := 18446744073709551616.
Definition try_from_usize (w : nat) (n : N) : option (list byte) :=
  if n <? 256 ^ N.of_nat w then Some (le_enc w n) else None.
Definition to_usize (l : list byte) : outcome N :=
  if USIZE_LIMIT <=? le_dec l then Panic else Ok (le_dec l).

(** byte casts (alignment-1 Pod types of size [sz]): success + aliased range (offset, length) *)
Definition pod_from_bytes (sz : N) (l : list byte) : outcome (N * N) :=
  if len l =? sz then Ok (0, len l) else Err 5.
Definition pod_maybe_from_bytes (sz : N) (l : list byte) : outcome (option (N * N)) :=
  if len l =? 0 then Ok None else if len l =? sz then Ok (Some (0, len l)) else Err 5.
(** try_cast_slice::<u8, T>: number of elements *)
Definition pod_slice_from_bytes (sz : N) (l : list byte) : outcome N :=
  if sz =? 1 then Ok (len l)
  else if (negb (sz =? 0) && (len l mod sz =? 0)) || ((sz =? 0) && (len l =? 0))
       then Ok (if sz =? 0 then 0 else len l / sz) else Err 5.

(** * Theorems *)
Theorem u_roundtrip w x : x < 256 ^ N.of_nat w -> to_prim_u (of_prim_u w x) = x.
Proof. apply le_dec_enc_small. Qed.
Theorem u_roundtrip_bytes l : of_prim_u (length l) (to_prim_u l) = l.
Proof. apply le_enc_dec. Qed.
Theorem u_width w x : length (of_prim_u w x) = w.
Proof. apply le_enc_length. Qed.

Lemma nth_le_enc w : forall x i, (i < w)%nat ->
  Byte.to_N (nth i (le_enc w x) x00) = (x / 256 ^ N.of_nat i) mod 256.
Proof.
  induction w as [|w IH]; intros x i Hi; [lia|]. destruct i as [|i]; cbn [le_enc nth].
  - rewrite to_N_b8. cbn. now rewrite N.div_1_r.
  - rewrite IH by lia. rewrite Nat2N.inj_succ, N.pow_succ_r'. now rewrite N.div_div by (try apply N.pow_nonzero; lia).
Qed.
Theorem u_little_endian w x i : (i < w)%nat ->
  Byte.to_N (nth i (of_prim_u w x) x00) = (x / 256 ^ N.of_nat i) mod 256.
Proof. apply nth_le_enc. Qed.

Lemma modulus_pos w : (0 < modulus w)%Z.
Proof. unfold modulus. assert (256 ^ N.of_nat w <> 0) by (apply N.pow_nonzero; lia). lia. Qed.
Lemma modulus_even w : (0 < w)%nat -> exists h, modulus w = (2 * h)%Z /\ (0 < h)%Z.
Proof.
  destruct w as [|w]; [lia|]. intros _. unfold modulus. rewrite Nat2N.inj_succ, N.pow_succ_r'.
  exists (Z.of_N (128 * 256 ^ N.of_nat w)). assert (256 ^ N.of_nat w <> 0) by (apply N.pow_nonzero; lia). lia.
Qed.

Theorem i_roundtrip w x : (0 < w)%nat -> (- modulus w <= 2 * x < modulus w)%Z -> to_prim_i (of_prim_i w x) = x.
Proof.
  intros Hw Hx. unfold to_prim_i, of_prim_i. rewrite le_enc_length.
  pose proof (modulus_pos w) as Hm. destruct (modulus_even w Hw) as (h & Hh & Hhp).
  assert (Hr : (0 <= x mod modulus w < modulus w)%Z) by (apply Z.mod_pos_bound; lia).
  rewrite le_dec_enc_small by (unfold modulus in *; lia).
  rewrite Z2N.id by lia.
  destruct (Z_lt_le_dec x 0) as [Hn|Hp].
  - assert (E : (x mod modulus w = x + modulus w)%Z) by (symmetry; apply Z.mod_unique with (q := (-1)%Z); lia).
    rewrite E.
    replace (2 * (x + modulus w) <? modulus w)%Z with false by lia. lia.
  - rewrite Z.mod_small by lia. replace (2 * x <? modulus w)%Z with true by lia. reflexivity.
Qed.
Theorem i_roundtrip_bytes l : (0 < length l)%nat -> of_prim_i (length l) (to_prim_i l) = l.
Proof.
  intros Hw. unfold to_prim_i, of_prim_i. set (w := length l) in *.
  pose proof (modulus_pos w) as Hm. pose proof (le_dec_bound l) as Hb. fold w in Hb.
  assert (Hu : (0 <= Z.of_N (le_dec l) < modulus w)%Z) by (unfold modulus; lia).
  assert (E : forall v, ((v mod modulus w)%Z = Z.of_N (le_dec l)) -> le_enc w (Z.to_N (v mod modulus w)) = l).
  { intros v ->. rewrite N2Z.id. apply le_enc_dec. }
  destruct (2 * Z.of_N (le_dec l) <? modulus w)%Z; apply E.
  - apply Z.mod_small. lia.
  - symmetry. apply Z.mod_unique with (q := (-1)%Z); lia.
Qed.
(** the sign lives in the top byte *)
Theorem i_sign l : (0 < length l)%nat -> ((to_prim_i l <? 0)%Z = (128 <=? Byte.to_N (last l x00))).
Proof.
  intros Hw. unfold to_prim_i.
  assert (Hsplit : exists l0 b, l = l0 ++ [b]) by (exists (removelast l), (last l x00); apply app_removelast_last; destruct l; [cbn in Hw; lia|discriminate]).
  destruct Hsplit as (l0 & b & ->). rewrite last_last.
  assert (Hd : le_dec (l0 ++ [b]) = le_dec l0 + 256 ^ N.of_nat (length l0) * Byte.to_N b).
  { clear Hw. induction l0 as [|c l0 IH]; cbn [app le_dec length]; [cbn; lia|]. rewrite IH, Nat2N.inj_succ, N.pow_succ_r'. lia. }
  rewrite Hd. rewrite app_length. cbn [length]. unfold modulus.
  replace (N.of_nat (length l0 + 1)) with (N.succ (N.of_nat (length l0))) by lia. rewrite N.pow_succ_r'.
  pose proof (le_dec_bound l0) as Hb. pose proof (Byte.to_N_bounded b) as Hbb.
  set (M := 256 ^ N.of_nat (length l0)) in *. assert (0 < M) by (unfold M; apply N.neq_0_lt_0, N.pow_nonzero; lia).
  destruct (128 <=? Byte.to_N b) eqn:E.
  - replace (2 * Z.of_N (le_dec l0 + M * Byte.to_N b) <? Z.of_N (256 * M))%Z with false by nia. nia.
  - replace (2 * Z.of_N (le_dec l0 + M * Byte.to_N b) <? Z.of_N (256 * M))%Z with true by nia. nia.
Qed.

Theorem bool_read b : to_bool b = true <-> b <> x00.
Proof. unfold to_bool. rewrite negb_true_iff. split; [intros H E; subst; discriminate|]. intros H. destruct (is_zero b) eqn:E; [apply is_zero_true in E; contradiction|reflexivity]. Qed.
Theorem bool_write b : of_bool b = x00 \/ of_bool b = x01.
Proof. destruct b; auto. Qed.
Theorem bool_roundtrip b : to_bool (of_bool b) = b.
Proof. destruct b; reflexivity. Qed.

Theorem usize_fits_iff w n : (exists l, try_from_usize w n = Some l) <-> n < 256 ^ N.of_nat w.
Proof.
  unfold try_from_usize. destruct (n <? _) eqn:E.
  - split; [intros _; lia|intros _; eauto].
  - split; [intros [l H]; discriminate|intros H; lia].
Qed.
Theorem usize_roundtrip w n l : n < USIZE_LIMIT -> try_from_usize w n = Some l -> to_usize l = Ok n /\ length l = w.
Proof.
  unfold try_from_usize, to_usize. destruct (n <? _) eqn:E; [|discriminate]. intros Hn [= <-].
  rewrite le_dec_enc_small by lia. replace (USIZE_LIMIT <=? n) with false by lia. split; [reflexivity|apply le_enc_length].
Qed.
Theorem to_usize_narrow l : (length l <= 8)%nat -> to_usize l = Ok (le_dec l).
Proof.
  intros Hl. unfold to_usize. pose proof (le_dec_bound l) as Hb.
  assert (256 ^ N.of_nat (length l) <= 256 ^ 8) by (apply N.pow_le_mono_r; lia).
  change (256 ^ 8) with USIZE_LIMIT in H. now replace (USIZE_LIMIT <=? le_dec l) with false by lia.
Qed.

Theorem cast_iff sz l : (exists r, pod_from_bytes sz l = Ok r) <-> len l = sz.
Proof.
  unfold pod_from_bytes. destruct (len l =? sz) eqn:E.
  - split; [intros _; lia|intros _; eauto].
  - split; [intros [r H]; discriminate|intros H; lia].
Qed.
Theorem cast_aliases sz l r : pod_from_bytes sz l = Ok r -> r = (0, len l).
Proof. unfold pod_from_bytes. destruct (len l =? sz); congruence. Qed.
Theorem cast_slice_iff sz l : sz <> 0 -> (exists k, pod_slice_from_bytes sz l = Ok k) <-> len l mod sz = 0.
Proof.
  intros Hz. unfold pod_slice_from_bytes. destruct (sz =? 1) eqn:E1.
  - apply N.eqb_eq in E1. subst. rewrite N.mod_1_r. split; eauto.
  - replace (sz =? 0) with false by lia. cbn [negb andb orb]. destruct (len l mod sz =? 0) eqn:E.
    + cbn [orb]. split; [intros _; lia|intros _; eauto].
    + cbn [orb]. split; [intros [k H]; discriminate|intros H; lia].
Qed.
Theorem cast_slice_count sz l k : sz <> 0 -> pod_slice_from_bytes sz l = Ok k -> k * sz = len l.
Proof.
  intros Hz. unfold pod_slice_from_bytes. destruct (sz =? 1) eqn:E1.
  - apply N.eqb_eq in E1. subst. intros [= <-]. lia.
  - replace (sz =? 0) with false by lia. cbn [negb andb orb]. destruct (len l mod sz =? 0) eqn:E; cbn [orb]; [|discriminate].
    intros [= <-]. pose proof (N.div_mod (len l) sz Hz). lia.
Qed.
