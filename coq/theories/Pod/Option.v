(** Model of pod/src/option.rs, generic in the carrier (a type with decidable
    equality and a designated none value). *)
From SplVerif Require Import Lib.Base.

Section PodOption.
Variable T : Type.
Variable eqb : T -> T -> bool.
Hypothesis eqb_spec : forall a b, eqb a b = true <-> a = b.
Variable none : T.

(** a PodOption<T> is a T; `get`, `as_ref`, `copied`, `cloned`, `From<PodOption> for Option/COption` *)
Definition is_none (p : T) : bool := eqb p none.
Definition get (p : T) : option T := if is_none p then None else Some p.
(** TryFrom<Option<T>> / TryFrom<COption<T>> *)
Definition try_from_option (o : option T) : outcome T :=
  match o with
  | Some v => if is_none v then Err 5 else Ok v
  | None => Ok none
  end.
Definition default : T := none.
(** From<T>: wraps any value, including the none value *)
Definition from_value (v : T) : T := v.

Theorem none_iff p : get p = None <-> p = none.
Proof. unfold get, is_none. destruct (eqb p none) eqn:E; split; try discriminate; intros H; [now apply eqb_spec| |]; try reflexivity.
  apply eqb_spec in H. congruence. Qed.
Theorem some_iff p v : get p = Some v <-> (p = v /\ p <> none).
Proof.
  unfold get, is_none. destruct (eqb p none) eqn:E; split.
  - discriminate.
  - intros [_ H]. apply eqb_spec in E. contradiction.
  - intros [= <-]. split; [reflexivity|]. intros H. apply eqb_spec in H. congruence.
  - intros [-> _]. reflexivity.
Qed.
Theorem option_roundtrip o p : try_from_option o = Ok p -> get p = o.
Proof.
  destruct o as [v|]; cbn [try_from_option].
  - unfold get. destruct (is_none v) eqn:E; [discriminate|]. intros [= <-]. now rewrite E.
  - intros [= <-]. apply none_iff. reflexivity.
Qed.
Theorem pod_roundtrip p : try_from_option (get p) = Ok p.
Proof.
  unfold get. destruct (is_none p) eqn:E; cbn [try_from_option]; [|now rewrite E].
  unfold is_none in E. apply eqb_spec in E. now subst.
Qed.
Theorem only_some_none_rejected o : (exists e, try_from_option o = Err e) <-> o = Some none.
Proof.
  destruct o as [v|]; cbn [try_from_option]; unfold is_none.
  - destruct (eqb v none) eqn:E; split.
    + intros _. apply eqb_spec in E. now subst.
    + eauto.
    + intros [e H]; discriminate.
    + intros [= ->]. assert (eqb none none = true) by now apply eqb_spec. congruence.
  - split; [intros [e H]; discriminate|discriminate].
Qed.
Theorem never_panics o : try_from_option o <> Panic.
Proof. destruct o as [v|]; cbn; [destruct (is_none v)|]; discriminate. Qed.
Theorem default_is_none : get default = None.
Proof. apply none_iff. reflexivity. Qed.
End PodOption.
