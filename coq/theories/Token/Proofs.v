(** Proofs about the generic token parsers (C16, C17). *)
From SplVerif Require Import Lib.Base Token.Model.
Local Open Scope N_scope.

Lemma sub_ok (b : list byte) off n : off + n <= len b ->
  sub b off n = Ok (seg b (N.to_nat off) (N.to_nat n)).
Proof.
  intros H. unfold sub, slice, seg. replace ((off <=? off + n) && (off + n <=? len b)) with true by lia.
  now replace (off + n - off) with n by lia.
Qed.
Lemma seg1 (b : list byte) i : (i < length b)%nat -> seg b i 1 = [nth i b x00].
Proof.
  revert i. induction b as [|x b IH]; intros i Hi; [cbn in Hi; lia|].
  destruct i as [|i]; [reflexivity|]. unfold seg in *. cbn [skipn nth]. apply IH. cbn in Hi. lia.
Qed.
Lemma idx_ok (b : list byte) i : i < len b -> idx b i = Ok (nth (N.to_nat i) b x00).
Proof.
  intros H. unfold idx, slice. replace ((i <=? i + 1) && (i + 1 <=? len b)) with true by lia.
  replace (i + 1 - i) with 1 by lia. change (N.to_nat 1) with 1%nat.
  fold (seg b (N.to_nat i) 1). rewrite seg1 by (unfold len in H; lia). reflexivity.
Qed.
Lemma init_at_spec (b : list byte) off :
  is_initialized_at b off = (off <? len b) && negb (is_zero (nth (N.to_nat off) b x00)).
Proof.
  unfold is_initialized_at, slice. destruct (off <? len b) eqn:E.
  - replace ((off <=? off + 1) && (off + 1 <=? len b)) with true by lia.
    replace (off + 1 - off) with 1 by lia. change (N.to_nat 1) with 1%nat.
    fold (seg b (N.to_nat off) 1). rewrite seg1 by (unfold len in E; lia). reflexivity.
  - replace ((off <=? off + 1) && (off + 1 <=? len b)) with false by lia. reflexivity.
Qed.

(** the documented acceptance rules *)
Definition marker (b : list byte) : byte := nth 165 b x00.
Definition extended_ok (b : list byte) (m : byte) (init_off : N) : bool :=
  (ACCOUNT_LEN <? len b) && negb (len b =? MULTISIG_LEN) && byte_eqb m (marker b) && is_initialized_at b init_off.
Definition acct_ok (p : prog) (b : list byte) : bool :=
  match p with
  | PToken => token_valid_account b
  | PToken2022 => token_valid_account b || extended_ok b x02 108
  | POther => false
  end.
Definition mint_ok (p : prog) (b : list byte) : bool :=
  match p with
  | PToken => token_valid_mint b
  | PToken2022 => token_valid_mint b || extended_ok b x01 45
  | POther => false
  end.
Definition acct_fields (b : list byte) := (seg b 0 32, seg b 32 32, le_dec (seg b 64 8)).
Definition mint_fields (b : list byte) := (le_dec (seg b 36 8), nth 44 b x00).

Lemma t22_valid_spec m off base b :
  t22_valid m off base b = Ok (base || extended_ok b m off).
Proof.
  unfold t22_valid, extended_ok, and_o, marker. destruct base; [reflexivity|]. cbn [orb].
  destruct (ACCOUNT_LEN <? len b) eqn:E1; [|reflexivity].
  destruct (len b =? MULTISIG_LEN) eqn:E2; [reflexivity|]. cbn [negb andb].
  rewrite idx_ok by (unfold ACCOUNT_LEN in *; lia). cbn [bind]. change (N.to_nat ACCOUNT_LEN) with 165%nat.
  destruct (byte_eqb m (nth 165 b x00)); reflexivity.
Qed.

Lemma valid_account_spec p b :
  valid_account p b = Ok (match p with POther => None | _ => Some (acct_ok p b) end).
Proof. destruct p; cbn [valid_account acct_ok]; try reflexivity. unfold t22_valid_account. now rewrite t22_valid_spec. Qed.
Lemma valid_mint_spec p b :
  valid_mint p b = Ok (match p with POther => None | _ => Some (mint_ok p b) end).
Proof. destruct p; cbn [valid_mint mint_ok]; try reflexivity. unfold t22_valid_mint. now rewrite t22_valid_spec. Qed.

Lemma acct_ok_len p b : acct_ok p b = true -> 165 <= len b.
Proof.
  destruct p; cbn [acct_ok]; unfold token_valid_account, extended_ok, ACCOUNT_LEN; try discriminate;
    rewrite ?orb_true_iff, ?andb_true_iff; intros; lia.
Qed.
Lemma mint_ok_len p b : mint_ok p b = true -> 82 <= len b.
Proof.
  destruct p; cbn [mint_ok]; unfold token_valid_mint, extended_ok, ACCOUNT_LEN, MINT_LEN; try discriminate;
    rewrite ?orb_true_iff, ?andb_true_iff; intros; lia.
Qed.

(** functional characterisation of the two parsers: total, exact acceptance set,
    fields = the bytes at the documented offsets *)
Theorem generic_account_spec p b :
  generic_account p b = Ok (if acct_ok p b then Some (acct_fields b) else None).
Proof.
  unfold generic_account. rewrite valid_account_spec. cbn [bind].
  destruct p; cbn [acct_ok]; try reflexivity.
  - destruct (token_valid_account b) eqn:E; [|reflexivity].
    pose proof (acct_ok_len PToken b E) as HL.
    rewrite !sub_ok by lia. reflexivity.
  - destruct (token_valid_account b || extended_ok b x02 108) eqn:E; [|reflexivity].
    pose proof (acct_ok_len PToken2022 b E) as HL.
    rewrite !sub_ok by lia. reflexivity.
Qed.
Theorem generic_mint_spec p b :
  generic_mint p b = Ok (if mint_ok p b then Some (mint_fields b) else None).
Proof.
  unfold generic_mint. rewrite valid_mint_spec. cbn [bind].
  destruct p; cbn [mint_ok]; try reflexivity.
  - destruct (token_valid_mint b) eqn:E; [|reflexivity].
    pose proof (mint_ok_len PToken b E) as HL.
    rewrite sub_ok by lia. rewrite idx_ok by lia. reflexivity.
  - destruct (token_valid_mint b || extended_ok b x01 45) eqn:E; [|reflexivity].
    pose proof (mint_ok_len PToken2022 b E) as HL.
    rewrite sub_ok by lia. rewrite idx_ok by lia. reflexivity.
Qed.

Theorem generic_total p b : generic_account p b <> Panic /\ generic_mint p b <> Panic.
Proof. rewrite generic_account_spec, generic_mint_spec. split; discriminate. Qed.

Theorem no_confusion p b : acct_ok p b = true -> mint_ok p b = false.
Proof.
  destruct p; cbn [acct_ok mint_ok]; unfold token_valid_account, token_valid_mint, extended_ok, ACCOUNT_LEN, MINT_LEN, MULTISIG_LEN;
    try discriminate.
  - rewrite andb_true_iff. intros [H _]. replace (len b =? 82) with false by lia. reflexivity.
  - rewrite orb_true_iff, !andb_true_iff. intros [[H _]|[[[H1 H2] H3] H4]].
    + replace (len b =? 82) with false by lia. replace (165 <? len b) with false by lia. reflexivity.
    + replace (len b =? 82) with false by lia. cbn [andb orb].
      apply byte_eqb_eq in H3. rewrite <- H3. replace (byte_eqb x01 x02) with false by reflexivity.
      now rewrite andb_false_r.
Qed.
Theorem no_confusion_parsers p b r :
  generic_account p b = Ok (Some r) -> generic_mint p b = Ok None.
Proof.
  rewrite generic_account_spec, generic_mint_spec. destruct (acct_ok p b) eqn:E; [|discriminate].
  intros _. now rewrite (no_confusion p b E).
Qed.
Theorem unknown_id b : generic_account POther b = Ok None /\ generic_mint POther b = Ok None.
Proof. rewrite generic_account_spec, generic_mint_spec. split; reflexivity. Qed.

Theorem token_exact_lengths b :
  (acct_ok PToken b = true -> len b = 165) /\ (mint_ok PToken b = true -> len b = 82).
Proof.
  cbn [acct_ok mint_ok]. unfold token_valid_account, token_valid_mint, ACCOUNT_LEN, MINT_LEN.
  rewrite !andb_true_iff. split; intros [H _]; lia.
Qed.
Theorem token2022_extended b : 165 < len b ->
  (acct_ok PToken2022 b = true <-> (len b <> 355 /\ marker b = x02 /\ is_initialized_at b 108 = true)) /\
  (mint_ok PToken2022 b = true <-> (len b <> 355 /\ marker b = x01 /\ is_initialized_at b 45 = true)).
Proof.
  intros HL. cbn [acct_ok mint_ok]. unfold token_valid_account, token_valid_mint, extended_ok, ACCOUNT_LEN, MINT_LEN, MULTISIG_LEN.
  replace (len b =? 165) with false by lia. replace (len b =? 82) with false by lia. replace (165 <? len b) with true by lia.
  cbn [andb orb]. rewrite !andb_true_iff, !negb_true_iff, !byte_eqb_eq.
  split; split; intros H; repeat split; try tauto; try lia; destruct H as [[? ?] ?] || destruct H as (? & ? & ?); auto; lia.
Qed.
Theorem base_same_under_both_ids b :
  (len b = 165 -> acct_ok PToken2022 b = acct_ok PToken b) /\ (len b = 82 -> mint_ok PToken2022 b = mint_ok PToken b).
Proof.
  cbn [acct_ok mint_ok]. unfold extended_ok, ACCOUNT_LEN. split; intros H; replace (165 <? len b) with false by lia;
    cbn [andb]; apply orb_false_r.
Qed.

(** * C16: whatever the reference codecs accept, the generic parser reads identically *)
Lemma state_init (b : list byte) : 108 < len b ->
  is_initialized_at b 108 = negb (le_dec (seg b 108 1) =? 0).
Proof.
  intros H. rewrite init_at_spec. replace (108 <? len b) with true by lia. cbn [andb].
  change (N.to_nat 108) with 108%nat. rewrite seg1 by (unfold len in H; lia). cbn [le_dec].
  unfold is_zero. destruct (Byte.eqb (nth 108 b x00) x00) eqn:E.
  - apply Byte.byte_dec_bl in E. rewrite E. reflexivity.
  - destruct (Byte.to_N (nth 108 b x00) + 256 * 0 =? 0) eqn:E2; [|reflexivity].
    assert (Byte.to_N (nth 108 b x00) = 0) by lia. apply to_N_0_inv in H0. rewrite H0 in E. discriminate.
Qed.
Lemma mint_init (b : list byte) : 45 < len b ->
  is_initialized_at b 45 = negb (le_dec (seg b 45 1) =? 0).
Proof.
  intros H. rewrite init_at_spec. replace (45 <? len b) with true by lia. cbn [andb].
  change (N.to_nat 45) with 45%nat. rewrite seg1 by (unfold len in H; lia). cbn [le_dec].
  unfold is_zero. destruct (Byte.eqb (nth 45 b x00) x00) eqn:E.
  - apply Byte.byte_dec_bl in E. rewrite E. reflexivity.
  - destruct (Byte.to_N (nth 45 b x00) + 256 * 0 =? 0) eqn:E2; [|reflexivity].
    assert (Byte.to_N (nth 45 b x00) = 0) by lia. apply to_N_0_inv in H0. rewrite H0 in E. discriminate.
Qed.

Theorem ref_account_agrees b st : ref_unpack_account b = Some st ->
  generic_account PToken b = Ok (Some (ra_mint st, ra_owner st, ra_amount st)) /\
  generic_account PToken2022 b = Ok (Some (ra_mint st, ra_owner st, ra_amount st)).
Proof.
  unfold ref_unpack_account. destruct (len b =? ACCOUNT_LEN) eqn:EL; [|discriminate]. cbn [negb].
  destruct (coption_tag (seg b 72 4)) as [d|]; [|discriminate].
  destruct (coption_tag (seg b 109 4)) as [n|]; [|discriminate].
  destruct (coption_tag (seg b 129 4)) as [c|]; [|discriminate].
  destruct ((le_dec (seg b 108 1) =? 1) || (le_dec (seg b 108 1) =? 2)) eqn:Est; [|discriminate].
  intros [= <-]. cbn [ra_mint ra_owner ra_amount]. unfold ACCOUNT_LEN in EL.
  assert (Hv : token_valid_account b = true).
  { unfold token_valid_account, ACCOUNT_LEN. rewrite EL, state_init by lia. cbn [andb]. apply negb_true_iff. lia. }
  rewrite !generic_account_spec. cbn [acct_ok]. rewrite Hv. split; reflexivity.
Qed.
Theorem ref_mint_agrees b st : ref_unpack_mint b = Some st ->
  generic_mint PToken b = Ok (Some (rm_supply st, rm_decimals st)) /\
  generic_mint PToken2022 b = Ok (Some (rm_supply st, rm_decimals st)).
Proof.
  unfold ref_unpack_mint. destruct (len b =? MINT_LEN) eqn:EL; [|discriminate]. cbn [negb].
  destruct (coption_tag (seg b 0 4)) as [a|]; [|discriminate].
  destruct (coption_tag (seg b 46 4)) as [f|]; [|discriminate].
  destruct (le_dec (seg b 45 1) =? 1) eqn:Ei; [|discriminate].
  intros [= <-]. cbn [rm_supply rm_decimals]. unfold MINT_LEN in EL.
  assert (Hv : token_valid_mint b = true).
  { unfold token_valid_mint, MINT_LEN. rewrite EL, mint_init by lia. cbn [andb]. apply negb_true_iff. lia. }
  rewrite !generic_mint_spec. cbn [mint_ok]. rewrite Hv. split; reflexivity.
Qed.

Lemma seg_firstn (b : list byte) k off n : (off + n <= k)%nat -> seg (firstn k b) off n = seg b off n.
Proof.
  intros H. unfold seg. rewrite skipn_firstn_comm, firstn_firstn. f_equal. lia.
Qed.
Lemma nth_skipn (b : list byte) k i : nth i (skipn k b) x00 = nth (k + i) b x00.
Proof. revert b. induction k as [|k IH]; intros b; [reflexivity|]. destruct b as [|x b]; [destruct i; reflexivity|]. cbn [skipn Nat.add nth]. apply IH. Qed.

Theorem ref22_account_agrees b st : ref22_unpack_account b = Some st ->
  generic_account PToken2022 b = Ok (Some (ra_mint st, ra_owner st, ra_amount st)).
Proof.
  unfold ref22_unpack_account. destruct ((len b =? MULTISIG_LEN) || (len b <? ACCOUNT_LEN)) eqn:E0; [discriminate|].
  apply orb_false_iff in E0 as [Em El]. unfold MULTISIG_LEN, ACCOUNT_LEN in *.
  destruct (ref_unpack_account (firstn 165 b)) as [st'|] eqn:Eb; [|discriminate].
  destruct (ref22_tail_ok 165 x02 b) eqn:Et; [|discriminate]. intros [= <-].
  (* the base part *)
  remember (firstn 165 b) as fb eqn:Hfb.
  unfold ref_unpack_account in Eb. destruct (len fb =? ACCOUNT_LEN); [|discriminate]. cbn [negb] in Eb.
  destruct (coption_tag _) as [d|]; [|discriminate]. destruct (coption_tag _) as [n|]; [|discriminate].
  destruct (coption_tag _) as [c|]; [|discriminate].
  destruct ((le_dec (seg fb 108 1) =? 1) || (le_dec (seg fb 108 1) =? 2)) eqn:Est; [|discriminate].
  injection Eb as <-. cbn [ra_mint ra_owner ra_amount]. subst fb. rewrite !seg_firstn by lia. rewrite !seg_firstn in Est by lia.
  assert (Hinit : is_initialized_at b 108 = true) by (rewrite state_init by lia; apply negb_true_iff; lia).
  rewrite generic_account_spec. cbn [acct_ok]. unfold token_valid_account, extended_ok, ACCOUNT_LEN, MULTISIG_LEN, marker.
  rewrite Hinit, Em. destruct (len b =? 165) eqn:E165; [reflexivity|]. cbn [andb orb negb].
  replace (165 <? len b) with true by lia. cbn [andb].
  (* the account-type byte *)
  unfold ref22_tail_ok in Et. destruct (skipn 165 b) as [|x rest] eqn:Esk.
  { apply (f_equal (@length byte)) in Esk. rewrite skipn_length in Esk. cbn in Esk. unfold len in *. lia. }
  change (165 - 165)%nat with 0%nat in Et. cbn [firstn all_zero forallb nth andb] in Et.
  apply andb_true_iff in Et as [_ Et]. apply byte_eqb_eq in Et.
  assert (Hn : nth 165 b x00 = x) by (rewrite <- (Nat.add_0_r 165), <- nth_skipn, Esk; reflexivity).
  rewrite Hn, Et. reflexivity.
Qed.
Theorem ref22_mint_agrees b st : ref22_unpack_mint b = Some st ->
  generic_mint PToken2022 b = Ok (Some (rm_supply st, rm_decimals st)).
Proof.
  unfold ref22_unpack_mint. destruct ((len b =? MULTISIG_LEN) || (len b <? MINT_LEN)) eqn:E0; [discriminate|].
  apply orb_false_iff in E0 as [Em El]. unfold MULTISIG_LEN, MINT_LEN in *.
  destruct (ref_unpack_mint (firstn 82 b)) as [st'|] eqn:Eb; [|discriminate].
  destruct (ref22_tail_ok 82 x01 b) eqn:Et; [|discriminate]. intros [= <-].
  remember (firstn 82 b) as fb eqn:Hfb.
  unfold ref_unpack_mint in Eb. destruct (len fb =? MINT_LEN); [|discriminate]. cbn [negb] in Eb.
  destruct (coption_tag _) as [a|]; [|discriminate]. destruct (coption_tag _) as [f|]; [|discriminate].
  destruct (le_dec (seg fb 45 1) =? 1) eqn:Ei; [|discriminate].
  injection Eb as <-. cbn [rm_supply rm_decimals]. subst fb. rewrite !seg_firstn by lia. rewrite !seg_firstn in Ei by lia.
  assert (Hd : nth 44 (firstn 82 b) x00 = nth 44 b x00).
  { rewrite <- (firstn_skipn 82 b) at 2. rewrite app_nth1; [reflexivity|]. rewrite firstn_length. unfold len in *. lia. }
  rewrite Hd.
  assert (Hinit : is_initialized_at b 45 = true) by (rewrite mint_init by lia; apply negb_true_iff; lia).
  rewrite generic_mint_spec. cbn [mint_ok]. unfold token_valid_mint, extended_ok, ACCOUNT_LEN, MINT_LEN, MULTISIG_LEN, marker.
  rewrite Hinit, Em. destruct (len b =? 82) eqn:E82; [reflexivity|]. cbn [andb orb negb].
  unfold ref22_tail_ok in Et. destruct (skipn 82 b) as [|x rest] eqn:Esk.
  { apply (f_equal (@length byte)) in Esk. rewrite skipn_length in Esk. cbn in Esk. unfold len in *. lia. }
  change (165 - 82)%nat with 83%nat in Et. rewrite <- Esk in Et.
  apply andb_true_iff in Et as [Et Ety]. apply andb_true_iff in Et as [Elen _].
  assert (Hlr : len (skipn 82 b) = len b - 82) by (unfold len; rewrite skipn_length; lia).
  rewrite Hlr in Elen. replace (165 <? len b) with true by lia. cbn [andb].
  apply byte_eqb_eq in Ety. rewrite nth_skipn in Ety. change (82 + 83)%nat with 165%nat in Ety.
  rewrite Ety. reflexivity.
Qed.

Theorem uninitialised_never_parses p b :
  (is_initialized_at b 108 = false -> generic_account p b = Ok None) /\
  (is_initialized_at b 45 = false -> generic_mint p b = Ok None).
Proof.
  rewrite generic_account_spec, generic_mint_spec. split; intros H;
    destruct p; cbn [acct_ok mint_ok]; unfold token_valid_account, token_valid_mint, extended_ok; rewrite ?H, ?andb_false_r; reflexivity.
Qed.
