(** The exact sets of byte strings the generic token parsers accept (C17), by length class. *)
From SplVerif Require Import Lib.Base Token.Model Token.Proofs.
Local Open Scope N_scope.

Theorem token_iff b :
  (acct_ok PToken b = true <-> len b = 165 /\ is_initialized_at b 108 = true) /\
  (mint_ok PToken b = true <-> len b = 82 /\ is_initialized_at b 45 = true).
Proof.
  cbn [acct_ok mint_ok]. unfold token_valid_account, token_valid_mint, ACCOUNT_LEN, MINT_LEN.
  rewrite !andb_true_iff, !N.eqb_eq. tauto.
Qed.

(** at or below the base account length Token-2022 accepts exactly what Token accepts *)
Theorem token2022_short b : len b <= 165 ->
  acct_ok PToken2022 b = acct_ok PToken b /\ mint_ok PToken2022 b = mint_ok PToken b.
Proof.
  intros H. cbn [acct_ok mint_ok]. unfold extended_ok, ACCOUNT_LEN.
  replace (165 <? len b) with false by lia. cbn [andb]. now rewrite !orb_false_r.
Qed.

(** whatever parses under the Token id parses to the same value under the Token-2022 id *)
Theorem token_subset b :
  (forall r, generic_account PToken b = Ok (Some r) -> generic_account PToken2022 b = Ok (Some r)) /\
  (forall r, generic_mint PToken b = Ok (Some r) -> generic_mint PToken2022 b = Ok (Some r)).
Proof.
  split; intros r; rewrite ?generic_account_spec, ?generic_mint_spec; cbn [acct_ok mint_ok].
  - destruct (token_valid_account b); [now cbn [orb]|discriminate].
  - destruct (token_valid_mint b); [now cbn [orb]|discriminate].
Qed.

(** a buffer of the multisig length (355 bytes) is never an account or a mint, whatever it contains *)
Theorem multisig_length_never_parses p b : len b = 355 ->
  generic_account p b = Ok None /\ generic_mint p b = Ok None.
Proof.
  intros H. rewrite generic_account_spec, generic_mint_spec.
  destruct p; cbn [acct_ok mint_ok]; unfold token_valid_account, token_valid_mint, extended_ok, ACCOUNT_LEN, MINT_LEN, MULTISIG_LEN;
    replace (len b =? 165) with false by lia; replace (len b =? 82) with false by lia; replace (len b =? 355) with true by lia;
    cbn [andb orb negb]; rewrite ?andb_false_r; split; reflexivity.
Qed.

(** the lengths between the mint and the account base length, and below the mint length: nothing parses *)
Theorem odd_lengths_never_parse p b : len b <> 82 -> len b <> 165 -> len b <= 165 ->
  generic_account p b = Ok None /\ generic_mint p b = Ok None.
Proof.
  intros H1 H2 H3. rewrite generic_account_spec, generic_mint_spec.
  destruct p; cbn [acct_ok mint_ok]; unfold token_valid_account, token_valid_mint, extended_ok, ACCOUNT_LEN, MINT_LEN;
    replace (len b =? 165) with false by lia; replace (len b =? 82) with false by lia; replace (165 <? len b) with false by lia;
    cbn [andb orb]; split; reflexivity.
Qed.
