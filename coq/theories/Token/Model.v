(** Model of generic-token/src/{token,token_2022,generic_token}.rs and of the reference
    codecs it must agree with (spl-token-interface / spl-token-2022-interface
    `Pack::unpack`, `StateWithExtensions::unpack`), written from their sources and
    validated against the crates in both directions on every run. Definitions only. *)
From SplVerif Require Import Lib.Base.
Local Open Scope N_scope.

(** which program id the caller passes *)
Inductive prog := PToken | PToken2022 | POther.

Definition ACCOUNT_LEN : N := 165.
Definition MINT_LEN : N := 82.
Definition MULTISIG_LEN : N := 355.

(** slice indexing `data[i]`: out of range panics *)
Definition idx (b : list byte) (i : N) : outcome byte :=
  match slice b i (i + 1) with Some [x] => Ok x | _ => Panic end.
Definition sub (b : list byte) (off n : N) : outcome (list byte) :=
  match slice b off (off + n) with Some s => Ok s | None => Panic end.

(** `*data.get(offset).unwrap_or(&0) != 0` *)
Definition is_initialized_at (b : list byte) (off : N) : bool :=
  match slice b off (off + 1) with Some [x] => negb (is_zero x) | _ => false end.

(** short-circuit && over outcomes *)
Definition and_o (a : bool) (k : outcome bool) : outcome bool := if a then k else Ok false.

Definition token_valid_account (b : list byte) : bool := (len b =? ACCOUNT_LEN) && is_initialized_at b 108.
Definition token_valid_mint (b : list byte) : bool := (len b =? MINT_LEN) && is_initialized_at b 45.

Definition t22_valid (marker : byte) (init_off : N) (base_valid : bool) (b : list byte) : outcome bool :=
  if base_valid then Ok true
  else and_o (ACCOUNT_LEN <? len b)
        (and_o (negb (len b =? MULTISIG_LEN))
           (let? x := idx b ACCOUNT_LEN in
            and_o (byte_eqb marker x) (Ok (is_initialized_at b init_off)))).
Definition t22_valid_account (b : list byte) : outcome bool := t22_valid x02 108 (token_valid_account b) b.
Definition t22_valid_mint (b : list byte) : outcome bool := t22_valid x01 45 (token_valid_mint b) b.

Definition valid_account (p : prog) (b : list byte) : outcome (option bool) :=
  match p with
  | PToken => Ok (Some (token_valid_account b))
  | PToken2022 => let? v := t22_valid_account b in Ok (Some v)
  | POther => Ok None
  end.
Definition valid_mint (p : prog) (b : list byte) : outcome (option bool) :=
  match p with
  | PToken => Ok (Some (token_valid_mint b))
  | PToken2022 => let? v := t22_valid_mint b in Ok (Some v)
  | POther => Ok None
  end.

(** generic_token::Account::unpack -> (mint, owner, amount) *)
Definition generic_account (p : prog) (b : list byte) : outcome (option (list byte * list byte * N)) :=
  let? v := valid_account p b in
  match v with
  | Some true =>
      let? m := sub b 0 32 in let? o := sub b 32 32 in let? a := sub b 64 8 in
      Ok (Some (m, o, le_dec a))
  | _ => Ok None
  end.
(** generic_token::Mint::unpack -> (supply, decimals) *)
Definition generic_mint (p : prog) (b : list byte) : outcome (option (N * byte)) :=
  let? v := valid_mint p b in
  match v with
  | Some true =>
      let? s := sub b 36 8 in let? d := idx b 44 in
      Ok (Some (le_dec s, d))
  | _ => Ok None
  end.

(** * Reference codecs *)
Definition seg (b : list byte) (off n : nat) : list byte := firstn n (skipn off b).
(** COption tag: [0,0,0,0] / [1,0,0,0] / anything else is an error *)
Definition coption_tag (t : list byte) : option bool :=
  if list_byte_eqb t [x00; x00; x00; x00] then Some false
  else if list_byte_eqb t [x01; x00; x00; x00] then Some true else None.

Record ref_account := {
  ra_mint : list byte; ra_owner : list byte; ra_amount : N;
  ra_delegate : option (list byte); ra_state : N; ra_is_native : option N;
  ra_delegated : N; ra_close : option (list byte) }.
Record ref_mint := {
  rm_authority : option (list byte); rm_supply : N; rm_decimals : byte; rm_init : bool;
  rm_freeze : option (list byte) }.

(** Pack::unpack for Account: exact length, well-formed tags and state, initialised *)
Definition ref_unpack_account (b : list byte) : option ref_account :=
  if negb (len b =? ACCOUNT_LEN) then None else
  match coption_tag (seg b 72 4), coption_tag (seg b 109 4), coption_tag (seg b 129 4) with
  | Some d, Some n, Some c =>
      let st := le_dec (seg b 108 1) in
      if (st =? 1) || (st =? 2) then
        Some {| ra_mint := seg b 0 32; ra_owner := seg b 32 32; ra_amount := le_dec (seg b 64 8);
                ra_delegate := if d then Some (seg b 76 32) else None; ra_state := st;
                ra_is_native := if n then Some (le_dec (seg b 113 8)) else None;
                ra_delegated := le_dec (seg b 121 8);
                ra_close := if c then Some (seg b 133 32) else None |}
      else None   (* state 0 = uninitialised, >2 = invalid *)
  | _, _, _ => None
  end.
Definition ref_unpack_mint (b : list byte) : option ref_mint :=
  if negb (len b =? MINT_LEN) then None else
  match coption_tag (seg b 0 4), coption_tag (seg b 46 4) with
  | Some a, Some f =>
      if le_dec (seg b 45 1) =? 1 then
        Some {| rm_authority := if a then Some (seg b 4 32) else None; rm_supply := le_dec (seg b 36 8);
                rm_decimals := nth 44 b x00; rm_init := true;
                rm_freeze := if f then Some (seg b 50 32) else None |}
      else None   (* 0 = uninitialised, >1 = invalid *)
  | _, _ => None
  end.

(** StateWithExtensions::<S>::unpack: base + (nothing | zero padding to 165, account-type byte, TLV) *)
Definition ref22_tail_ok (base_len : nat) (ty : byte) (b : list byte) : bool :=
  let rest := skipn base_len b in
  match rest with
  | [] => true
  | _ =>
      let pad := (165 - base_len)%nat in
      (N.of_nat pad + 1 <=? len rest) && all_zero (firstn pad rest) && byte_eqb (nth pad rest x00) ty
  end.
Definition ref22_unpack_account (b : list byte) : option ref_account :=
  if (len b =? MULTISIG_LEN) || (len b <? ACCOUNT_LEN) then None
  else match ref_unpack_account (firstn 165 b) with
       | Some st => if ref22_tail_ok 165 x02 b then Some st else None
       | None => None
       end.
Definition ref22_unpack_mint (b : list byte) : option ref_mint :=
  if (len b =? MULTISIG_LEN) || (len b <? MINT_LEN) then None
  else match ref_unpack_mint (firstn 82 b) with
       | Some st => if ref22_tail_ok 82 x01 b then Some st else None
       | None => None
       end.
