(** Refinement: every operation history on a canonical slab computes the canonical
    slab of the entry list given by [Spec.s_step] (C01, C03, C04). *)
From SplVerif Require Import Lib.Base Tlv.Model Tlv.Spec Tlv.Walk Tlv.Parse Tlv.Moves Tlv.Ops.
Local Open Scope N_scope.

Lemma render_split n a t (w : list byte) b :
  render n (a ++ (t, w) :: b) =
  enc a ++ t ++ le_enc 4 (len w) ++ w ++ enc b ++ zeros (n - length (enc (a ++ (t, w) :: b))).
Proof. unfold render. rewrite enc_app, enc_cons. unfold enc_entry. cbn [fst snd]. now rewrite <- !app_assoc. Qed.
Lemma enc_len_split a t (w : list byte) b :
  length (enc (a ++ (t, w) :: b)) = (length (enc a) + length t + 4 + length w + length (enc b))%nat.
Proof. rewrite enc_app, enc_cons. unfold enc_entry. cbn [fst snd]. rewrite !app_length, le_enc_length. lia. Qed.

Lemma resize_len l v : len (resize l v) = l.
Proof. unfold resize, len. rewrite app_length, firstn_length, zeros_length. lia. Qed.

Lemma realloc_canon n es t a v b l :
  fits n es -> wf_tag t -> located n es t a v b ->
  realloc (render n es) t l (count t a) =
  if (len v <? l) && (N.of_nat n <? len (enc es) + (l - len v)) then (render n es, Err E_INVALID_ACCOUNT_DATA)
  else if U32_LIMIT <=? l then (render n es, Err E_TOO_SMALL)
  else (render n (a ++ (t, resize l v) :: b), Ok (voff a)).
Proof.
  intros Hfit Ht L. pose proof Hfit as [Hwf Hle].
  pose proof (loc_es _ _ _ _ _ _ L) as Hes. pose proof (loc_lv _ _ _ _ _ _ L) as Hlv.
  pose proof (loc_enc _ _ _ _ _ _ L) as Henc. pose proof (loc_lenA _ _ _ _ _ _ L) as HlenA.
  pose proof (render_len n es Hfit) as Hrl. pose proof (fits_len n es Hfit) as HfN.
  set (k := (n - length (enc es))%nat).
  assert (Hbuf : render n es = (enc a ++ t) ++ le_enc 4 (len v) ++ v ++ enc b ++ zeros k) by apply L.
  unfold realloc. rewrite (loc_gi _ _ _ _ _ _ L), (loc_end _ _ _ _ _ _ L).
  rewrite Hbuf at 1.
  rewrite (slice_app (enc a ++ t) (le_enc 4 (len v)) _ _ _) by (rewrite ?HlenA, ?len_le_enc; unfold TAGW, LENW; lia).
  rewrite le_dec_enc_small by (unfold U32_LIMIT in *; change (256 ^ N.of_nat 4) with 4294967296; lia).
  replace (len (render n es)) with (N.of_nat n) by (unfold len; now rewrite Hrl).
  destruct ((len v <? l) && (N.of_nat n <? len (enc es) + (l - len v))) eqn:Egrow; [reflexivity|].
  destruct (U32_LIMIT <=? l) eqn:E32; [reflexivity|].
  (* the length field *)
  rewrite Hbuf.
  rewrite (write_at_app (enc a ++ t) (le_enc 4 (len v)) _ (le_enc 4 l))
    by (rewrite ?HlenA, ?le_enc_length; unfold TAGW; reflexivity).
  set (A := (enc a ++ t) ++ le_enc 4 l).
  assert (HA : len A = len (enc a) + TAGW + LENW) by (unfold A; rewrite len_app, HlenA, len_le_enc; unfold LENW; lia).
  assert (HAeq : (enc a ++ t) ++ le_enc 4 l ++ v ++ enc b ++ zeros k = A ++ v ++ enc b ++ zeros k)
    by (unfold A; now rewrite <- !app_assoc).
  rewrite HAeq. clear HAeq.
  assert (Hend : len (enc es) = len A + len v + len (enc b)) by (unfold TAGW, LENW, HDR in *; lia).
  assert (Hwr : forall w, len w < U32_LIMIT ->
            fits n (a ++ (t, w) :: b) \/ ~ (length (enc (a ++ (t, w) :: b)) <= n)%nat).
  { intros w Hw. destruct (le_lt_dec (length (enc (a ++ (t, w) :: b))) n) as [H|H]; [left|right; lia].
    split; [|exact H]. rewrite Hes in Hwf. apply Forall_app in Hwf as [Ha Hb]. inversion Hb as [|? ? He Hb']; subst x l0.
    apply Forall_app. split; [assumption|]. constructor; [|assumption]. split; cbn [fst snd]; [exact Ht|exact Hw]. }
  assert (Ht8 : length t = 8%nat) by (destruct Ht; assumption).
  assert (HencN : length (enc es) = (length (enc a) + 8 + 4 + length v + length (enc b))%nat).
  { rewrite Hes, enc_len_split, Ht8. reflexivity. }
  assert (Hresult : forall w Z, A ++ w ++ enc b ++ Z = (enc a ++ t ++ le_enc 4 l ++ w ++ enc b ++ Z))
    by (intros; unfold A; now rewrite <- !app_assoc).
  destruct (l <? len v) eqn:Eshrink; [|destruct (len v <? l) eqn:Eg].
  - (* shrink *)
    set (Vk := firstn (N.to_nat l) v). set (Vd := skipn (N.to_nat l) v).
    assert (Hv : v = Vk ++ Vd) by (unfold Vk, Vd; now rewrite firstn_skipn).
    assert (HVk : len Vk = l) by (unfold Vk, len in *; rewrite firstn_length; lia).
    assert (HVd : len Vd = len v - l) by (unfold Vd, len in *; rewrite skipn_length; lia).
    replace (len (enc a) + TAGW + LENW + len v) with (len A + len Vk + len Vd) by lia.
    replace (len (enc es)) with (len A + len Vk + len Vd + len (enc b)) by lia.
    replace (len (enc a) + TAGW + LENW + l) with (len A + len Vk) by lia.
    rewrite Hv at 1. rewrite <- app_assoc.
    rewrite cw_shrink.
    replace (len A + len Vk + len Vd + len (enc b) - (len v - l)) with (len A + len Vk + len Vd + len (enc b) - len Vd) by lia.
    rewrite fill_after_shrink. f_equal.
    assert (Hrz : resize l v = Vk).
    { unfold resize. fold Vk. replace (N.to_nat l - length v)%nat with 0%nat by (unfold len in *; lia). apply app_nil_r. }
    rewrite Hrz, render_split, enc_len_split, Ht8, HVk, Hresult. repeat f_equal.
    rewrite <- zeros_app. f_equal. unfold k, len in *. lia.
    f_equal. unfold voff, TAGW, LENW, HDR in *. lia.
  - (* grow *)
    assert (Hd : (N.to_nat (l - len v) <= k)%nat) by (unfold k, len in *; lia).
    set (d := N.to_nat (l - len v)) in *.
    replace k with (d + (k - d))%nat by lia. rewrite zeros_app.
    replace (len (enc a) + TAGW + LENW + len v) with (len A + len v) by lia.
    replace (len (enc es)) with (len A + len v + len (enc b)) by lia.
    replace (len (enc a) + TAGW + LENW + l) with (len A + len v + len (zeros d)) by (rewrite len_zeros; unfold d; lia).
    rewrite cw_grow, fill_after_grow. rewrite zeros_length. f_equal.
    assert (Hrz : resize l v = v ++ zeros d).
    { unfold resize. rewrite firstn_all2 by (unfold len in *; lia).
      replace (N.to_nat l - length v)%nat with d by (unfold d, len; lia). reflexivity. }
    rewrite Hrz, render_split, enc_len_split, Ht8, len_app, len_zeros.
    replace (len v + N.of_nat d) with l by (unfold d; lia).
    replace (n - (length (enc a) + 8 + 4 + length (v ++ zeros d) + length (enc b)))%nat with (k - d)%nat
      by (rewrite app_length, zeros_length; unfold k; lia).
    unfold A. now rewrite <- !app_assoc.
    f_equal. unfold voff, TAGW, LENW, HDR in *. lia.
  - (* same length *)
    assert (Hl : l = len v) by lia. subst l.
    rewrite (app_assoc A v).
    replace (len (enc a) + TAGW + LENW + len v) with (len (A ++ v)) by (rewrite len_app; lia).
    replace (len (enc es)) with (len (A ++ v) + len (enc b)) by (rewrite len_app; lia).
    rewrite cw_same. f_equal.
    assert (Hrz : resize (len v) v = v).
    { unfold resize. rewrite firstn_all2 by (unfold len; lia). replace (_ - _)%nat with 0%nat by (unfold len; lia). apply app_nil_r. }
    rewrite Hrz, render_split, enc_len_split, Ht8, <- app_assoc, Hresult. repeat f_equal. unfold k. lia.
    f_equal. unfold voff, TAGW, LENW, HDR in *. lia.
Qed.

(** * lookups that miss *)
Lemma get_indices_miss n es t r :
  fits n es -> wf_tag t -> split_entry es t r = None ->
  exists e, get_indices (render n es) t false (Some r) = Err e.
Proof.
  intros [Hwf _] Ht Hsp. unfold render.
  rewrite (get_indices_wf es _ t false _ Hwf (term_zeros _) Ht).
  pose proof (seek_split es t r 0 0 ltac:(lia) Hwf) as Hs. rewrite N.sub_0_r, Hsp in Hs.
  destruct Hs as (o & c & ->). destruct (12 <=? _)%nat; eauto.
Qed.
Lemma get_bytes_miss n es t r :
  fits n es -> wf_tag t -> split_entry es t r = None -> exists e, get_bytes (render n es) t r = Err e.
Proof.
  intros Hfit Ht Hsp. destruct (get_indices_miss n es t r Hfit Ht Hsp) as [e He].
  unfold get_bytes. rewrite He. cbn [bind]. eauto.
Qed.

Lemma fits_replace n a t (v w : list byte) b :
  fits n (a ++ (t, v) :: b) -> len w < U32_LIMIT -> (length w <= length v)%nat -> fits n (a ++ (t, w) :: b).
Proof.
  intros [Hwf Hle] Hw Hl. apply Forall_app in Hwf as [Ha Hb]. inversion Hb as [|? ? He Hb']; subst.
  split.
  - apply Forall_app. split; [assumption|]. constructor; [|assumption]. destruct He as [H1 _]. split; assumption.
  - rewrite enc_len_split in *. lia.
Qed.

(** writing a prefix of the region = writing the prefix followed by what was there *)
Lemma splice_extend {A} (l : list A) d x y :
  y = firstn (length y) (skipn (d + length x) l) -> splice l d x = splice l d (x ++ y).
Proof.
  intros Hy. unfold splice. rewrite app_length, <- app_assoc. f_equal. f_equal.
  replace (d + (length x + length y))%nat with (length y + (d + length x))%nat by lia.
  rewrite (skipn_add (length y) (d + length x)).
  set (s := skipn (d + length x) l) in *. rewrite Hy at 1. now rewrite firstn_skipn.
Qed.
Lemma write_at_extend {A} (l : list A) a x y :
  a + len x + len y <= len l ->
  y = firstn (length y) (skipn (N.to_nat a + length x) l) -> write_at l a x = write_at l a (x ++ y).
Proof.
  intros Hr Hy. unfold write_at. rewrite len_app.
  replace (a + len x <=? len l) with true by lia. replace (a + (len x + len y) <=? len l) with true by lia.
  f_equal. now apply splice_extend.
Qed.

Theorem step_refines n es o :
  fits n es -> wf_op o ->
  exists out', step (render n es) o = (render n (fst (s_step n es o)), out') /\
               out_eq out' (snd (s_step n es o)) /\ fits n (fst (s_step n es o)).
Proof.
  intros Hfit Ht. unfold step. rewrite (check_data_canon n es Hfit).
  destruct o as [t l a|t d a|t l r|t r new|t r sz new|t r e p|t e a]; unfold wf_op in Ht; cbn [op_tag] in Ht; cbn [s_step].
  - (* alloc *)
    unfold s_push. rewrite len_zeros, N2Nat.id. fold (push_ok n es t l a).
    destruct (alloc_canon n es t l a Hfit Ht) as [Hok Herr].
    destruct (push_ok n es t l a) eqn:Ep; cbn [fst snd].
    + rewrite (Hok eq_refl).
      assert (Ep' : push_ok n es t (len (zeros (N.to_nat l))) a = true) by (rewrite len_zeros, N2Nat.id; exact Ep).
      destruct (alloc_then_write n es t (zeros (N.to_nat l)) a Hfit Ht Ep') as (_ & Hr & Hfits).
      rewrite len_zeros, N2Nat.id, zeros_length in Hr. rewrite Hr.
      eexists; split; [reflexivity|]. split; [reflexivity|exact Hfits].
    + destruct (Herr eq_refl) as [e ->]. eexists; split; [reflexivity|]. split; [exact I|exact Hfit].
  - (* init *)
    pose proof (push_refines n es t d a (fun b => init_value b t d a) Hfit Ht) as H.
    destruct (s_push n es t d a) as [es' out] eqn:Es. cbn [fst snd].
    destruct H as (out' & H1 & H2 & H3); [|eauto].
    intros b. unfold init_value. destruct (alloc b t (len d) a) as [b1 [[vs rr]|?|]]; reflexivity.
  - (* realloc *)
    destruct (split_entry es t r) as [[[a v] b]|] eqn:Esp.
    + destruct (locate n es t r a v b Hfit Ht Esp) as [L <-].
      unfold lift1. rewrite (realloc_canon n es t a v b l Hfit Ht L).
      destruct ((len v <? l) && (N.of_nat n <? len (enc es) + (l - len v))) eqn:Eg; cbn [fst snd].
      { eexists; split; [reflexivity|]. split; [exact I|exact Hfit]. }
      destruct (U32_LIMIT <=? l) eqn:E32; cbn [fst snd].
      { eexists; split; [reflexivity|]. split; [exact I|exact Hfit]. }
      eexists; split; [reflexivity|]. split; [reflexivity|].
      pose proof Hfit as [Hwf Hle]. rewrite (loc_es _ _ _ _ _ _ L) in Hwf, Hle.
      apply Forall_app in Hwf as [Ha Hb]. inversion Hb as [|? ? He Hb']; subst.
      split.
      * apply Forall_app. split; [assumption|]. constructor; [|assumption].
        split; cbn [fst snd]; [exact Ht|rewrite resize_len; lia].
      * pose proof (resize_len l v) as Hrl. pose proof (loc_enc _ _ _ _ _ _ L) as Henc.
        rewrite enc_len_split in *. unfold len in *. destruct Ht as [Ht8 _]. unfold HDR in *. lia.
    + destruct (get_indices_miss n es t r Hfit Ht Esp) as [e He]. unfold lift1, realloc. rewrite He. cbn [fst snd].
      eexists; split; [reflexivity|]. split; [exact I|exact Hfit].
  - (* write *)
    unfold lift1, write_value.
    destruct (split_entry es t r) as [[[a v] b]|] eqn:Esp.
    + destruct (locate n es t r a v b Hfit Ht Esp) as [L <-].
      rewrite (get_bytes_located n es t a v b Hfit Ht L).
      destruct (len v =? len new) eqn:El; cbn [fst snd].
      * destruct (overwrite_located n es t a v b new Hfit Ht L ltac:(lia)) as [Hw Hf]. rewrite Hw. cbn [fst snd].
        eexists; split; [reflexivity|]. split; [reflexivity|exact Hf].
      * eexists; split; [reflexivity|]. split; [exact I|exact Hfit].
    + destruct (get_bytes_miss n es t r Hfit Ht Esp) as [e ->]. cbn [fst snd].
      eexists; split; [reflexivity|]. split; [exact I|exact Hfit].
  - (* typed write *)
    unfold lift1, write_typed, get_value.
    destruct (split_entry es t r) as [[[a v] b]|] eqn:Esp.
    + destruct (locate n es t r a v b Hfit Ht Esp) as [L <-].
      rewrite (get_bytes_located n es t a v b Hfit Ht L). cbn [bind snd].
      destruct (len v =? sz) eqn:El; cbn [fst snd].
      * destruct (len new =? sz) eqn:En.
        -- destruct (overwrite_located n es t a v b new Hfit Ht L ltac:(lia)) as [Hw Hf]. rewrite Hw. cbn [fst snd].
           eexists; split; [reflexivity|]. split; [reflexivity|exact Hf].
        -- destruct (write_at (render n es) (voff a) new); cbn [fst snd];
             (eexists; split; [reflexivity|]; split; [exact I|exact Hfit]).
      * eexists; split; [reflexivity|]. split; [exact I|exact Hfit].
    + destruct (get_bytes_miss n es t r Hfit Ht Esp) as [e ->]. cbn [bind fst snd].
      eexists; split; [reflexivity|]. split; [exact I|exact Hfit].
  - (* variable-length pack into an existing entry *)
    unfold lift1, pack_var.
    destruct (split_entry es t r) as [[[a v] b]|] eqn:Esp.
    + destruct (locate n es t r a v b Hfit Ht Esp) as [L <-].
      rewrite (get_bytes_located n es t a v b Hfit Ht L).
      pose proof (loc_lv _ _ _ _ _ _ L) as Hlv.
      destruct (len e <=? len v) eqn:El; cbn [fst snd].
      * set (w := e ++ skipn (length e) v).
        assert (Hwl : len w = len v) by (unfold w, len in *; rewrite app_length, skipn_length; lia).
        destruct (overwrite_located n es t a v b w Hfit Ht L Hwl) as [Hw Hf].
        assert (Hext : write_at (render n es) (voff a) e = write_at (render n es) (voff a) w).
        { unfold w. apply write_at_extend.
          - pose proof (render_len n es Hfit) as Hrl. pose proof (loc_enc _ _ _ _ _ _ L) as Henc.
            pose proof (fits_len n es Hfit). unfold voff, len in *. rewrite skipn_length. unfold HDR in *. lia.
          - rewrite (loc_buf _ _ _ _ _ _ L). rewrite (app_assoc (enc a ++ t) (le_enc 4 (len v))).
            set (P := (enc a ++ t) ++ le_enc 4 (len v)).
            assert (HP : length P = N.to_nat (voff a)).
            { unfold P, voff. rewrite !app_length, le_enc_length. destruct Ht as [Ht8 _]. unfold len, HDR. lia. }
            rewrite <- HP. replace (length P + length e)%nat with (length e + length P)%nat by lia.
            rewrite skipn_add, skipn_exact. rewrite skipn_app_l by (unfold len in *; lia).
            rewrite firstn_app_l by lia. rewrite firstn_all2 by lia. reflexivity. }
        rewrite Hext, Hw. cbn [fst snd]. eexists; split; [reflexivity|]. split; [reflexivity|exact Hf].
      * destruct p; cbn [fst snd].
        -- set (w := firstn (length v) e).
           assert (Hwl : len w = len v) by (unfold w, len in *; rewrite firstn_length; lia).
           destruct (overwrite_located n es t a v b w Hfit Ht L Hwl) as [Hw Hf].
           rewrite Hw. cbn [fst snd]. eexists; split; [reflexivity|]. split; [exact I|exact Hf].
        -- eexists; split; [reflexivity|]. split; [exact I|exact Hfit].
    + destruct (get_bytes_miss n es t r Hfit Ht Esp) as [e' ->]. cbn [fst snd].
      eexists; split; [reflexivity|]. split; [exact I|exact Hfit].
  - (* alloc and pack *)
    pose proof (push_refines n es t e a (fun b => alloc_and_pack b t e a) Hfit Ht) as H.
    destruct (s_push n es t e a) as [es' out] eqn:Es. cbn [fst snd].
    destruct H as (out' & H1 & H2 & H3); [|eauto].
    intros b. unfold alloc_and_pack. destruct (alloc b t (len e) a) as [b1 [[vs rr]|?|]]; reflexivity.
Qed.

Theorem run_refines n ops : forall es,
  fits n es -> Forall wf_op ops ->
  run ops (render n es) = render n (s_run n ops es) /\ fits n (s_run n ops es).
Proof.
  induction ops as [|o ops IH]; intros es Hfit Hops; [split; [reflexivity|exact Hfit]|].
  inversion Hops as [|? ? Ho Hops']; subst. cbn [run s_run fold_left].
  destruct (step_refines n es o Hfit Ho) as (out' & Hs & _ & Hf). rewrite Hs. cbn [fst].
  apply IH; assumption.
Qed.
