(** C02: decoding arbitrary bytes — totality, exact acceptance set, lookups. *)
From SplVerif Require Import Lib.Base Tlv.Model Tlv.Spec Tlv.Walk.
Local Open Scope N_scope.

Lemma slice_some {A} (l : list A) a b : a <= b -> b <= len l ->
  exists r, slice l a b = Some r /\ len r = b - a /\ skipn (N.to_nat a) l = r ++ skipn (N.to_nat b) l.
Proof.
  intros Hab Hb. unfold slice. replace ((a <=? b) && (b <=? len l)) with true by lia.
  eexists. split; [reflexivity|]. split.
  - unfold len in *. rewrite firstn_length, skipn_length. lia.
  - replace (N.to_nat b) with (N.to_nat (b - a) + N.to_nat a)%nat by lia.
    rewrite skipn_add. now rewrite firstn_skipn.
Qed.
Lemma slice_from_some {A} (l : list A) a : a <= len l -> slice_from l a = Some (skipn (N.to_nat a) l).
Proof. intros H. unfold slice_from. now replace (a <=? len l) with true by lia. Qed.

(** * Totality on arbitrary bytes *)
Lemma discs_loop_total buf : forall fuel start,
  (N.to_nat (len buf - start) < fuel)%nat -> discs_loop fuel buf start <> Panic.
Proof.
  induction fuel as [|fuel IH]; intros start Hf; [lia|]. cbn [discs_loop].
  destruct (start <? len buf) eqn:E; [|discriminate]. unfold TAGW, LENW.
  destruct (len buf <? start + 8) eqn:E8.
  { rewrite slice_from_some by lia. destruct (all_zero _); discriminate. }
  destruct (slice_some buf start (start + 8)) as (d & -> & _ & _); try lia.
  destruct (tag_eqb d zero_tag); [discriminate|].
  destruct (len buf <? start + 8 + 4) eqn:E12; [discriminate|].
  destruct (slice_some buf (start + 8) (start + 8 + 4)) as (lb & -> & _ & _); try lia.
  destruct (len buf <? start + 8 + 4 + le_dec lb) eqn:Ev; [discriminate|].
  specialize (IH (start + 8 + 4 + le_dec lb) ltac:(lia)).
  destruct (discs_loop fuel buf _); cbn [bind]; congruence.
Qed.
Theorem check_data_total buf : check_data buf <> Panic.
Proof.
  unfold check_data, discs_and_end.
  pose proof (discs_loop_total buf (S (length buf)) 0 ltac:(unfold len; lia)) as H.
  destruct (discs_loop _ buf 0); cbn [bind]; congruence.
Qed.
Theorem get_discriminators_total buf : get_discriminators buf <> Panic.
Proof.
  unfold get_discriminators, discs_and_end.
  pose proof (discs_loop_total buf (S (length buf)) 0 ltac:(unfold len; lia)) as H.
  destruct (discs_loop _ buf 0); cbn [bind]; congruence.
Qed.

Lemma gi_loop_total buf t init rep : forall fuel cur start,
  (N.to_nat (len buf - start) < fuel)%nat ->
  match get_indices_loop fuel buf t init rep cur start with
  | Ok (ts, _) => ts + HDR <= len buf
  | Err _ => True
  | Panic => False
  end.
Proof.
  induction fuel as [|fuel IH]; intros cur start Hf; [lia|]. cbn [get_indices_loop].
  destruct (start <? len buf) eqn:E; [|exact I]. unfold TAGW, LENW, HDR in *.
  destruct (len buf <? start + 8 + 4) eqn:E12; [exact I|].
  destruct (slice_some buf start (start + 8)) as (d & -> & _ & _); try lia.
  destruct (slice_some buf (start + 8) (start + 8 + 4)) as (lb & -> & _ & _); try lia.
  destruct (tag_eqb d t).
  - destruct (rep_matches rep cur); [lia|]. apply IH. lia.
  - destruct (tag_eqb d zero_tag); [destruct init; [lia|exact I]|]. apply IH. lia.
Qed.
Lemma get_indices_total buf t init rep :
  match get_indices buf t init rep with
  | Ok (ts, _) => ts + HDR <= len buf
  | Err _ => True
  | Panic => False
  end.
Proof. apply gi_loop_total. unfold len. lia. Qed.

Theorem get_bytes_total buf t rep : get_bytes buf t rep <> Panic.
Proof.
  unfold get_bytes. pose proof (get_indices_total buf t false (Some rep)) as H.
  destruct (get_indices buf t false (Some rep)) as [[ts c]|e|]; cbn [bind fst]; try discriminate; try contradiction.
  unfold TAGW, LENW, HDR in *.
  destruct (slice_some buf (ts + 8) (ts + 8 + 4)) as (lb & -> & _ & _); try lia.
  destruct (len buf <? ts + 8 + 4 + le_dec lb) eqn:E; [discriminate|].
  destruct (slice_some buf (ts + 8 + 4) (ts + 8 + 4 + le_dec lb)) as (v & -> & _ & _); try lia.
  discriminate.
Qed.
Theorem get_value_total buf t rep size : get_value buf t rep size <> Panic.
Proof.
  unfold get_value. pose proof (get_bytes_total buf t rep) as H.
  destruct (get_bytes buf t rep); cbn [bind]; try congruence. destruct (_ =? _); discriminate.
Qed.

(** every returned range lies inside the buffer and is exactly the bytes there *)
Theorem get_bytes_in_bounds buf t rep off v :
  get_bytes buf t rep = Ok (off, v) -> slice buf off (off + len v) = Some v /\ off + len v <= len buf.
Proof.
  unfold get_bytes. pose proof (get_indices_total buf t false (Some rep)) as H.
  destruct (get_indices buf t false (Some rep)) as [[ts c]|e|]; cbn [bind fst]; try discriminate.
  unfold TAGW, LENW, HDR in *.
  destruct (slice_some buf (ts + 8) (ts + 8 + 4)) as (lb & -> & _ & _); try lia.
  destruct (len buf <? ts + 8 + 4 + le_dec lb) eqn:E; [discriminate|].
  destruct (slice_some buf (ts + 8 + 4) (ts + 8 + 4 + le_dec lb)) as (v' & Hs & Hl & _); try lia.
  rewrite Hs. intros [= <- <-]. rewrite Hl.
  replace (ts + 8 + 4 + (ts + 8 + 4 + le_dec lb - (ts + 8 + 4))) with (ts + 8 + 4 + le_dec lb) by lia.
  split; [exact Hs|lia].
Qed.

(** * Acceptance: exactly the well-formed strings *)
Definition WF (b : list byte) : Prop :=
  exists es tail, b = enc es ++ tail /\ Forall wf_entry es /\ term tail.

Lemma discs_loop_inv buf : forall fuel start ds e,
  discs_loop fuel buf start = Ok (ds, e) ->
  exists es, Forall wf_entry es /\ skipn (N.to_nat start) buf = enc es ++ skipn (N.to_nat e) buf /\
             term (skipn (N.to_nat e) buf) /\ ds = map fst es /\ e = start + len (enc es).
Proof.
  induction fuel as [|fuel IH]; intros start ds e H; [discriminate|]. cbn [discs_loop] in H.
  destruct (start <? len buf) eqn:E.
  2:{ injection H as <- <-. exists []. cbn [enc map concat app]. rewrite len_nil, N.add_0_r.
      repeat split; auto. left. apply skipn_all2. unfold len in E. lia. }
  unfold TAGW, LENW in H.
  destruct (len buf <? start + 8) eqn:E8.
  { rewrite slice_from_some in H by lia. destruct (all_zero _) eqn:Ez; [|discriminate].
    injection H as <- <-. exists []. cbn [enc map concat app]. rewrite len_nil, N.add_0_r.
    repeat split; auto. right; left. split; [|exact Ez]. rewrite skipn_length. unfold len in *. lia. }
  destruct (slice_some buf start (start + 8)) as (d & Hd & Hdl & Hdk); try lia. rewrite Hd in H.
  destruct (tag_eqb d zero_tag) eqn:Edz.
  { injection H as <- <-. exists []. cbn [enc map concat app]. rewrite len_nil, N.add_0_r.
    repeat split; auto. right; right. split; [rewrite skipn_length; unfold len in *; lia|].
    apply tag_eqb_eq in Edz. rewrite Hdk, Edz. apply firstn_exact'. reflexivity. }
  destruct (len buf <? start + 8 + 4) eqn:E12; [discriminate|].
  destruct (slice_some buf (start + 8) (start + 8 + 4)) as (lb & Hlb & Hlbl & Hlbk); try lia. rewrite Hlb in H.
  destruct (len buf <? start + 8 + 4 + le_dec lb) eqn:Ev; [discriminate|].
  destruct (discs_loop fuel buf (start + 8 + 4 + le_dec lb)) as [[ds' e']|?|] eqn:Er; cbn [bind fst snd] in H; try discriminate.
  injection H as <- <-.
  destruct (IH _ _ _ Er) as (es & Hwf & Hsk & Hterm & -> & ->).
  destruct (slice_some buf (start + 8 + 4) (start + 8 + 4 + le_dec lb)) as (v & Hv & Hvl & Hvk); try lia.
  replace (start + 8 + 4 + le_dec lb - (start + 8 + 4)) with (le_dec lb) in Hvl by lia.
  replace (start + 8 - start) with 8 in Hdl by lia. replace (start + 8 + 4 - (start + 8)) with 4 in Hlbl by lia.
  assert (Hlbe : lb = le_enc 4 (len v)).
  { rewrite Hvl. symmetry. apply le_enc_dec'. unfold len in Hlbl. lia. }
  assert (Hwe : wf_entry (d, v)).
  { split; cbn [fst snd].
    - split; [unfold len in Hdl; lia|]. intros Hz. subst d. now rewrite tag_eqb_refl in Edz.
    - rewrite Hvl. pose proof (le_dec_bound lb) as Hb. unfold len in Hlbl.
      replace (length lb) with 4%nat in Hb by lia. exact Hb. }
  exists ((d, v) :: es). repeat split.
  - now constructor.
  - rewrite enc_cons. unfold enc_entry. cbn [fst snd]. rewrite <- Hlbe.
    rewrite Hdk, Hlbk, Hvk, Hsk. now rewrite <- !app_assoc.
  - exact Hterm.
  - rewrite enc_cons, len_app, (enc_entry_len _ Hwe). cbn [snd]. unfold HDR. lia.
Qed.

Theorem check_data_iff_WF b : (exists u, check_data b = Ok u) <-> WF b.
Proof.
  split.
  - intros [u H]. unfold check_data, discs_and_end in H.
    destruct (discs_loop _ b 0) as [[ds e]|?|] eqn:Ed; cbn [bind] in H; try discriminate.
    destruct (discs_loop_inv _ _ _ _ _ Ed) as (es & Hwf & Hsk & Hterm & _ & _).
    cbn [N.to_nat skipn] in Hsk. change (N.to_nat 0) with 0%nat in Hsk. cbn [skipn] in Hsk.
    exists es, (skipn (N.to_nat e) b). auto.
  - intros (es & tail & -> & Hwf & Hterm). exists tt. unfold check_data.
    now rewrite (discs_and_end_wf es tail Hwf Hterm).
Qed.

Theorem get_discriminators_WF es tail :
  Forall wf_entry es -> term tail -> get_discriminators (enc es ++ tail) = Ok (map fst es).
Proof. intros Hwf Hterm. unfold get_discriminators. now rewrite (discs_and_end_wf es tail Hwf Hterm). Qed.

(** uniqueness of the decomposition: the entry list is determined by the bytes *)
Theorem WF_unique es tail es' tail' :
  Forall wf_entry es -> term tail -> Forall wf_entry es' -> term tail' ->
  enc es ++ tail = enc es' ++ tail' -> map fst es = map fst es' /\ len (enc es) = len (enc es').
Proof.
  intros H1 H2 H3 H4 Heq.
  pose proof (discs_and_end_wf es tail H1 H2) as A. pose proof (discs_and_end_wf es' tail' H3 H4) as B.
  rewrite Heq in A. rewrite A in B. injection B as B1 B2. auto.
Qed.

(** * Lookups on an accepted string *)
Lemma split_entry_spec es t : forall r a v b,
  split_entry es t r = Some (a, v, b) -> es = a ++ (t, v) :: b /\ count t a = r.
Proof.
  induction es as [|e es IH]; intros r a v b H; [discriminate|]. cbn [split_entry] in H.
  destruct (tag_eqb (fst e) t) eqn:Et.
  - pose proof (proj1 (tag_eqb_eq _ _) Et) as Et'. destruct (r =? 0) eqn:Er.
    + injection H as <- <- <-. destruct e as [t' v']; cbn [fst snd] in *. subst t'. split; [reflexivity|cbn; lia].
    + destruct (split_entry es t (r - 1)) as [[[a' v'] b']|] eqn:Es; [|discriminate].
      injection H as <- <- <-. destruct (IH _ _ _ _ Es) as [-> Hc]. split; [reflexivity|].
      cbn [count fold_right]. fold (count t a'). rewrite Et. lia.
  - destruct (split_entry es t r) as [[[a' v'] b']|] eqn:Es; [|discriminate].
    injection H as <- <- <-. destruct (IH _ _ _ _ Es) as [-> Hc]. split; [reflexivity|].
    cbn [count fold_right]. fold (count t a'). now rewrite Et.
Qed.

Lemma seek_split es t r : forall cur off, cur <= r -> Forall wf_entry es ->
  match split_entry es t (r - cur) with
  | Some (a, v, b) => seek es t (Some r) cur off = inl (off + len (enc a), r)
  | None => exists o c, seek es t (Some r) cur off = inr (o, c)
  end.
Proof.
  induction es as [|e es IH]; intros cur off Hc Hwf; [cbn; eauto|].
  inversion Hwf as [|? ? He Hes]; subst. cbn [split_entry seek rep_matches].
  destruct (tag_eqb (fst e) t) eqn:Et.
  - destruct (r - cur =? 0) eqn:Er.
    + replace (cur =? r) with true by lia. rewrite enc_nil, len_nil, N.add_0_r. f_equal. f_equal. lia.
    + replace (cur =? r) with false by lia.
      specialize (IH (cur + 1) (off + HDR + len (snd e)) ltac:(lia) Hes).
      replace (r - (cur + 1)) with (r - cur - 1) in IH by lia.
      destruct (split_entry es t (r - cur - 1)) as [[[a v] b]|]; [|exact IH].
      rewrite IH, enc_cons, len_app, (enc_entry_len e He). f_equal. f_equal. lia.
  - specialize (IH cur (off + HDR + len (snd e)) Hc Hes).
    destruct (split_entry es t (r - cur)) as [[[a v] b]|]; [|exact IH].
    rewrite IH, enc_cons, len_app, (enc_entry_len e He). f_equal. f_equal. lia.
Qed.

Theorem get_bytes_WF es tail t r :
  Forall wf_entry es -> term tail -> wf_tag t ->
  match split_entry es t r with
  | Some (a, v, b) => get_bytes (enc es ++ tail) t r = Ok (voff a, v)
  | None => exists e, get_bytes (enc es ++ tail) t r = Err e
  end.
Proof.
  intros Hwf Hterm Ht. unfold get_bytes. rewrite (get_indices_wf es tail t false (Some r) Hwf Hterm Ht).
  pose proof (seek_split es t r 0 0 ltac:(lia) Hwf) as Hs. rewrite N.sub_0_r in Hs.
  destruct (split_entry es t r) as [[[a v] b]|] eqn:Esp.
  - rewrite Hs. cbn [bind fst]. destruct (split_entry_spec _ _ _ _ _ _ Esp) as [-> _].
    apply Forall_app in Hwf as [Ha Hb]. inversion Hb as [|? ? He Hb']; subst.
    rewrite enc_app, enc_cons, <- !app_assoc.
    destruct (entry_reads (enc a) (enc b ++ tail) (t, v) He) as (H1 & H2 & H3 & H4 & H5).
    cbn [fst snd] in *. rewrite N.add_0_l. rewrite H3, H4.
    replace (_ <? len (enc a) + TAGW + LENW + len v) with false by (rewrite H5; unfold TAGW, LENW, HDR; lia).
    unfold enc_entry. cbn [fst snd]. rewrite <- !app_assoc.
    rewrite (app_assoc (enc a) t), (app_assoc (enc a ++ t) (le_enc 4 (len v))).
    rewrite (slice_app _ v _ _ _); [unfold voff, TAGW, LENW, HDR; f_equal; f_equal; lia| |].
    + rewrite !len_app, len_le_enc, (wf_tag_len t Ht). unfold TAGW, LENW. lia.
    + rewrite !len_app, len_le_enc, (wf_tag_len t Ht). unfold TAGW, LENW. lia.
  - destruct Hs as (o & c & ->). destruct (12 <=? length tail)%nat; cbn [bind]; eauto.
Qed.

Theorem get_value_WF es tail t r size :
  Forall wf_entry es -> term tail -> wf_tag t ->
  match split_entry es t r with
  | Some (a, v, b) =>
      if len v =? size then get_value (enc es ++ tail) t r size = Ok (voff a, v)
      else exists e, get_value (enc es ++ tail) t r size = Err e
  | None => exists e, get_value (enc es ++ tail) t r size = Err e
  end.
Proof.
  intros Hwf Hterm Ht. unfold get_value. pose proof (get_bytes_WF es tail t r Hwf Hterm Ht) as H.
  destruct (split_entry es t r) as [[[a v] b]|].
  - rewrite H. cbn [bind snd]. destruct (len v =? size); eauto.
  - destruct H as [e ->]. cbn [bind]. eauto.
Qed.
