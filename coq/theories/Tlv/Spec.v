(** Abstract specification of a TLV slab: a list of (type, value) entries in a buffer
    of [n] bytes, its canonical encoding, and the effect of each operation on the
    entry list.  This file is meant to be read against the property text. *)
From SplVerif Require Import Lib.Base Tlv.Model.
Local Open Scope N_scope.

Definition entry := (tag * list byte)%type.

(** on-wire form: 8-byte type, 4-byte little-endian length, value *)
Definition enc_entry (e : entry) : list byte := fst e ++ le_enc 4 (len (snd e)) ++ snd e.
Definition enc (es : list entry) : list byte := concat (map enc_entry es).
(** ... followed only by zeros up to the buffer size *)
Definition render (n : nat) (es : list entry) : list byte := enc es ++ zeros (n - length (enc es)).

Definition wf_tag (t : tag) : Prop := length t = 8%nat /\ t <> zero_tag.
Definition wf_entry (e : entry) : Prop := wf_tag (fst e) /\ len (snd e) < U32_LIMIT.
(** a canonical slab state: well-formed entries that fit *)
Definition fits (n : nat) (es : list entry) : Prop := Forall wf_entry es /\ (length (enc es) <= n)%nat.

Definition count (t : tag) (es : list entry) : N :=
  fold_right (fun e acc => if tag_eqb (fst e) t then 1 + acc else acc) 0 es.
Definition has (t : tag) (es : list entry) : bool := existsb (fun e => tag_eqb (fst e) t) es.

(** the r-th entry of type t: (entries before, its value, entries after) *)
Fixpoint split_entry (es : list entry) (t : tag) (r : N) : option (list entry * list byte * list entry) :=
  match es with
  | [] => None
  | e :: es' =>
      if tag_eqb (fst e) t then
        if r =? 0 then Some ([], snd e, es')
        else match split_entry es' t (r - 1) with
             | Some (a, v, b) => Some (e :: a, v, b)
             | None => None
             end
      else match split_entry es' t r with
           | Some (a, v, b) => Some (e :: a, v, b)
           | None => None
           end
  end.

(** zero-extend or truncate to [l] bytes *)
Definition resize (l : N) (v : list byte) : list byte :=
  firstn (N.to_nat l) v ++ zeros (N.to_nat l - length v).

(** value offset of the entry that follows the entries [a] *)
Definition voff (a : list entry) : N := len (enc a) + HDR.

(** * Effect of each operation on the entry list; [n] is the buffer size.
    A failed operation leaves the list unchanged. *)
Definition s_push (n : nat) (es : list entry) (t : tag) (v : list byte) (allow_rep : bool)
  : list entry * outcome obs :=
  if (allow_rep || negb (has t es)) && (len (enc es) + HDR + len v <=? N.of_nat n) && (len v <? U32_LIMIT)
  then (es ++ [(t, v)], Ok (voff es, count t es))
  else (es, Err 0).

Definition s_step (n : nat) (es : list entry) (o : op) : list entry * outcome obs :=
  match o with
  | OAlloc t l a => s_push n es t (zeros (N.to_nat l)) a
  | OInit t d a => s_push n es t d a
  | OAllocPack t e a => s_push n es t e a
  | ORealloc t l r =>
      match split_entry es t r with
      | None => (es, Err 0)
      | Some (a, v, b) =>
          if (len v <? l) && (N.of_nat n <? len (enc es) + (l - len v)) then (es, Err 0)
          else if U32_LIMIT <=? l then (es, Err 0)
          else (a ++ (t, resize l v) :: b, Ok (voff a, 0))
      end
  | OWrite t r new =>
      match split_entry es t r with
      | None => (es, Err 0)
      | Some (a, v, b) => if len v =? len new then (a ++ (t, new) :: b, Ok (voff a, 0)) else (es, Panic)
      end
  | OWriteTyped t r sz new =>
      match split_entry es t r with
      | None => (es, Err 0)
      | Some (a, v, b) =>
          if len v =? sz then
            (if len new =? sz then (a ++ (t, new) :: b, Ok (voff a, 0)) else (es, Panic))
          else (es, Err 0)
      end
  | OPackVar t r e partial =>
      match split_entry es t r with
      | None => (es, Err 0)
      | Some (a, v, b) =>
          if len e <=? len v then (a ++ (t, e ++ skipn (length e) v) :: b, Ok (voff a, 0))
          else if partial then (a ++ (t, firstn (length v) e) :: b, Err 0)   (* only this entry's value changes *)
          else (es, Err 0)
      end
  end.

Definition s_run (n : nat) (ops : list op) (es : list entry) : list entry :=
  fold_left (fun s o => fst (s_step n s o)) ops es.

(** tags mentioned by an operation must be real types (the all-zero tag is the terminator) *)
Definition op_tag (o : op) : tag :=
  match o with
  | OAlloc t _ _ | OInit t _ _ | ORealloc t _ _ | OWrite t _ _ | OWriteTyped t _ _ _
  | OPackVar t _ _ _ | OAllocPack t _ _ => t
  end.
Definition wf_op (o : op) : Prop := wf_tag (op_tag o).

(** same outcome class and payload (error codes are not part of the spec) *)
Definition out_eq {A} (a b : outcome A) : Prop :=
  match a, b with
  | Ok x, Ok y => x = y
  | Err _, Err _ => True
  | Panic, Panic => True
  | _, _ => False
  end.
