(** Operations on any valid slab: entries followed by an arbitrary terminator-led tail, not only the
    zero tail of canonical slabs (recycled buffers).  The byte-level model is the same; these theorems
    say what it computes there. *)
From SplVerif Require Import Lib.Base Tlv.Model Tlv.Spec Tlv.Walk Tlv.Parse Tlv.Moves Tlv.Ops Tlv.Refine.
Local Open Scope N_scope.

(** realloc on any valid slab: the entries followed by ANY terminator-led tail (not only zeros).
    A successful resize yields exactly the entry list with the target zero-extended / truncated;
    growth eats the first bytes of the tail, shrinking leaves zeros in front of it. *)
Definition tail_after (tail : list byte) (old l : N) : list byte :=
  if l <=? old then zeros (N.to_nat (old - l)) ++ tail else skipn (N.to_nat (l - old)) tail.

Theorem realloc_any_tail es (tail : list byte) t r a v b l :
  Forall wf_entry es -> term tail -> wf_tag t -> split_entry es t r = Some (a, v, b) ->
  realloc (enc es ++ tail) t l r =
  if (len v <? l) && (len (enc es ++ tail) <? len (enc es) + (l - len v)) then (enc es ++ tail, Err E_INVALID_ACCOUNT_DATA)
  else if U32_LIMIT <=? l then (enc es ++ tail, Err E_TOO_SMALL)
  else (enc (a ++ (t, resize l v) :: b) ++ tail_after tail (len v) l, Ok (voff a)).
Proof.
  intros Hwf Hterm Ht Hsp.
  destruct (split_entry_spec _ _ _ _ _ _ Hsp) as [Hes Hc].
  pose proof (seek_split es t r 0 0 ltac:(lia) Hwf) as Hs. rewrite N.sub_0_r, Hsp in Hs.
  pose proof Hwf as Hwf'. rewrite Hes in Hwf'. apply Forall_app in Hwf' as [Ha Hb].
  inversion Hb as [|? ? He Hb']; subst x l0.
  assert (Hlv : len v < U32_LIMIT) by exact (proj2 He).
  assert (Ht8 : length t = 8%nat) by (destruct Ht; assumption).
  assert (HlenA0 : len (enc a ++ t) = len (enc a) + TAGW) by (rewrite len_app, (wf_tag_len t Ht); reflexivity).
  assert (Henc : len (enc es) = len (enc a) + HDR + len v + len (enc b)).
  { rewrite Hes, enc_app, enc_cons, !len_app, (enc_entry_len _ He). cbn [snd]. lia. }
  assert (Hbuf : enc es ++ tail = (enc a ++ t) ++ le_enc 4 (len v) ++ v ++ enc b ++ tail).
  { rewrite Hes at 1. rewrite enc_app, enc_cons. unfold enc_entry. cbn [fst snd]. now rewrite <- !app_assoc. }
  unfold realloc.
  rewrite (get_indices_wf es tail t false _ Hwf Hterm Ht), Hs, N.add_0_l.
  rewrite (discs_and_end_wf es tail Hwf Hterm).
  rewrite Hbuf at 1.
  rewrite (slice_app (enc a ++ t) (le_enc 4 (len v)) _ _ _) by (rewrite ?HlenA0, ?len_le_enc; unfold TAGW, LENW; lia).
  rewrite le_dec_enc_small by (unfold U32_LIMIT in *; change (256 ^ N.of_nat 4) with 4294967296; lia).
  destruct ((len v <? l) && (len (enc es ++ tail) <? len (enc es) + (l - len v))) eqn:Egrow; [reflexivity|].
  destruct (U32_LIMIT <=? l) eqn:E32; [reflexivity|].
  rewrite Hbuf.
  rewrite (write_at_app (enc a ++ t) (le_enc 4 (len v)) _ (le_enc 4 l))
    by (rewrite ?HlenA0, ?le_enc_length; unfold TAGW; reflexivity).
  set (A := (enc a ++ t) ++ le_enc 4 l).
  assert (HA : len A = len (enc a) + TAGW + LENW) by (unfold A; rewrite len_app, HlenA0, len_le_enc; unfold LENW; lia).
  assert (HAeq : (enc a ++ t) ++ le_enc 4 l ++ v ++ enc b ++ tail = A ++ v ++ enc b ++ tail)
    by (unfold A; now rewrite <- !app_assoc).
  rewrite HAeq. clear HAeq.
  assert (Hend : len (enc es) = len A + len v + len (enc b)) by (unfold TAGW, LENW, HDR in *; lia).
  assert (Hres : forall w, enc (a ++ (t, w) :: b) = A ++ w ++ enc b -> True) by (intros; exact I).
  assert (Hencw : forall w, len w = l -> enc (a ++ (t, w) :: b) = A ++ w ++ enc b).
  { intros w Hw. rewrite enc_app, enc_cons. unfold enc_entry, A. cbn [fst snd]. rewrite Hw. now rewrite <- !app_assoc. }
  assert (Hlt : len (enc es ++ tail) = len (enc es) + len tail) by apply len_app.
  unfold tail_after.
  destruct (l <? len v) eqn:Eshrink; [|destruct (len v <? l) eqn:Eg].
  - (* shrink *)
    set (Vk := firstn (N.to_nat l) v). set (Vd := skipn (N.to_nat l) v).
    assert (Hv : v = Vk ++ Vd) by (unfold Vk, Vd; now rewrite firstn_skipn).
    assert (HVk : len Vk = l) by (unfold Vk, len in *; rewrite firstn_length; lia).
    assert (HVd : len Vd = len v - l) by (unfold Vd, len in *; rewrite skipn_length; lia).
    replace (len (enc a) + TAGW + LENW + len v) with (len A + len Vk + len Vd) by lia.
    replace (len (enc es)) with (len A + len Vk + len Vd + len (enc b)) by lia.
    replace (len (enc a) + TAGW + LENW + l) with (len A + len Vk) by lia.
    rewrite Hv at 1. rewrite <- app_assoc.
    rewrite cw_shrink.
    replace (len A + len Vk + len Vd + len (enc b) - (len v - l)) with (len A + len Vk + len Vd + len (enc b) - len Vd) by lia.
    rewrite fill_after_shrink.
    assert (Hrz : resize l v = Vk).
    { unfold resize. fold Vk. replace (N.to_nat l - length v)%nat with 0%nat by (unfold len in *; lia). apply app_nil_r. }
    replace (l <=? len v) with true by lia.
    rewrite Hrz, (Hencw Vk HVk). f_equal.
    + rewrite <- !app_assoc. repeat f_equal. unfold len in *. lia.
    + f_equal. unfold voff, TAGW, LENW, HDR in *. lia.
  - (* grow *)
    assert (Hd : (N.to_nat (l - len v) <= length tail)%nat) by (unfold len in *; lia).
    set (d := N.to_nat (l - len v)) in *.
    set (Zd := firstn d tail). set (Zr := skipn d tail).
    assert (Htl : tail = Zd ++ Zr) by (unfold Zd, Zr; now rewrite firstn_skipn).
    assert (HZd : length Zd = d) by (unfold Zd; rewrite firstn_length; lia).
    rewrite Htl at 1.
    replace (len (enc a) + TAGW + LENW + len v) with (len A + len v) by lia.
    replace (len (enc es)) with (len A + len v + len (enc b)) by lia.
    replace (len (enc a) + TAGW + LENW + l) with (len A + len v + len Zd) by (unfold len at 3; rewrite HZd; unfold d; lia).
    rewrite cw_grow, fill_after_grow. rewrite HZd.
    assert (Hrz : resize l v = v ++ zeros d).
    { unfold resize. rewrite firstn_all2 by (unfold len in *; lia).
      replace (N.to_nat l - length v)%nat with d by (unfold d, len; lia). reflexivity. }
    replace (l <=? len v) with false by lia.
    assert (Hlw : len (v ++ zeros d) = l) by (rewrite len_app, len_zeros; unfold d; lia).
    rewrite Hrz, (Hencw _ Hlw). f_equal.
    + now rewrite <- !app_assoc.
    + f_equal. unfold voff, TAGW, LENW, HDR in *. lia.
  - (* same length *)
    assert (Hl : l = len v) by lia. subst l.
    rewrite (app_assoc A v).
    replace (len (enc a) + TAGW + LENW + len v) with (len (A ++ v)) by (rewrite len_app; lia).
    replace (len (enc es)) with (len (A ++ v) + len (enc b)) by (rewrite len_app; lia).
    rewrite cw_same.
    assert (Hrz : resize (len v) v = v).
    { unfold resize. rewrite firstn_all2 by (unfold len; lia). replace (_ - _)%nat with 0%nat by (unfold len; lia). apply app_nil_r. }
    replace (len v <=? len v) with true by lia. rewrite N.sub_diag. cbn [N.to_nat zeros repeat app].
    rewrite Hrz, (Hencw v eq_refl). f_equal.
    + now rewrite <- !app_assoc.
    + f_equal. unfold voff, TAGW, LENW, HDR in *. lia.
Qed.

(** alloc on any valid slab with room: the header lands right behind the entries; the value region
    is whatever the tail held there (alloc does not clear it) *)
Theorem alloc_any_tail es (tail : list byte) t l a :
  Forall wf_entry es -> term tail -> wf_tag t ->
  (a || negb (has t es)) = true -> HDR + l <= len tail -> l < U32_LIMIT ->
  alloc (enc es ++ tail) t l a =
  (enc (es ++ [(t, firstn (N.to_nat l) (skipn 12 tail))]) ++ skipn (12 + N.to_nat l) tail, Ok (voff es, count t es)).
Proof.
  intros Hwf Hterm Ht Hok Hroom Hl32.
  assert (H12 : (12 <= length tail)%nat) by (unfold HDR, len in *; lia).
  destruct (term_long tail Hterm ltac:(lia)) as [rest Htail].
  assert (Hrest : (4 <= length rest)%nat).
  { rewrite Htail, app_length in H12. change (length zero_tag) with 8%nat in H12. lia. }
  set (L4 := firstn 4 rest). set (R := skipn 4 rest).
  assert (HL4 : length L4 = 4%nat) by (unfold L4; rewrite firstn_length; lia).
  assert (Hr : rest = L4 ++ R) by (unfold L4, R; now rewrite firstn_skipn).
  unfold alloc.
  rewrite (get_indices_wf es tail t true _ Hwf Hterm Ht).
  assert (Hseek : seek es t (if a then None else Some 0) 0 0 = inr (len (enc es), count t es)).
  { destruct a.
    - rewrite seek_none by assumption. reflexivity.
    - cbn [orb] in Hok. apply Bool.negb_true_iff in Hok.
      pose proof (seek_split es t 0 0 0 ltac:(lia) Hwf) as Hs. rewrite N.sub_0_r in Hs.
      destruct (split_entry es t 0) as [[[a0 v] b]|] eqn:Esp.
      + exfalso. apply split_some_has in Esp. congruence.
      + destruct Hs as (o & c & Hs). pose proof Hs as Hs2. pose proof Hs as Hs3.
        apply seek_inr in Hs2; [|assumption]. apply seek_inr_count in Hs3.
        rewrite Hs. f_equal. f_equal; lia. }
  rewrite Hseek. replace (12 <=? length tail)%nat with true by (symmetry; apply Nat.leb_le; exact H12).
  rewrite Htail, Hr.
  rewrite (slice_app (enc es) zero_tag _ _ _) by (try reflexivity; unfold TAGW; reflexivity).
  rewrite tag_eqb_refl.
  assert (Hlen : len (enc es ++ zero_tag ++ L4 ++ R) = len (enc es) + len tail).
  { rewrite <- Hr, <- Htail. apply len_app. }
  rewrite Hlen.
  replace (len (enc es) + len tail <? len (enc es) + TAGW + LENW + l) with false by (unfold HDR, TAGW, LENW in *; lia).
  replace (U32_LIMIT <=? l) with false by lia.
  rewrite (write_at_app (enc es) zero_tag _ t) by (try reflexivity; destruct Ht as [Ht8 _]; exact Ht8).
  rewrite (app_assoc (enc es) t).
  rewrite (write_at_app (enc es ++ t) L4 _ (le_enc 4 l))
    by (rewrite ?len_app, ?(wf_tag_len t Ht), ?le_enc_length, ?HL4; unfold TAGW; reflexivity).
  f_equal.
  - rewrite enc_snoc. unfold enc_entry. cbn [fst snd]. rewrite <- !app_assoc. f_equal. f_equal.
    assert (Hs12 : skipn 12 (zero_tag ++ L4 ++ R) = R).
    { rewrite app_assoc. rewrite skipn_app.
      assert (H12l : length (zero_tag ++ L4) = 12%nat) by (rewrite app_length, HL4; reflexivity).
      rewrite H12l, Nat.sub_diag. rewrite skipn_all2 by lia. reflexivity. }
    rewrite Hs12.
    assert (HlenR : (N.to_nat l <= length R)%nat).
    { unfold R. rewrite skipn_length. rewrite Htail, len_app in Hroom. unfold HDR, len in *. change (length zero_tag) with 8%nat in Hroom. lia. }
    assert (Hlf : len (firstn (N.to_nat l) R) = l) by (unfold len; rewrite firstn_length; lia).
    rewrite Hlf. f_equal.
    assert (Hs12l : skipn (12 + N.to_nat l) (zero_tag ++ L4 ++ R) = skipn (N.to_nat l) R).
    { rewrite app_assoc. rewrite skipn_app.
      assert (H12l : length (zero_tag ++ L4) = 12%nat) by (rewrite app_length, HL4; reflexivity).
      rewrite H12l. rewrite skipn_all2 by lia. cbn [app]. f_equal. lia. }
    rewrite Hs12l. now rewrite firstn_skipn.
  - unfold voff, TAGW, LENW, HDR. f_equal. f_equal. lia.
Qed.

Lemma firstn_zeros n : forall m, (n <= m)%nat -> firstn n (zeros m) = zeros n.
Proof. induction n as [|n IH]; intros m H; [reflexivity|]. destruct m as [|m]; [lia|]. cbn [zeros repeat firstn]. f_equal. apply IH. lia. Qed.
Lemma firstn_zeros_app n m (X : list byte) : (n <= m)%nat -> firstn n (zeros m ++ X) = zeros n.
Proof.
  intros H. rewrite firstn_app, zeros_length. replace (n - m)%nat with 0%nat by lia. cbn [firstn].
  rewrite app_nil_r. now apply firstn_zeros.
Qed.

(** zeros in front of a terminator-led tail are again a terminator-led tail *)
Lemma term_zeros_front k (tail : list byte) : term tail -> term (zeros k ++ tail).
Proof.
  intros Ht. destruct (le_lt_dec 8 (length (zeros k ++ tail))) as [H8|H8].
  - right. right. split; [exact H8|]. unfold zero_tag.
    rewrite app_length, zeros_length in H8.
    destruct Ht as [->|[[Hl Hz]|[Hl Hz]]].
    + cbn [length] in H8. rewrite app_nil_r. apply firstn_zeros. lia.
    + apply all_zero_iff in Hz. rewrite Hz, <- zeros_app. apply firstn_zeros. lia.
    + destruct (le_lt_dec 8 k) as [Hk|Hk]; [now apply firstn_zeros_app|].
      rewrite firstn_app, zeros_length. rewrite (firstn_all2 (zeros k)) by (rewrite zeros_length; lia).
      assert (Hf : firstn (8 - k) tail = zeros (8 - k)).
      { rewrite <- (firstn_skipn 8 tail). rewrite Hz. unfold zero_tag. apply firstn_zeros_app. lia. }
      rewrite Hf, <- zeros_app. f_equal. lia.
  - destruct (zeros k ++ tail) eqn:E; [left; reflexivity|]. rewrite <- E in *. right. left. split; [exact H8|].
    rewrite all_zero_app, all_zero_zeros. cbn [andb].
    rewrite app_length, zeros_length in H8.
    destruct Ht as [->|[[Hl Hz]|[Hl Hz]]]; [reflexivity|exact Hz|lia].
Qed.

(** after a successful shrink (or same-size resize) on any valid slab the result is again a valid
    slab of the resized entry list: every later lookup and listing sees exactly that list (C02) *)
Theorem shrink_keeps_valid es (tail : list byte) t r a v b l :
  Forall wf_entry es -> term tail -> wf_tag t -> split_entry es t r = Some (a, v, b) -> l <= len v ->
  exists tail', term tail' /\ Forall wf_entry (a ++ (t, resize l v) :: b) /\
    realloc (enc es ++ tail) t l r = (enc (a ++ (t, resize l v) :: b) ++ tail', Ok (voff a)).
Proof.
  intros Hwf Hterm Ht Hsp Hle.
  pose proof (realloc_any_tail es tail t r a v b l Hwf Hterm Ht Hsp) as H.
  destruct (split_entry_spec _ _ _ _ _ _ Hsp) as [Hes _].
  pose proof Hwf as Hwf'. rewrite Hes in Hwf'. apply Forall_app in Hwf' as [Ha Hb].
  inversion Hb as [|? ? He Hb']; subst x l0.
  assert (Hlv : len v < U32_LIMIT) by exact (proj2 He).
  replace ((len v <? l) && _) with false in H by lia.
  replace (U32_LIMIT <=? l) with false in H by lia.
  exists (tail_after tail (len v) l). split; [|split; [|exact H]].
  - unfold tail_after. replace (l <=? len v) with true by lia. now apply term_zeros_front.
  - apply Forall_app. split; [assumption|]. constructor; [|assumption].
    split; cbn [fst snd]; [exact Ht|]. rewrite resize_len. lia.
Qed.

(** a resize that fails on any valid slab returns the slab unchanged (and it still opens) *)
Theorem realloc_error_identity_any_tail es (tail : list byte) t r a v b l e :
  Forall wf_entry es -> term tail -> wf_tag t -> split_entry es t r = Some (a, v, b) ->
  snd (realloc (enc es ++ tail) t l r) = Err e ->
  fst (realloc (enc es ++ tail) t l r) = enc es ++ tail /\ check_data (enc es ++ tail) = Ok tt.
Proof.
  intros Hwf Hterm Ht Hsp He.
  rewrite (realloc_any_tail es tail t r a v b l Hwf Hterm Ht Hsp) in *.
  split.
  - destruct ((len v <? l) && _); [reflexivity|]. destruct (U32_LIMIT <=? l); [reflexivity|]. discriminate.
  - unfold check_data. rewrite (discs_and_end_wf es tail Hwf Hterm). reflexivity.
Qed.
