(** C04 over whole histories: in any sequence of operations from a canonical slab, the operations
    that return an error might as well not have been issued -- the bytes at the end are those of
    the history with the failed operations removed. *)
From SplVerif Require Import Lib.Base Tlv.Model Tlv.Spec Tlv.Walk Tlv.Parse Tlv.Ops Tlv.Refine Tlv.Corollaries.
Local Open Scope N_scope.

(** the same history with every failed operation skipped *)
Fixpoint run_dropping_failed (buf : list byte) (ops : list op) : list byte :=
  match ops with
  | [] => buf
  | o :: r => match snd (step buf o) with
              | Err _ => run_dropping_failed buf r
              | _ => run_dropping_failed (fst (step buf o)) r
              end
  end.

Theorem failed_ops_are_noops : forall ops n es,
  fits n es -> Forall wf_op ops -> Forall (fun o => is_pack_var o = false) ops ->
  run ops (render n es) = run_dropping_failed (render n es) ops /\
  exists es', run ops (render n es) = render n es' /\ fits n es'.
Proof.
  induction ops as [|o ops IH]; intros n es Hfit Hwf Hnp.
  - unfold run. cbn [fold_left run_dropping_failed]. split; [reflexivity|]. now exists es.
  - inversion Hwf as [|? ? Ho Hwf']; subst. inversion Hnp as [|? ? Hp Hnp']; subst.
    destruct (step_refines n es o Hfit Ho) as (out' & Hs & Heq & Hf1).
    unfold run. cbn [fold_left run_dropping_failed]. fold (run ops (fst (step (render n es) o))).
    destruct (snd (step (render n es) o)) as [x|e|] eqn:Eo.
    + rewrite Hs. cbn [fst]. apply IH; assumption.
    + rewrite (failed_op_unchanged n es o e Hfit Ho Hp Eo). apply IH; assumption.
    + rewrite Hs. cbn [fst]. apply IH; assumption.
Qed.

(** in particular a history in which every operation fails leaves the slab as it was *)
Corollary all_failed_identity : forall ops n es,
  fits n es -> Forall wf_op ops -> Forall (fun o => is_pack_var o = false) ops ->
  (forall o, In o ops -> exists e, snd (step (render n es) o) = Err e) ->
  run ops (render n es) = render n es.
Proof.
  intros ops n es Hfit Hwf Hnp Hall.
  destruct (failed_ops_are_noops ops n es Hfit Hwf Hnp) as [-> _].
  clear Hwf Hnp. induction ops as [|o l IHl]; cbn [run_dropping_failed]; [reflexivity|].
  destruct (Hall o (or_introl eq_refl)) as [e ->]. apply IHl. intros o' Ho'. apply Hall. now right.
Qed.
