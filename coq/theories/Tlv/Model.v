(** Byte-level model of type-length-value/src/state.rs (definitions only).
    Absolute indices, fuelled walks, explicit panics.  Models the code after the D1
    repair of [alloc] (checks before writes); the pre-fix write order is kept as
    [alloc_prefix] for Findings/D1.v.

    usize [saturating_add] is modelled as [+]: a Rust slice is at most isize::MAX
    bytes long, every operand below is <= len + 12 + 2^32, so saturation at 2^64-1
    is unreachable (trusted base, DESIGN 5). *)
From SplVerif Require Import Lib.Base.
Local Open Scope N_scope.

Definition tag := list byte.                 (* ArrayDiscriminator: 8 bytes *)
Definition TAGW : N := 8.
Definition LENW : N := 4.
Definition HDR : N := 12.                    (* get_base_len *)
Definition zero_tag : tag := zeros 8.
Definition tag_eqb (a b : tag) : bool := list_byte_eqb a b.
Definition U32_LIMIT : N := 4294967296.      (* 2^32 *)

(* error classes *)
Definition E_INVALID_ACCOUNT_DATA : N := 1.
Definition E_TYPE_NOT_FOUND : N := 2.
Definition E_TYPE_EXISTS : N := 3.
Definition E_TOO_SMALL : N := 4.             (* AccountDataTooSmall: Length::try_from *)
Definition E_INVALID_ARGUMENT : N := 5.      (* bytemuck size mismatch *)
Definition E_PACK : N := 6.                  (* user packer failed *)

(** get_indices: returns (type_start, repetition number).
    [rep = None] <-> no particular repetition wanted (alloc with repetition). *)
Definition rep_matches (rep : option N) (cur : N) : bool :=
  match rep with Some r => cur =? r | None => false end.

Fixpoint get_indices_loop (fuel : nat) (buf : list byte) (t : tag) (init : bool) (rep : option N)
         (cur start : N) : outcome (N * N) :=
  match fuel with
  | O => Panic
  | S fuel =>
      if start <? len buf then
        let length_start := start + TAGW in
        let value_start := length_start + LENW in
        if len buf <? value_start then Err E_INVALID_ACCOUNT_DATA
        else match slice buf start length_start, slice buf length_start value_start with
             | Some d, Some lb =>
                 let next := value_start + le_dec lb in
                 if tag_eqb d t then
                   if rep_matches rep cur then Ok (start, cur)
                   else get_indices_loop fuel buf t init rep (cur + 1) next
                 else if tag_eqb d zero_tag then
                   (if init then Ok (start, cur) else Err E_TYPE_NOT_FOUND)
                 else get_indices_loop fuel buf t init rep cur next
             | _, _ => Panic
             end
      else Err E_INVALID_ACCOUNT_DATA
  end.
Definition get_indices (buf : list byte) (t : tag) (init : bool) (rep : option N) : outcome (N * N) :=
  get_indices_loop (S (length buf)) buf t init rep 0 0.

(** get_discriminators_and_end_index *)
Fixpoint discs_loop (fuel : nat) (buf : list byte) (start : N) : outcome (list tag * N) :=
  match fuel with
  | O => Panic
  | S fuel =>
      if start <? len buf then
        let length_start := start + TAGW in
        let value_start := length_start + LENW in
        if len buf <? length_start then
          match slice_from buf start with
          | None => Panic
          | Some rem => if all_zero rem then Ok ([], start) else Err E_INVALID_ACCOUNT_DATA
          end
        else match slice buf start length_start with
             | None => Panic
             | Some d =>
                 if tag_eqb d zero_tag then Ok ([], start)
                 else if len buf <? value_start then Err E_INVALID_ACCOUNT_DATA
                 else match slice buf length_start value_start with
                      | None => Panic
                      | Some lb =>
                          let value_end := value_start + le_dec lb in
                          if len buf <? value_end then Err E_INVALID_ACCOUNT_DATA
                          else let? r := discs_loop fuel buf value_end in
                               Ok (d :: fst r, snd r)
                      end
             end
      else Ok ([], start)
  end.
Definition discs_and_end (buf : list byte) : outcome (list tag * N) := discs_loop (S (length buf)) buf 0.
Definition check_data (buf : list byte) : outcome unit := let? _ := discs_and_end buf in Ok tt.
Definition get_discriminators (buf : list byte) : outcome (list tag) := let? r := discs_and_end buf in Ok (fst r).

(** get_bytes / get_bytes_with_repetition_mut: (value_start, value bytes) *)
Definition get_bytes (buf : list byte) (t : tag) (rep : N) : outcome (N * list byte) :=
  let? ir := get_indices buf t false (Some rep) in
  let length_start := fst ir + TAGW in
  let value_start := length_start + LENW in
  match slice buf length_start value_start with
  | None => Panic
  | Some lb =>
      let value_end := value_start + le_dec lb in
      if len buf <? value_end then Err E_INVALID_ACCOUNT_DATA
      else match slice buf value_start value_end with
           | None => Panic
           | Some v => Ok (value_start, v)
           end
  end.

(** pod_from_bytes::<V> on the value: size must match (alignment-1 value types) *)
Definition get_value (buf : list byte) (t : tag) (rep : N) (size : N) : outcome (N * list byte) :=
  let? r := get_bytes buf t rep in
  if len (snd r) =? size then Ok r else Err E_INVALID_ARGUMENT.

(** replace the value bytes (same length) through a mutable view *)
Definition write_value (buf : list byte) (t : tag) (rep : N) (new : list byte) : list byte * outcome N :=
  match get_bytes buf t rep with
  | Ok (vs, v) =>
      if len v =? len new then
        match write_at buf vs new with
        | Some buf' => (buf', Ok vs)
        | None => (buf, Panic)
        end
      else (buf, Panic)         (* copy_from_slice length mismatch; the harness never does this *)
  | Err e => (buf, Err e)
  | Panic => (buf, Panic)
  end.
Definition write_typed (buf : list byte) (t : tag) (rep : N) (size : N) (new : list byte) : list byte * outcome N :=
  match get_value buf t rep size with
  | Ok (vs, v) =>
      match write_at buf vs new with
      | Some buf' => if len new =? size then (buf', Ok vs) else (buf, Panic)
      | None => (buf, Panic)
      end
  | Err e => (buf, Err e)
  | Panic => (buf, Panic)
  end.

(** alloc (after D1): all checks, then the writes.  Returns (value_start, repetition). *)
Definition alloc (buf : list byte) (t : tag) (length : N) (allow_rep : bool) : list byte * outcome (N * N) :=
  match get_indices buf t true (if allow_rep then None else Some 0) with
  | Ok (type_start, repn) =>
      let length_start := type_start + TAGW in
      let value_start := length_start + LENW in
      match slice buf type_start length_start with
      | None => (buf, Panic)
      | Some d =>
          if tag_eqb d zero_tag then
            let value_end := value_start + length in
            if len buf <? value_end then (buf, Err E_INVALID_ACCOUNT_DATA)
            else if U32_LIMIT <=? length then (buf, Err E_TOO_SMALL)
            else match write_at buf type_start t with
                 | None => (buf, Panic)
                 | Some b1 =>
                     match write_at b1 length_start (le_enc 4 length) with
                     | None => (b1, Panic)
                     | Some b2 => (b2, Ok (value_start, repn))
                     end
                 end
          else (buf, Err E_TYPE_EXISTS)
      end
  | Err e => (buf, Err e)
  | Panic => (buf, Panic)
  end.

(** the write order of the pinned tree before the D1 repair *)
Definition alloc_prefix (buf : list byte) (t : tag) (length : N) (allow_rep : bool) : list byte * outcome (N * N) :=
  match get_indices buf t true (if allow_rep then None else Some 0) with
  | Ok (type_start, repn) =>
      let length_start := type_start + TAGW in
      let value_start := length_start + LENW in
      match slice buf type_start length_start with
      | None => (buf, Panic)
      | Some d =>
          if tag_eqb d zero_tag then
            match write_at buf type_start t with
            | None => (buf, Panic)
            | Some b1 =>
                if U32_LIMIT <=? length then (b1, Err E_TOO_SMALL)
                else match write_at b1 length_start (le_enc 4 length) with
                     | None => (b1, Panic)
                     | Some b2 =>
                         if len b2 <? value_start + length then (b2, Err E_INVALID_ACCOUNT_DATA)
                         else (b2, Ok (value_start, repn))
                     end
            end
          else (buf, Err E_TYPE_EXISTS)
      end
  | Err e => (buf, Err e)
  | Panic => (buf, Panic)
  end.

(** init_value: alloc(size_of V) then write V::default() *)
Definition init_value (buf : list byte) (t : tag) (dflt : list byte) (allow_rep : bool) : list byte * outcome (N * N) :=
  match alloc buf t (len dflt) allow_rep with
  | (b, Ok (vs, r)) =>
      match write_at b vs dflt with
      | Some b' => (b', Ok (vs, r))
      | None => (b, Panic)
      end
  | other => other
  end.

(** slice.copy_within(src_start..src_end, dest) and slice[a..b].fill(0) *)
Definition copy_within (buf : list byte) (s e d : N) : option (list byte) :=
  match slice buf s e with
  | None => None
  | Some src => write_at buf d src
  end.
Definition fill_zero (buf : list byte) (a b : N) : option (list byte) :=
  if (a <=? b) && (b <=? len buf) then write_at buf a (zeros (N.to_nat (b - a))) else None.

(** realloc_with_repetition: returns value_start *)
Definition realloc (buf : list byte) (t : tag) (length : N) (rep : N) : list byte * outcome N :=
  match get_indices buf t false (Some rep) with
  | Ok (type_start, _) =>
      let length_start := type_start + TAGW in
      let value_start := length_start + LENW in
      match discs_and_end buf with
      | Ok (_, end_index) =>
          match slice buf length_start value_start with
          | None => (buf, Panic)
          | Some lb =>
              let old_length := le_dec lb in
              if (old_length <? length) && (len buf <? end_index + (length - old_length))
              then (buf, Err E_INVALID_ACCOUNT_DATA)
              else if U32_LIMIT <=? length then (buf, Err E_TOO_SMALL)
              else match write_at buf length_start (le_enc 4 length) with
                   | None => (buf, Panic)
                   | Some b1 =>
                       let old_value_end := value_start + old_length in
                       let new_value_end := value_start + length in
                       match copy_within b1 old_value_end end_index new_value_end with
                       | None => (b1, Panic)
                       | Some b2 =>
                           if length <? old_length then
                             match fill_zero b2 (end_index - (old_length - length)) end_index with
                             | Some b3 => (b3, Ok value_start)
                             | None => (b2, Panic)
                             end
                           else if old_length <? length then
                             match fill_zero b2 old_value_end new_value_end with
                             | Some b3 => (b3, Ok value_start)
                             | None => (b2, Panic)
                             end
                           else (b2, Ok value_start)
                       end
                   end
          end
      | Err e => (buf, Err e)
      | Panic => (buf, Panic)
      end
  | Err e => (buf, Err e)
  | Panic => (buf, Panic)
  end.

(** pack_variable_len_value_with_repetition with a packer that writes [enc] at the
    start of the slot when it fits.  On failure a packer may have written a prefix
    of the slot: [partial = true] models `borsh::to_writer` into `&mut [u8]`
    (writes as much as fits), [false] a packer that checks first. *)
Definition pack_var (buf : list byte) (t : tag) (rep : N) (enc : list byte) (partial : bool) : list byte * outcome N :=
  match get_bytes buf t rep with
  | Ok (vs, v) =>
      if len enc <=? len v then
        match write_at buf vs enc with
        | Some b => (b, Ok vs)
        | None => (buf, Panic)
        end
      else if partial then
        match write_at buf vs (firstn (length v) enc) with
        | Some b => (b, Err E_PACK)
        | None => (buf, Panic)
        end
      else (buf, Err E_PACK)
  | Err e => (buf, Err e)
  | Panic => (buf, Panic)
  end.

(** alloc_and_pack_variable_len_entry: returns the repetition number *)
Definition alloc_and_pack (buf : list byte) (t : tag) (enc : list byte) (allow_rep : bool) : list byte * outcome (N * N) :=
  match alloc buf t (len enc) allow_rep with
  | (b, Ok (vs, r)) =>
      match write_at b vs enc with
      | Some b' => (b', Ok (vs, r))
      | None => (b, Panic)
      end
  | other => other
  end.

(** * Operations of a history.  Every operation first re-opens the buffer
    ([TlvStateMut::unpack] = [check_data]), as a transaction would. *)
Inductive op :=
| OAlloc (t : tag) (length : N) (allow_rep : bool)
| OInit (t : tag) (dflt : list byte) (allow_rep : bool)
| ORealloc (t : tag) (length : N) (rep : N)
| OWrite (t : tag) (rep : N) (new : list byte)
| OWriteTyped (t : tag) (rep : N) (size : N) (new : list byte)
| OPackVar (t : tag) (rep : N) (enc : list byte) (partial : bool)
| OAllocPack (t : tag) (enc : list byte) (allow_rep : bool).

(** observable result of an operation: two numbers (value_start, repetition/0) *)
Definition obs := (N * N)%type.
Definition lift1 (r : list byte * outcome N) : list byte * outcome obs :=
  (fst r, match snd r with Ok a => Ok (a, 0) | Err e => Err e | Panic => Panic end).

Definition step (buf : list byte) (o : op) : list byte * outcome obs :=
  match check_data buf with
  | Ok _ =>
      match o with
      | OAlloc t l a => alloc buf t l a
      | OInit t d a => init_value buf t d a
      | ORealloc t l r => lift1 (realloc buf t l r)
      | OWrite t r new => lift1 (write_value buf t r new)
      | OWriteTyped t r sz new => lift1 (write_typed buf t r sz new)
      | OPackVar t r enc p => lift1 (pack_var buf t r enc p)
      | OAllocPack t enc a => alloc_and_pack buf t enc a
      end
  | Err e => (buf, Err e)
  | Panic => (buf, Panic)
  end.

Definition run (ops : list op) (buf : list byte) : list byte := fold_left (fun b o => fst (step b o)) ops buf.
