(** copy_within / fill on a slab written as concatenated pieces: the two branches of
    realloc_with_repetition after the length field has been rewritten. *)
From SplVerif Require Import Lib.Base Tlv.Model.
Local Open Scope N_scope.

Section Moves.
Implicit Types A V T Zd Zr Vk Vd : list byte.

Lemma fill_zero_app (P M Q : list byte) a b :
  a = len P -> b = len P + len M -> fill_zero (P ++ M ++ Q) a b = Some (P ++ zeros (length M) ++ Q).
Proof.
  intros -> ->. unfold fill_zero. rewrite !len_app.
  replace (_ && _) with true by lia.
  replace (N.to_nat (len P + len M - len P)) with (length M) by (unfold len; lia).
  apply write_at_app; [reflexivity|]. now rewrite zeros_length.
Qed.

(** same size: the tail is copied onto itself *)
Lemma cw_same A T Zr :
  copy_within (A ++ T ++ Zr) (len A) (len A + len T) (len A) = Some (A ++ T ++ Zr).
Proof.
  unfold copy_within. rewrite (slice_app A T Zr) by reflexivity.
  now apply write_at_app.
Qed.

Lemma cw_grow A V T Zd Zr :
  copy_within (A ++ V ++ T ++ Zd ++ Zr) (len A + len V) (len A + len V + len T) (len A + len V + len Zd)
  = Some ((A ++ V ++ firstn (length Zd) (T ++ Zd)) ++ T ++ Zr).
Proof.
  unfold copy_within.
  rewrite (app_assoc A V). rewrite (slice_app (A ++ V) T (Zd ++ Zr)) by (rewrite ?len_app; lia).
  set (TZ := T ++ Zd).
  assert (HTZ : length TZ = (length T + length Zd)%nat) by (unfold TZ; now rewrite app_length).
  assert (Hbuf : (A ++ V) ++ T ++ Zd ++ Zr = (A ++ V ++ firstn (length Zd) TZ) ++ skipn (length Zd) TZ ++ Zr).
  { unfold TZ. rewrite <- !app_assoc. f_equal. f_equal.
    rewrite (app_assoc T Zd Zr). rewrite <- (firstn_skipn (length Zd) (T ++ Zd)) at 1. now rewrite <- app_assoc. }
  rewrite Hbuf. apply write_at_app.
  - rewrite !len_app. unfold len. rewrite firstn_length. lia.
  - rewrite skipn_length. lia.
Qed.

Lemma fill_after_grow A V T Zd Zr :
  fill_zero ((A ++ V ++ firstn (length Zd) (T ++ Zd)) ++ T ++ Zr) (len A + len V) (len A + len V + len Zd)
  = Some (A ++ V ++ zeros (length Zd) ++ T ++ Zr).
Proof.
  rewrite <- !app_assoc. rewrite (app_assoc A V).
  rewrite (fill_zero_app (A ++ V) (firstn (length Zd) (T ++ Zd)) (T ++ Zr)).
  - rewrite firstn_length, app_length. replace (Nat.min _ _) with (length Zd) by lia. now rewrite <- app_assoc.
  - now rewrite len_app.
  - rewrite len_app. unfold len. rewrite firstn_length, app_length. lia.
Qed.

Lemma cw_shrink A Vk Vd T Zr :
  copy_within (A ++ Vk ++ Vd ++ T ++ Zr) (len A + len Vk + len Vd) (len A + len Vk + len Vd + len T) (len A + len Vk)
  = Some ((A ++ Vk) ++ T ++ skipn (length T) (Vd ++ T) ++ Zr).
Proof.
  unfold copy_within.
  rewrite (app_assoc Vk Vd), (app_assoc A (Vk ++ Vd)).
  rewrite (slice_app (A ++ Vk ++ Vd) T Zr) by (rewrite ?len_app; lia).
  set (VT := Vd ++ T).
  assert (HVT : length VT = (length Vd + length T)%nat) by (unfold VT; now rewrite app_length).
  assert (Hbuf : (A ++ Vk ++ Vd) ++ T ++ Zr = (A ++ Vk) ++ firstn (length T) VT ++ (skipn (length T) VT ++ Zr)).
  { unfold VT. rewrite <- !app_assoc. f_equal. f_equal.
    rewrite (app_assoc Vd T Zr). rewrite <- (firstn_skipn (length T) (Vd ++ T)) at 1. now rewrite <- app_assoc. }
  rewrite Hbuf. apply write_at_app.
  - now rewrite len_app.
  - rewrite firstn_length. lia.
Qed.

Lemma fill_after_shrink A Vk Vd T Zr :
  fill_zero ((A ++ Vk) ++ T ++ skipn (length T) (Vd ++ T) ++ Zr)
            (len A + len Vk + len Vd + len T - len Vd) (len A + len Vk + len Vd + len T)
  = Some (A ++ Vk ++ T ++ zeros (length Vd) ++ Zr).
Proof.
  rewrite (app_assoc (A ++ Vk) T).
  rewrite (fill_zero_app ((A ++ Vk) ++ T) (skipn (length T) (Vd ++ T)) Zr).
  - rewrite skipn_length, app_length. replace (_ + _ - _)%nat with (length Vd) by lia. now rewrite <- !app_assoc.
  - rewrite !len_app. lia.
  - rewrite !len_app. unfold len. rewrite skipn_length, app_length. lia.
Qed.
End Moves.
