(** Walk lemmas: what the two fuelled loops of state.rs compute on a byte string of
    the form [P ++ enc es ++ tail]. *)
From SplVerif Require Import Lib.Base Tlv.Model Tlv.Spec.
Local Open Scope N_scope.

Lemma len_cons {A} (x : A) l : len (x :: l) = 1 + len l.
Proof. unfold len. cbn [length]. lia. Qed.
Lemma len_nil {A} : len (@nil A) = 0. Proof. reflexivity. Qed.
Lemma len_le_enc k n : len (le_enc k n) = N.of_nat k.
Proof. unfold len. now rewrite le_enc_length. Qed.

Lemma tag_eqb_eq a b : tag_eqb a b = true <-> a = b.
Proof. apply list_byte_eqb_eq. Qed.
Lemma tag_eqb_refl a : tag_eqb a a = true.
Proof. now apply tag_eqb_eq. Qed.
Lemma tag_eqb_neq a b : a <> b -> tag_eqb a b = false.
Proof. intros H. destruct (tag_eqb a b) eqn:E; [apply tag_eqb_eq in E; contradiction|reflexivity]. Qed.
Lemma tag_eqb_sym a b : tag_eqb a b = tag_eqb b a.
Proof.
  destruct (tag_eqb a b) eqn:E.
  - apply tag_eqb_eq in E. subst. now rewrite tag_eqb_refl.
  - destruct (tag_eqb b a) eqn:E2; [|reflexivity]. apply tag_eqb_eq in E2. subst. now rewrite tag_eqb_refl in E.
Qed.

Lemma wf_tag_len t : wf_tag t -> len t = 8.
Proof. intros [H _]. unfold len. rewrite H. reflexivity. Qed.
Lemma wf_tag_nonzero t : wf_tag t -> tag_eqb t zero_tag = false.
Proof. intros [_ H]. now apply tag_eqb_neq. Qed.

Lemma enc_entry_len e : wf_entry e -> len (enc_entry e) = HDR + len (snd e).
Proof.
  intros [Ht _]. unfold enc_entry. rewrite !len_app, len_le_enc, (wf_tag_len _ Ht). unfold HDR. lia.
Qed.
Lemma enc_cons e es : enc (e :: es) = enc_entry e ++ enc es.
Proof. reflexivity. Qed.
Lemma enc_app a b : enc (a ++ b) = enc a ++ enc b.
Proof. unfold enc. now rewrite map_app, concat_app. Qed.
Lemma enc_nil : enc (@nil entry) = []. Proof. reflexivity. Qed.
Lemma enc_snoc es e : enc (es ++ [e]) = enc es ++ enc_entry e.
Proof. rewrite enc_app. unfold enc at 2. cbn [map concat]. now rewrite app_nil_r. Qed.

(** reading one encoded entry at its start offset *)
Lemma entry_reads (P R : list byte) e :
  wf_entry e ->
  let buf := P ++ enc_entry e ++ R in
  let s := len P in
  (len buf <? s + TAGW + LENW) = false /\
  slice buf s (s + TAGW) = Some (fst e) /\
  slice buf (s + TAGW) (s + TAGW + LENW) = Some (le_enc 4 (len (snd e))) /\
  le_dec (le_enc 4 (len (snd e))) = len (snd e) /\
  len buf = s + HDR + len (snd e) + len R.
Proof.
  intros [Ht Hv]. cbv zeta. unfold enc_entry, TAGW, LENW, HDR in *.
  pose proof (wf_tag_len _ Ht) as HL.
  assert (Hbl : len (P ++ (fst e ++ le_enc 4 (len (snd e)) ++ snd e) ++ R) = len P + 12 + len (snd e) + len R).
  { rewrite !len_app, len_le_enc, HL. lia. }
  repeat split.
  - rewrite Hbl. lia.
  - rewrite <- !app_assoc. apply slice_app; [reflexivity|lia].
  - rewrite <- !app_assoc. rewrite (app_assoc P (fst e)). apply slice_app; rewrite ?len_app, ?len_le_enc; lia.
  - apply le_dec_enc_small. unfold U32_LIMIT in Hv. change (256 ^ N.of_nat 4) with 4294967296. exact Hv.
  - exact Hbl.
Qed.

(** * get_indices *)
Fixpoint seek (es : list entry) (t : tag) (rep : option N) (cur off : N) : (N * N) + (N * N) :=
  match es with
  | [] => inr (off, cur)
  | e :: es' =>
      if tag_eqb (fst e) t then
        if rep_matches rep cur then inl (off, cur)
        else seek es' t rep (cur + 1) (off + HDR + len (snd e))
      else seek es' t rep cur (off + HDR + len (snd e))
  end.

Lemma gi_loop_entry fuel (P R : list byte) e t init rep cur :
  wf_entry e ->
  get_indices_loop (S fuel) (P ++ enc_entry e ++ R) t init rep cur (len P) =
  if tag_eqb (fst e) t then
    if rep_matches rep cur then Ok (len P, cur)
    else get_indices_loop fuel (P ++ enc_entry e ++ R) t init rep (cur + 1) (len P + HDR + len (snd e))
  else get_indices_loop fuel (P ++ enc_entry e ++ R) t init rep cur (len P + HDR + len (snd e)).
Proof.
  intros He. destruct (entry_reads P R e He) as (H1 & H2 & H3 & H4 & H5).
  cbn [get_indices_loop]. rewrite H5.
  replace (len P <? _) with true by (unfold HDR; lia).
  rewrite H5 in H1. rewrite H1, H2, H3, H4.
  replace (len P + TAGW + LENW + len (snd e)) with (len P + HDR + len (snd e)) by (unfold TAGW, LENW, HDR; lia).
  destruct (tag_eqb (fst e) t); [reflexivity|].
  rewrite (wf_tag_nonzero _ (proj1 He)). reflexivity.
Qed.

Lemma gi_loop_enc es : forall fuel (P tail : list byte) t init rep cur,
  Forall wf_entry es ->
  get_indices_loop (length es + fuel) (P ++ enc es ++ tail) t init rep cur (len P) =
  match seek es t rep cur (len P) with
  | inl r => Ok r
  | inr (off, c) => get_indices_loop fuel (P ++ enc es ++ tail) t init rep c off
  end.
Proof.
  induction es as [|e es IH]; intros fuel P tail t init rep cur Hwf.
  - reflexivity.
  - inversion Hwf as [|? ? He Hes]; subst. cbn [length Nat.add seek].
    rewrite enc_cons, <- app_assoc. rewrite gi_loop_entry by assumption.
    pose proof (enc_entry_len e He) as HL.
    assert (Hoff : len P + HDR + len (snd e) = len (P ++ enc_entry e)) by (rewrite len_app; lia).
    rewrite Hoff. rewrite !(app_assoc P (enc_entry e)).
    destruct (tag_eqb (fst e) t); [destruct (rep_matches rep cur); [reflexivity|]|]; apply IH; assumption.
Qed.

Lemma seek_inr es t : forall rep cur off o c,
  Forall wf_entry es -> seek es t rep cur off = inr (o, c) -> o = off + len (enc es).
Proof.
  induction es as [|e es IH]; intros rep cur off o c Hwf H.
  - cbn in H. injection H as <- <-. rewrite enc_nil, len_nil. lia.
  - inversion Hwf as [|? ? He Hes]; subst. cbn [seek] in H.
    rewrite enc_cons, len_app, (enc_entry_len e He).
    destruct (tag_eqb (fst e) t); [destruct (rep_matches rep cur); [discriminate|]|];
      apply IH in H; try assumption; lia.
Qed.

(** at the terminator *)
Definition term (tail : list byte) : Prop :=
  tail = [] \/ (length tail < 8 /\ all_zero tail = true)%nat \/ (8 <= length tail /\ firstn 8 tail = zero_tag)%nat.

Lemma term_long tail : term tail -> (8 <= length tail)%nat ->
  exists rest, tail = zero_tag ++ rest.
Proof.
  intros [->|[[Hl _]|[_ Hz]]] H8; [cbn in H8; lia|lia|].
  exists (skipn 8 tail). rewrite <- Hz. now rewrite firstn_skipn.
Qed.

Lemma gi_loop_tail fuel (P tail : list byte) t init rep cur :
  term tail -> wf_tag t ->
  get_indices_loop (S fuel) (P ++ tail) t init rep cur (len P) =
  if (12 <=? length tail)%nat then (if init then Ok (len P, cur) else Err E_TYPE_NOT_FOUND)
  else Err E_INVALID_ACCOUNT_DATA.
Proof.
  intros Hterm Ht. cbn [get_indices_loop]. rewrite len_app. unfold TAGW, LENW.
  destruct (12 <=? length tail)%nat eqn:E12.
  - apply Nat.leb_le in E12. destruct (term_long tail Hterm ltac:(lia)) as [rest ->].
    assert (H8 : len zero_tag = 8) by reflexivity.
    rewrite app_length in E12. change (length zero_tag) with 8%nat in E12.
    set (l4 := firstn 4 rest). set (r2 := skipn 4 rest).
    assert (Hr : rest = l4 ++ r2) by (unfold l4, r2; now rewrite firstn_skipn).
    assert (Hl4 : len l4 = 4) by (unfold l4, len; rewrite firstn_length; lia).
    clearbody l4 r2. subst rest.
    rewrite !len_app, H8, Hl4.
    replace (len P <? _) with true by lia. replace (_ <? len P + 8 + 4) with false by lia.
    rewrite (slice_app P zero_tag _ (len P) (len P + 8)) by lia.
    rewrite (app_assoc P zero_tag).
    rewrite (slice_app (P ++ zero_tag) l4 _ (len P + 8) (len P + 8 + 4)) by (rewrite ?len_app; lia).
    rewrite tag_eqb_sym, (wf_tag_nonzero t Ht), tag_eqb_refl. reflexivity.
  - apply Nat.leb_gt in E12. assert (HT : len tail < 12) by (unfold len; lia).
    destruct (len P <? len P + len tail) eqn:E; [|reflexivity].
    replace (_ <? len P + 8 + 4) with true by lia. reflexivity.
Qed.

(** * get_discriminators_and_end_index *)
Lemma discs_loop_entry fuel (P R : list byte) e :
  wf_entry e ->
  discs_loop (S fuel) (P ++ enc_entry e ++ R) (len P) =
  let? r := discs_loop fuel (P ++ enc_entry e ++ R) (len P + HDR + len (snd e)) in Ok (fst e :: fst r, snd r).
Proof.
  intros He. destruct (entry_reads P R e He) as (H1 & H2 & H3 & H4 & H5).
  cbn [discs_loop]. rewrite H5.
  replace (len P <? _) with true by (unfold HDR; lia).
  replace (_ <? len P + TAGW) with false by (unfold HDR, TAGW; lia).
  rewrite H2. rewrite (wf_tag_nonzero _ (proj1 He)).
  rewrite H5 in H1. rewrite H1, H3, H4.
  replace (_ <? len P + TAGW + LENW + len (snd e)) with false by (unfold HDR, TAGW, LENW; lia).
  replace (len P + TAGW + LENW + len (snd e)) with (len P + HDR + len (snd e)) by (unfold TAGW, LENW, HDR; lia).
  reflexivity.
Qed.

Lemma discs_loop_enc es : forall fuel (P tail : list byte),
  Forall wf_entry es ->
  discs_loop (length es + fuel) (P ++ enc es ++ tail) (len P) =
  let? r := discs_loop fuel (P ++ enc es ++ tail) (len P + len (enc es)) in Ok (map fst es ++ fst r, snd r).
Proof.
  induction es as [|e es IH]; intros fuel P tail Hwf.
  - cbn [length Nat.add enc map concat app]. rewrite len_nil, N.add_0_r.
    destruct (discs_loop fuel _ _) as [[ds e]| |]; reflexivity.
  - inversion Hwf as [|? ? He Hes]; subst. cbn [length Nat.add].
    rewrite enc_cons, <- app_assoc. rewrite discs_loop_entry by assumption.
    pose proof (enc_entry_len e He) as HL.
    assert (Hoff : len P + HDR + len (snd e) = len (P ++ enc_entry e)) by (rewrite len_app; lia).
    rewrite Hoff. rewrite !(app_assoc P (enc_entry e)). rewrite IH by assumption.
    rewrite !len_app. replace (len P + (len (enc_entry e) + len (enc es))) with (len P + len (enc_entry e) + len (enc es)) by lia.
    destruct (discs_loop fuel _ _) as [[ds en]| |]; reflexivity.
Qed.

Lemma discs_loop_tail fuel (P tail : list byte) :
  term tail -> discs_loop (S fuel) (P ++ tail) (len P) = Ok ([], len P).
Proof.
  intros Hterm. cbn [discs_loop]. rewrite len_app. unfold TAGW, LENW.
  destruct (8 <=? length tail)%nat eqn:E8.
  - apply Nat.leb_le in E8. destruct (term_long tail Hterm E8) as [rest ->].
    assert (H8 : len zero_tag = 8) by reflexivity.
    rewrite !len_app, H8.
    replace (len P <? _) with true by lia. replace (_ <? len P + 8) with false by lia.
    rewrite (slice_app P zero_tag _ (len P) (len P + 8)) by lia.
    rewrite tag_eqb_refl. reflexivity.
  - apply Nat.leb_gt in E8. assert (HT : len tail < 8) by (unfold len; lia).
    destruct (len P <? len P + len tail) eqn:E; [|reflexivity].
    replace (_ <? len P + 8) with true by lia.
    unfold slice_from. rewrite len_app. replace (len P <=? _) with true by lia.
    unfold len at 1. rewrite Nnat.Nat2N.id, skipn_exact.
    destruct Hterm as [->|[[_ Hz]|[Hl _]]]; [reflexivity|now rewrite Hz|lia].
Qed.

(** every entry occupies at least 12 bytes, so [S (length buf)] is enough fuel *)
Lemma enc_length_ge es : Forall wf_entry es -> 12 * N.of_nat (length es) <= len (enc es).
Proof.
  induction 1 as [|e es He Hes IH]; [cbn; lia|].
  rewrite enc_cons, len_app, (enc_entry_len e He). cbn [length]. unfold HDR. lia.
Qed.

Theorem discs_and_end_wf es tail :
  Forall wf_entry es -> term tail ->
  discs_and_end (enc es ++ tail) = Ok (map fst es, len (enc es)).
Proof.
  intros Hwf Hterm. unfold discs_and_end.
  pose proof (enc_length_ge es Hwf) as Hge.
  assert (Hf : exists f, S (length (enc es ++ tail)) = (length es + S f)%nat).
  { exists (length (enc es ++ tail) - length es)%nat. rewrite app_length. unfold len in Hge. lia. }
  destruct Hf as [f ->].
  pose proof (discs_loop_enc es (S f) [] tail Hwf) as H. cbn [app] in H. change (@len byte []) with 0 in H. rewrite ?N.add_0_l in H.
  rewrite H. pose proof (discs_loop_tail f (enc es) tail Hterm) as Ht.
  rewrite Ht. cbn [bind fst snd]. now rewrite app_nil_r.
Qed.

Theorem get_indices_wf es tail t init rep :
  Forall wf_entry es -> term tail -> wf_tag t ->
  get_indices (enc es ++ tail) t init rep =
  match seek es t rep 0 0 with
  | inl r => Ok r
  | inr (off, c) =>
      if (12 <=? length tail)%nat then (if init then Ok (off, c) else Err E_TYPE_NOT_FOUND)
      else Err E_INVALID_ACCOUNT_DATA
  end.
Proof.
  intros Hwf Hterm Ht. unfold get_indices.
  pose proof (enc_length_ge es Hwf) as Hge.
  assert (Hf : exists f, S (length (enc es ++ tail)) = (length es + S f)%nat).
  { exists (length (enc es ++ tail) - length es)%nat. rewrite app_length. unfold len in Hge. lia. }
  destruct Hf as [f ->].
  pose proof (gi_loop_enc es (S f) [] tail t init rep 0 Hwf) as H. cbn [app] in H. change (@len byte []) with 0 in H.
  rewrite H. destruct (seek es t rep 0 0) as [r|[off c]] eqn:Es; [reflexivity|].
  apply seek_inr in Es; [|assumption]. rewrite N.add_0_l in Es. subst off.
  apply gi_loop_tail; assumption.
Qed.
