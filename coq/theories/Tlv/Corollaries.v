(** Consequences of the refinement used by the property files C01, C03, C04. *)
From SplVerif Require Import Lib.Base Tlv.Model Tlv.Spec Tlv.Walk Tlv.Parse Tlv.Moves Tlv.Ops Tlv.Refine.
Local Open Scope N_scope.

Lemma render_nil n : render n [] = zeros n.
Proof. unfold render. cbn. now rewrite Nat.sub_0_r. Qed.
Lemma fits_nil n : fits n [].
Proof. split; [constructor|cbn; lia]. Qed.

Definition lookup_value (es : list entry) (t : tag) (r : N) : option (list byte) :=
  match split_entry es t r with Some (_, v, _) => Some v | None => None end.

(** reading back: the r-th entry of type t, at its offset; an error if there is none *)
Theorem read_back n es t r : fits n es -> wf_tag t ->
  match split_entry es t r with
  | Some (a, v, b) => get_bytes (render n es) t r = Ok (voff a, v)
  | None => exists e, get_bytes (render n es) t r = Err e
  end.
Proof. intros [Hwf _] Ht. unfold render. apply get_bytes_WF; [assumption|apply term_zeros|assumption]. Qed.

Theorem listed_order n es : fits n es -> get_discriminators (render n es) = Ok (map fst es).
Proof. intros [Hwf _]. unfold render. apply get_discriminators_WF; [assumption|apply term_zeros]. Qed.

(** shape of the new entry list: an operation on entry (t, r) replaces that entry's
    value and nothing else; an allocation appends one entry *)
Definition is_push (o : op) : bool :=
  match o with OAlloc _ _ _ | OInit _ _ _ | OAllocPack _ _ _ => true | _ => false end.
Definition op_rep (o : op) : N :=
  match o with ORealloc _ _ r | OWrite _ r _ | OWriteTyped _ r _ _ | OPackVar _ r _ _ => r | _ => 0 end.

Theorem s_step_shape n es o :
  if is_push o
  then fst (s_step n es o) = es \/ exists v, fst (s_step n es o) = es ++ [(op_tag o, v)]
  else fst (s_step n es o) = es \/
       exists a v b w, split_entry es (op_tag o) (op_rep o) = Some (a, v, b) /\
                       fst (s_step n es o) = a ++ (op_tag o, w) :: b.
Proof.
  destruct o as [t l a|t d a|t l r|t r new|t r sz new|t r e p|t e a]; cbn [is_push op_tag op_rep s_step].
  1,2,7: unfold s_push; destruct (_ && _); cbn [fst]; eauto.
  all: destruct (split_entry es t r) as [[[a v] b]|] eqn:Esp; cbn [fst]; auto.
  - destruct (_ && _); cbn [fst]; auto. destruct (_ <=? _); cbn [fst]; auto. right. eauto 8.
  - destruct (_ =? _); cbn [fst]; auto. right. eauto 8.
  - destruct (_ =? _); cbn [fst]; auto. destruct (_ =? _); cbn [fst]; auto. right. eauto 8.
  - destruct (_ <=? _); cbn [fst]; [right; eauto 8|]. destruct p; cbn [fst]; auto. right. eauto 8.
Qed.

(** ... hence every other entry keeps its value, its repetition number and its place *)
Lemma lookup_value_other a t (v w : list byte) b t' r' :
  (t' <> t \/ r' <> count t a) ->
  lookup_value (a ++ (t, w) :: b) t' r' = lookup_value (a ++ (t, v) :: b) t' r'.
Proof.
  unfold lookup_value. revert r'. induction a as [|a0 a IH]; intros r' Hne.
  - cbn [app split_entry fst snd]. destruct (tag_eqb t t') eqn:Et.
    + apply tag_eqb_eq in Et. subst t'. destruct Hne as [Hne|Hne]; [congruence|]. cbn [count fold_right] in Hne.
      replace (r' =? 0) with false by lia. destruct (split_entry b t (r' - 1)) as [[[? ?] ?]|]; reflexivity.
    + destruct (split_entry b t' r') as [[[? ?] ?]|]; reflexivity.
  - cbn [app split_entry]. destruct (tag_eqb (fst a0) t') eqn:Et.
    + destruct (r' =? 0) eqn:Er; [reflexivity|].
      assert (Hne' : t' <> t \/ r' - 1 <> count t a).
      { destruct Hne as [Hne|Hne]; [left; exact Hne|]. destruct (list_eq_dec Byte.byte_eq_dec t' t) as [->|Hd]; [|left; exact Hd].
        right. cbn [count fold_right] in Hne. fold (count t a) in Hne. rewrite Et in Hne. lia. }
      specialize (IH (r' - 1) Hne').
      destruct (split_entry (a ++ (t, w) :: b) t' (r' - 1)) as [[[? ?] ?]|], (split_entry (a ++ (t, v) :: b) t' (r' - 1)) as [[[? ?] ?]|];
        cbn in *; congruence.
    + assert (Hne' : t' <> t \/ r' <> count t a).
      { destruct Hne as [Hne|Hne]; [left; exact Hne|]. destruct (list_eq_dec Byte.byte_eq_dec t' t) as [->|Hd]; [|left; exact Hd].
        right. cbn [count fold_right] in Hne. fold (count t a) in Hne. rewrite Et in Hne. exact Hne. }
      specialize (IH r' Hne').
      destruct (split_entry (a ++ (t, w) :: b) t' r') as [[[? ?] ?]|], (split_entry (a ++ (t, v) :: b) t' r') as [[[? ?] ?]|];
        cbn in *; congruence.
Qed.

Lemma lookup_value_push es t v t' r' :
  lookup_value es t' r' <> None -> lookup_value (es ++ [(t, v)]) t' r' = lookup_value es t' r'.
Proof.
  unfold lookup_value. revert r'. induction es as [|e es IH]; intros r' H; [cbn in H; congruence|].
  cbn [app split_entry] in *. destruct (tag_eqb (fst e) t').
  - destruct (r' =? 0); [reflexivity|]. specialize (IH (r' - 1)).
    destruct (split_entry es t' (r' - 1)) as [[[? ?] ?]|]; [|congruence].
    specialize (IH ltac:(congruence)). destruct (split_entry (es ++ [(t, v)]) t' (r' - 1)) as [[[? ?] ?]|]; cbn in *; congruence.
  - specialize (IH r'). destruct (split_entry es t' r') as [[[? ?] ?]|]; [|congruence].
    specialize (IH ltac:(congruence)). destruct (split_entry (es ++ [(t, v)]) t' r') as [[[? ?] ?]|]; cbn in *; congruence.
Qed.

Theorem isolation n es o t' r' :
  (is_push o = false -> t' <> op_tag o \/ r' <> op_rep o) ->
  lookup_value es t' r' <> None ->
  lookup_value (fst (s_step n es o)) t' r' = lookup_value es t' r'.
Proof.
  intros Hne Hex. pose proof (s_step_shape n es o) as H. destruct (is_push o).
  - destruct H as [->|[v ->]]; [reflexivity|]. now apply lookup_value_push.
  - destruct H as [->|(a & v & b & w & Hsp & ->)]; [reflexivity|].
    destruct (split_entry_spec _ _ _ _ _ _ Hsp) as [-> Hc].
    apply lookup_value_other. rewrite Hc. now apply Hne.
Qed.
Theorem order_kept n es o :
  is_push o = false -> map fst (fst (s_step n es o)) = map fst es.
Proof.
  intros Hp. pose proof (s_step_shape n es o) as H. rewrite Hp in H.
  destruct H as [->|(a & v & b & w & Hsp & ->)]; [reflexivity|].
  destruct (split_entry_spec _ _ _ _ _ _ Hsp) as [-> _]. now rewrite !map_app.
Qed.

(** * C04 *)
Definition is_pack_var (o : op) : bool := match o with OPackVar _ _ _ _ => true | _ => false end.
Lemma s_step_err_unchanged n es o e :
  is_pack_var o = false -> snd (s_step n es o) = Err e -> fst (s_step n es o) = es.
Proof.
  destruct o as [t l a|t d a|t l r|t r new|t r sz new|t r en p|t en a]; cbn [is_pack_var s_step]; intros Hp; try discriminate.
  1,2,6: unfold s_push; destruct (_ && _); cbn [fst snd]; congruence.
  all: destruct (split_entry es t r) as [[[a v] b]|]; cbn [fst snd]; auto.
  - destruct (_ && _); cbn [fst snd]; auto. destruct (_ <=? _); cbn [fst snd]; auto. discriminate.
  - destruct (_ =? _); cbn [fst snd]; auto. discriminate.
  - destruct (_ =? _); cbn [fst snd]; auto. destruct (_ =? _); cbn [fst snd]; auto. discriminate.
Qed.

Theorem failed_op_unchanged n es o e :
  fits n es -> wf_op o -> is_pack_var o = false ->
  snd (step (render n es) o) = Err e -> fst (step (render n es) o) = render n es.
Proof.
  intros Hfit Ho Hp Herr. destruct (step_refines n es o Hfit Ho) as (out' & Hs & Heq & _).
  rewrite Hs in *. cbn [fst snd] in *. subst out'.
  destruct (snd (s_step n es o)) as [x|e'|] eqn:Es; cbn in Heq; try contradiction.
  now rewrite (s_step_err_unchanged n es o e' Hp Es).
Qed.
Theorem failed_op_still_opens n es o e :
  fits n es -> wf_op o -> snd (step (render n es) o) = Err e -> check_data (fst (step (render n es) o)) = Ok tt.
Proof.
  intros Hfit Ho _. destruct (step_refines n es o Hfit Ho) as (out' & Hs & _ & Hf).
  rewrite Hs. cbn [fst]. now apply check_data_canon.
Qed.
Theorem no_panic n es o : fits n es -> wf_op o ->
  (forall t r new, o = OWrite t r new -> lookup_value es t r <> None -> True) ->
  snd (step (render n es) o) = Panic -> snd (s_step n es o) = Panic.
Proof.
  intros Hfit Ho _ Hp. destruct (step_refines n es o Hfit Ho) as (out' & Hs & Heq & _).
  rewrite Hs in Hp. cbn [snd] in Hp. subst out'. destruct (snd (s_step n es o)); cbn in Heq; try contradiction. reflexivity.
Qed.

(** failed variable-length pack: bytes outside the entry's value region are untouched *)
Theorem failed_pack_confined n es t r en p e a v b :
  fits n es -> wf_tag t -> split_entry es t r = Some (a, v, b) ->
  snd (step (render n es) (OPackVar t r en p)) = Err e ->
  let buf' := fst (step (render n es) (OPackVar t r en p)) in
  firstn (N.to_nat (voff a)) buf' = firstn (N.to_nat (voff a)) (render n es) /\
  skipn (N.to_nat (voff a + len v)) buf' = skipn (N.to_nat (voff a + len v)) (render n es) /\
  length buf' = length (render n es).
Proof.
  intros Hfit Ht Hsp Herr. cbv zeta.
  destruct (step_refines n es (OPackVar t r en p) Hfit Ht) as (out' & Hs & Heq & Hf).
  rewrite Hs in *. cbn [fst snd] in *. subst out'. cbn [s_step] in *. rewrite Hsp in *.
  destruct (split_entry_spec _ _ _ _ _ _ Hsp) as [Hes _].
  destruct (len en <=? len v) eqn:El; cbn [fst snd] in *; [contradiction|].
  destruct p; cbn [fst snd] in *; [|repeat split; reflexivity].
  set (w := firstn (length v) en) in *.
  assert (Hwl : length w = length v) by (unfold w, len in *; rewrite firstn_length; lia).
  rewrite Hes. rewrite !render_split, !enc_len_split, Hwl.
  set (Z := zeros _). destruct Ht as [Ht8 _].
  assert (HP : forall x : list byte, enc a ++ t ++ le_enc 4 (len x) ++ x ++ enc b ++ Z
               = ((enc a ++ t) ++ le_enc 4 (len x)) ++ x ++ enc b ++ Z) by (intros; now rewrite <- !app_assoc).
  rewrite (HP w), (HP v).
  replace (len w) with (len v) by (unfold len; now rewrite Hwl).
  assert (HL : forall x : list byte, length ((enc a ++ t) ++ le_enc 4 (len x)) = N.to_nat (voff a)).
  { intros x. rewrite !app_length, le_enc_length, Ht8. unfold voff, len, HDR. lia. }
  repeat split.
  - rewrite <- (HL v). now rewrite !firstn_exact.
  - replace (N.to_nat (voff a + len v)) with (length v + N.to_nat (voff a))%nat by (unfold len; lia).
    rewrite !skipn_add. rewrite <- (HL v). rewrite !skipn_exact.
    rewrite <- Hwl at 1. now rewrite !skipn_exact.
  - rewrite !app_length, !le_enc_length. lia.
Qed.

(** * C03 helpers *)
Fixpoint payload (es : list entry) : N :=
  match es with [] => 0 | e :: es => HDR + len (snd e) + payload es end.
Theorem enc_overhead es : Forall wf_entry es -> len (enc es) = payload es.
Proof.
  induction 1 as [|e es He Hes IH]; [reflexivity|]. rewrite enc_cons, len_app, (enc_entry_len e He). cbn [payload]. lia.
Qed.
Theorem render_tail_zero n es :
  skipn (length (enc es)) (render n es) = zeros (n - length (enc es)).
Proof. unfold render. apply skipn_exact. Qed.
