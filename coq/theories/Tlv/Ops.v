(** Each mutation of state.rs, run on a canonical slab [render n es], computes the
    canonical slab of the entry list prescribed by [Spec.s_step]. *)
From SplVerif Require Import Lib.Base Tlv.Model Tlv.Spec Tlv.Walk Tlv.Parse Tlv.Moves.
Local Open Scope N_scope.

Lemma term_zeros k : term (zeros k).
Proof.
  destruct (Nat.ltb k 8) eqn:E.
  - apply Nat.ltb_lt in E. right; left. rewrite zeros_length. split; [exact E|apply all_zero_zeros].
  - apply Nat.ltb_ge in E. right; right. rewrite zeros_length. split; [exact E|].
    rewrite firstn_zeros. now replace (Nat.min 8 k) with 8%nat by lia.
Qed.

Lemma seek_none es t : forall cur off, Forall wf_entry es ->
  seek es t None cur off = inr (off + len (enc es), cur + count t es).
Proof.
  induction es as [|e es IH]; intros cur off Hwf.
  - cbn. rewrite len_nil. f_equal. f_equal; lia.
  - inversion Hwf as [|? ? He Hes]; subst. cbn [seek rep_matches count fold_right]. fold (count t es).
    rewrite enc_cons, len_app, (enc_entry_len e He).
    destruct (tag_eqb (fst e) t); rewrite IH by assumption; f_equal; f_equal; lia.
Qed.
Lemma seek_inr_count es t rep : forall cur off o c,
  seek es t rep cur off = inr (o, c) -> c = cur + count t es.
Proof.
  induction es as [|e es IH]; intros cur off o c H.
  - cbn in *. injection H as <- <-. lia.
  - cbn [seek count fold_right] in *. fold (count t es).
    destruct (tag_eqb (fst e) t); [destruct (rep_matches rep cur); [discriminate|]|]; apply IH in H; lia.
Qed.
Lemma split0_none es t : split_entry es t 0 = None -> has t es = false /\ count t es = 0.
Proof.
  induction es as [|e es IH]; [cbn; auto|]. cbn [split_entry has existsb count fold_right].
  fold (has t es). fold (count t es).
  destruct (tag_eqb (fst e) t); [discriminate|].
  destruct (split_entry es t 0) as [[[a v] b]|]; [discriminate|]. intros _. now apply IH.
Qed.
Lemma split_some_has es t r a v b : split_entry es t r = Some (a, v, b) -> has t es = true.
Proof.
  intros H. apply split_entry_spec in H as [-> _]. unfold has. rewrite existsb_app. cbn [existsb fst].
  rewrite tag_eqb_refl. now rewrite orb_true_r.
Qed.

Lemma fits_len n es : fits n es -> len (enc es) <= N.of_nat n.
Proof. intros [_ H]. unfold len. lia. Qed.
Lemma render_len n es : fits n es -> length (render n es) = n.
Proof. intros [_ H]. unfold render. rewrite app_length, zeros_length. lia. Qed.

Lemma check_data_canon n es : fits n es -> check_data (render n es) = Ok tt.
Proof.
  intros [Hwf _]. unfold check_data, render. now rewrite (discs_and_end_wf es _ Hwf (term_zeros _)).
Qed.

(** * alloc *)
Definition push_ok (n : nat) (es : list entry) (t : tag) (l : N) (a : bool) : bool :=
  (a || negb (has t es)) && (len (enc es) + HDR + l <=? N.of_nat n) && (l <? U32_LIMIT).

Lemma alloc_canon n es t l a : fits n es -> wf_tag t ->
  (push_ok n es t l a = true ->
     alloc (render n es) t l a =
     (enc es ++ t ++ le_enc 4 l ++ zeros (n - length (enc es) - 12), Ok (voff es, count t es))) /\
  (push_ok n es t l a = false -> exists e, alloc (render n es) t l a = (render n es, Err e)).
Proof.
  intros Hfit Ht. pose proof Hfit as [Hwf Hle]. pose proof (fits_len n es Hfit) as HleN.
  set (k := (n - length (enc es))%nat).
  assert (Hr : render n es = enc es ++ zeros k) by reflexivity.
  unfold alloc. rewrite Hr.
  rewrite (get_indices_wf es (zeros k) t true _ Hwf (term_zeros k) Ht). rewrite zeros_length.
  assert (Hlenbuf : len (enc es ++ zeros k) = N.of_nat n) by (rewrite len_app, len_zeros; unfold len, k; lia).
  (* what get_indices finds *)
  assert (Hseek :
    match seek es t (if a then None else Some 0) 0 0 with
    | inl (ts, _) => a = false /\ has t es = true /\
                     exists a0 v b, es = a0 ++ (t, v) :: b /\ ts = len (enc a0)
    | inr (off, c) => off = len (enc es) /\ c = count t es /\ (a = false -> has t es = false)
    end).
  { destruct a.
    - rewrite seek_none by assumption. repeat split; try lia; try discriminate.
    - pose proof (seek_split es t 0 0 0 ltac:(lia) Hwf) as Hs. rewrite N.sub_0_r in Hs.
      destruct (split_entry es t 0) as [[[a0 v] b]|] eqn:Esp.
      + rewrite Hs. split; [reflexivity|]. split; [eapply split_some_has; eauto|].
        apply split_entry_spec in Esp as [-> _]. exists a0, v, b. split; [reflexivity|lia].
      + destruct Hs as (o & c & Hs). rewrite Hs. pose proof Hs as Hs2.
        apply seek_inr in Hs; [|assumption]. apply seek_inr_count in Hs2.
        destruct (split0_none es t Esp) as [Hh Hc]. repeat split; try lia. auto. }
  destruct (seek es t (if a then None else Some 0) 0 0) as [[ts c]|[off c]].
  - (* the type is already there *)
    destruct Hseek as (-> & Hhas & a0 & v & b & -> & ->).
    assert (Hpush : push_ok n (a0 ++ (t, v) :: b) t l false = false) by (unfold push_ok; rewrite Hhas; reflexivity).
    split; [intros H; rewrite H in Hpush; discriminate|intros _].
    apply Forall_app in Hwf as [Ha Hb]. inversion Hb as [|? ? He Hb']; subst.
    rewrite enc_app, enc_cons, <- !app_assoc.
    destruct (entry_reads (enc a0) (enc b ++ zeros k) (t, v) He) as (_ & H2 & _). cbn [fst] in H2.
    rewrite H2. rewrite (wf_tag_nonzero t Ht). eauto.
  - destruct Hseek as (-> & -> & Hnh).
    destruct (12 <=? k)%nat eqn:E12.
    2:{ apply Nat.leb_gt in E12. split; [|eauto].
        unfold push_ok. intros H. exfalso. unfold HDR, k, len in *. lia. }
    apply Nat.leb_le in E12.
    assert (Hz : zeros k = zero_tag ++ zeros 4 ++ zeros (k - 12)).
    { replace k with (8 + (4 + (k - 12)))%nat at 1 by lia. now rewrite !zeros_app. }
    assert (Hlb : len (enc es ++ zero_tag ++ zeros 4 ++ zeros (k - 12)) = N.of_nat n) by (rewrite <- Hz; exact Hlenbuf).
    rewrite Hz.
    rewrite (slice_app (enc es) zero_tag _ _ _) by (try reflexivity; unfold TAGW; reflexivity).
    rewrite tag_eqb_refl, Hlb.
    destruct (N.of_nat n <? len (enc es) + TAGW + LENW + l) eqn:Efit.
    { split; [|eauto]. unfold push_ok, HDR, TAGW, LENW in *. intros H. exfalso. lia. }
    destruct (U32_LIMIT <=? l) eqn:E32.
    { split; [|eauto]. unfold push_ok. intros H. exfalso. lia. }
    assert (Hpush : push_ok n es t l a = true).
    { unfold push_ok, HDR, TAGW, LENW in *. destruct a; cbn [orb]; [|rewrite Hnh by reflexivity; cbn [negb]]; lia. }
    split; [intros _|intros H; rewrite H in Hpush; discriminate].
    rewrite (write_at_app (enc es) zero_tag _ t) by (try reflexivity; destruct Ht as [Ht8 _]; exact Ht8).
    rewrite (app_assoc (enc es) t).
    rewrite (write_at_app (enc es ++ t) (zeros 4) _ (le_enc 4 l))
      by (rewrite ?len_app, ?(wf_tag_len t Ht), ?le_enc_length, ?zeros_length; unfold TAGW; reflexivity).
    rewrite <- app_assoc. unfold voff, TAGW, LENW, HDR.
    replace (len (enc es) + 8 + 4) with (len (enc es) + 12) by lia. reflexivity.
Qed.

(** the value region handed out by a successful alloc is zero and can be overwritten *)
Lemma alloc_then_write n es t (v : list byte) a :
  fits n es -> wf_tag t -> push_ok n es t (len v) a = true ->
  write_at (enc es ++ t ++ le_enc 4 (len v) ++ zeros (n - length (enc es) - 12)) (voff es) v
  = Some (render n (es ++ [(t, v)])) /\
  enc es ++ t ++ le_enc 4 (len v) ++ zeros (n - length (enc es) - 12) = render n (es ++ [(t, zeros (length v))]) /\
  fits n (es ++ [(t, v)]).
Proof.
  intros Hfit Ht Hp. pose proof Hfit as [Hwf Hle]. unfold push_ok in Hp.
  assert (Hlv : len v < U32_LIMIT) by lia.
  assert (Hroom : len (enc es) + HDR + len v <= N.of_nat n) by lia.
  assert (Hwe : forall w, len w = len v -> wf_entry (t, w)) by (intros w Hw; split; cbn [fst snd]; [exact Ht|lia]).
  assert (Henc : forall w, len w = len v -> length (enc (es ++ [(t, w)])) = (length (enc es) + 12 + length v)%nat).
  { intros w Hw. rewrite enc_snoc, app_length.
    pose proof (enc_entry_len (t, w) (Hwe w Hw)) as H. cbn [snd] in H. unfold len, HDR in *. lia. }
  set (k := (n - length (enc es) - 12)%nat).
  assert (Hk : k = (length v + (k - length v))%nat) by (unfold k, len, HDR in *; lia).
  assert (Hrender : forall w, len w = len v ->
            render n (es ++ [(t, w)]) = enc es ++ t ++ le_enc 4 (len v) ++ w ++ zeros (k - length v)).
  { intros w Hw. unfold render. rewrite (Henc w Hw). rewrite enc_snoc.
    unfold enc_entry. cbn [fst snd]. rewrite Hw, <- !app_assoc.
    replace (n - (length (enc es) + 12 + length v))%nat with (k - length v)%nat by (unfold k; lia). reflexivity. }
  repeat split.
  - rewrite (Hrender v eq_refl). rewrite Hk at 1. rewrite zeros_app.
    rewrite (app_assoc (enc es) t), (app_assoc (enc es ++ t) (le_enc 4 (len v))).
    rewrite (write_at_app _ (zeros (length v)) _ v); [now rewrite <- !app_assoc| |now rewrite zeros_length].
    rewrite !len_app, len_le_enc, (wf_tag_len t Ht). unfold voff, HDR. lia.
  - rewrite (Hrender (zeros (length v))) by (rewrite len_zeros; reflexivity).
    rewrite Hk at 1. now rewrite zeros_app.
  - apply Forall_app. split; [assumption|]. constructor; [|constructor]. now apply Hwe.
  - rewrite (Henc v eq_refl). unfold len, HDR in *. lia.
Qed.

Lemma push_refines n es t v a (f : list byte -> list byte * outcome obs) :
  fits n es -> wf_tag t ->
  (* [f] = alloc of [len v] bytes followed by writing [v] into the returned slice *)
  (forall b, f b = match alloc b t (len v) a with
                   | (b1, Ok (vs, r)) => match write_at b1 vs v with Some b2 => (b2, Ok (vs, r)) | None => (b1, Panic) end
                   | other => other
                   end) ->
  let '(es', out) := s_push n es t v a in
  exists out', f (render n es) = (render n es', out') /\ out_eq out' out /\ fits n es'.
Proof.
  intros Hfit Ht Hf. unfold s_push. fold (push_ok n es t (len v) a).
  destruct (alloc_canon n es t (len v) a Hfit Ht) as [Hok Herr].
  destruct (push_ok n es t (len v) a) eqn:Ep.
  - rewrite Hf, (Hok eq_refl).
    destruct (alloc_then_write n es t v a Hfit Ht Ep) as (Hw & _ & Hfits).
    rewrite Hw. eexists. split; [reflexivity|]. split; [reflexivity|exact Hfits].
  - destruct (Herr eq_refl) as [e He]. rewrite Hf, He. eexists. split; [reflexivity|]. split; [exact I|exact Hfit].
Qed.

(** * operations on an existing entry *)
Record located (n : nat) (es : list entry) (t : tag) (a : list entry) (v : list byte) (b : list entry) : Prop := {
  loc_es : es = a ++ (t, v) :: b;
  loc_buf : render n es = (enc a ++ t) ++ le_enc 4 (len v) ++ v ++ enc b ++ zeros (n - length (enc es));
  loc_lenA : len (enc a ++ t) = len (enc a) + TAGW;
  loc_lv : len v < U32_LIMIT;
  loc_gi : get_indices (render n es) t false (Some (count t a)) = Ok (len (enc a), count t a);
  loc_end : discs_and_end (render n es) = Ok (map fst es, len (enc es));
  loc_enc : len (enc es) = len (enc a) + HDR + len v + len (enc b);
}.

Lemma locate n es t r a v b :
  fits n es -> wf_tag t -> split_entry es t r = Some (a, v, b) -> located n es t a v b /\ count t a = r.
Proof.
  intros [Hwf Hle] Ht Hsp. pose proof (seek_split es t r 0 0 ltac:(lia) Hwf) as Hs.
  rewrite N.sub_0_r, Hsp in Hs.
  destruct (split_entry_spec _ _ _ _ _ _ Hsp) as [Hes Hc]. split; [|exact Hc].
  pose proof Hwf as Hwf'. rewrite Hes in Hwf'. apply Forall_app in Hwf' as [Ha Hb]. inversion Hb as [|? ? He Hb']; subst x l.
  constructor.
  - exact Hes.
  - unfold render. rewrite Hes at 1. rewrite enc_app, enc_cons. unfold enc_entry. cbn [fst snd]. now rewrite <- !app_assoc.
  - rewrite len_app, (wf_tag_len t Ht). reflexivity.
  - exact (proj2 He).
  - unfold render. rewrite (get_indices_wf es _ t false _ Hwf (term_zeros _) Ht), Hc, Hs. now rewrite N.add_0_l.
  - unfold render. apply discs_and_end_wf; [assumption|apply term_zeros].
  - rewrite Hes, enc_app, enc_cons, !len_app, (enc_entry_len _ He). cbn [snd]. lia.
Qed.

Lemma get_bytes_located n es t a v b :
  fits n es -> wf_tag t -> located n es t a v b -> get_bytes (render n es) t (count t a) = Ok (voff a, v).
Proof.
  intros Hfit Ht L. unfold get_bytes. rewrite (loc_gi _ _ _ _ _ _ L). cbn [bind fst].
  rewrite (loc_buf _ _ _ _ _ _ L).
  rewrite (slice_app (enc a ++ t) (le_enc 4 (len v)) _ _ _)
    by (rewrite ?(loc_lenA _ _ _ _ _ _ L), ?len_le_enc; unfold TAGW, LENW; lia).
  rewrite le_dec_enc_small by (pose proof (loc_lv _ _ _ _ _ _ L); unfold U32_LIMIT in *; change (256 ^ N.of_nat 4) with 4294967296; lia).
  rewrite <- (loc_buf _ _ _ _ _ _ L). pose proof (render_len n es Hfit) as Hrl.
  pose proof (loc_enc _ _ _ _ _ _ L) as Henc. pose proof (fits_len n es Hfit) as Hfl.
  replace (len (render n es) <? _) with false by (unfold len at 1; rewrite Hrl; unfold TAGW, LENW, HDR in *; lia).
  rewrite (loc_buf _ _ _ _ _ _ L). rewrite (app_assoc (enc a ++ t) (le_enc 4 (len v))).
  rewrite (slice_app _ v _ _ _); [unfold voff, TAGW, LENW, HDR; f_equal; f_equal; lia| |];
    rewrite len_app, (loc_lenA _ _ _ _ _ _ L), len_le_enc; unfold TAGW, LENW; lia.
Qed.

(** replacing the value bytes by [w] of the same length *)
Lemma overwrite_located n es t a v b (w : list byte) :
  fits n es -> wf_tag t -> located n es t a v b -> len w = len v ->
  write_at (render n es) (voff a) w = Some (render n (a ++ (t, w) :: b)) /\ fits n (a ++ (t, w) :: b).
Proof.
  intros Hfit Ht L Hw. pose proof Hfit as [Hwf Hle].
  rewrite (loc_es _ _ _ _ _ _ L) in Hwf. apply Forall_app in Hwf as [Ha Hb]. inversion Hb as [|? ? He Hb']; subst x l.
  assert (Hwe : wf_entry (t, w)) by (destruct He as [H1 H2]; split; cbn [fst snd] in *; [exact H1|lia]).
  assert (Henc : length (enc (a ++ (t, w) :: b)) = length (enc es)).
  { rewrite (loc_es _ _ _ _ _ _ L), !enc_app, !enc_cons, !app_length.
    pose proof (enc_entry_len _ He) as H1. pose proof (enc_entry_len _ Hwe) as H2. cbn [snd] in *. unfold len in *. lia. }
  split.
  - rewrite (loc_buf _ _ _ _ _ _ L). rewrite (app_assoc (enc a ++ t) (le_enc 4 (len v))).
    rewrite (write_at_app _ v _ w); [| |unfold len in Hw; lia].
    + unfold render. rewrite Henc, enc_app, enc_cons. unfold enc_entry. cbn [fst snd]. rewrite Hw. now rewrite <- !app_assoc.
    + rewrite len_app, (loc_lenA _ _ _ _ _ _ L), len_le_enc. unfold voff, TAGW, HDR. lia.
  - split; [apply Forall_app; split; [assumption|constructor; assumption]|]. rewrite Henc. exact Hle.
Qed.
