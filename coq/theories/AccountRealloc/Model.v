(** Model of realloc_and_pack_variable_len_with_repetition (type-length-value/src/state.rs)
    over a model of AccountInfo::resize (solana-account-info 3.0: no-op on equal length,
    InvalidRealloc if the new length exceeds the original serialized length by more than
    10 KiB, otherwise truncate / zero-extend). *)
From SplVerif Require Import Lib.Base Tlv.Model.
Local Open Scope N_scope.

Definition MAX_PERMITTED_DATA_INCREASE : N := 10240.
Record account := { a_data : list byte; a_orig : N }.   (* data, original serialized length *)

Definition resize (a : account) (new_len : N) : account * outcome unit :=
  let old := len (a_data a) in
  if new_len =? old then (a, Ok tt)
  else if MAX_PERMITTED_DATA_INCREASE <? new_len - a_orig a then (a, Err 40)
  else ({| a_data := if new_len <? old then firstn (N.to_nat new_len) (a_data a)
                     else a_data a ++ zeros (N.to_nat (new_len - old));
           a_orig := a_orig a |}, Ok tt).

Definition with_data (a : account) (d : list byte) : account := {| a_data := d; a_orig := a_orig a |}.

(** [enc] = the value's packed bytes ([get_packed_len] = its length, [pack_into_slice]
    writes it at the start of the slot); [partial] as in Tlv.Model.pack_var *)
Definition realloc_and_pack (a : account) (t : tag) (rep : N) (enc : list byte) (partial : bool)
  : account * outcome unit :=
  let data := a_data a in
  match get_indices data t false (Some rep) with
  | Ok (type_start, _) =>
      match slice data (type_start + TAGW) (type_start + TAGW + LENW) with
      | None => (a, Panic)
      | Some lb =>
          let previous_length := le_dec lb in
          let new_length := len enc in
          let previous_size := len data in
          if previous_length <? new_length then
            (* grow: account first, then the TLV entry, then the value *)
            match resize a (previous_size + (new_length - previous_length)) with
            | (a1, Ok _) =>
                match check_data (a_data a1) with
                | Ok _ =>
                    match realloc (a_data a1) t new_length rep with
                    | (d2, Ok _) =>
                        match pack_var d2 t rep enc partial with
                        | (d3, Ok _) => (with_data a1 d3, Ok tt)
                        | (d3, Err e) => (with_data a1 d3, Err e)
                        | (d3, Panic) => (with_data a1 d3, Panic)
                        end
                    | (d2, Err e) => (with_data a1 d2, Err e)
                    | (d2, Panic) => (with_data a1 d2, Panic)
                    end
                | Err e => (a1, Err e)
                | Panic => (a1, Panic)
                end
            | (a1, Err e) => (a1, Err e)
            | (a1, Panic) => (a1, Panic)
            end
          else
            (* same size or shrink: value first, then the TLV entry, then the account *)
            match check_data data with
            | Ok _ =>
                match pack_var data t rep enc partial with
                | (d1, Ok _) =>
                    let removed := previous_length - new_length in
                    if 0 <? removed then
                      match realloc d1 t new_length rep with
                      | (d2, Ok _) => let r := resize (with_data a d2) (previous_size - removed) in r
                      | (d2, Err e) => (with_data a d2, Err e)
                      | (d2, Panic) => (with_data a d2, Panic)
                      end
                    else (with_data a d1, Ok tt)
                | (d1, Err e) => (with_data a d1, Err e)
                | (d1, Panic) => (with_data a d1, Panic)
                end
            | Err e => (a, Err e)
            | Panic => (a, Panic)
            end
      end
  | Err e => (a, Err e)
  | Panic => (a, Panic)
  end.
