(** Whole histories of realloc_and_pack on one account: after ANY sequence of value replacements
    (growing, shrinking, refused ones mixed) the account is still the canonical slab of the entry
    list the specification predicts, its length moved by exactly the sum of the value-size
    differences of the accepted operations, and its zero spare tail has the size it started with. *)
From SplVerif Require Import Lib.Base Tlv.Model Tlv.Spec Tlv.Walk Tlv.Parse Tlv.Ops Tlv.Refine Tlv.Corollaries.
From SplVerif Require Import AccountRealloc.Model AccountRealloc.Proofs.
Local Open Scope N_scope.

Record rp_op := { o_tag : tag; o_rep : N; o_enc : list byte; o_partial : bool }.
Definition wf_op (o : rp_op) : Prop := wf_tag (o_tag o) /\ len (o_enc o) < U32_LIMIT.

(** the specification of one operation on (account length, entry list): replace the value and
    move the length by the size difference, or refuse and change nothing *)
Definition s_rp (orig : N) (st : nat * list entry) (o : rp_op) : (nat * list entry) * bool :=
  match split_entry (snd st) (o_tag o) (o_rep o) with
  | Some (a, old, b) =>
      if N.of_nat (fst st) + (len (o_enc o) - len old) <=? orig + MAX_PERMITTED_DATA_INCREASE
      then (((fst st + length (o_enc o) - length old)%nat, a ++ (o_tag o, o_enc o) :: b), true)
      else (st, false)
  | None => (st, false)
  end.

Definition impl_step (a : account) (o : rp_op) : account := fst (realloc_and_pack a (o_tag o) (o_rep o) (o_enc o) (o_partial o)).
Definition run_impl (a : account) (ops : list rp_op) : account := fold_left impl_step ops a.
Definition run_spec (orig : N) (st : nat * list entry) (ops : list rp_op) : nat * list entry :=
  fold_left (fun s o => fst (s_rp orig s o)) ops st.

Definition spare (st : nat * list entry) : nat := (fst st - length (enc (snd st)))%nat.

(** one step: implementation = specification, result flag included, invariants kept *)
Lemma rp_step acct n es o :
  a_data acct = render n es -> fits n es -> wf_op o ->
  N.of_nat n <= a_orig acct + MAX_PERMITTED_DATA_INCREASE ->
  let '((n', es'), ok) := s_rp (a_orig acct) (n, es) o in
  fst (realloc_and_pack acct (o_tag o) (o_rep o) (o_enc o) (o_partial o)) = {| a_data := render n' es'; a_orig := a_orig acct |} /\
  (if ok then snd (realloc_and_pack acct (o_tag o) (o_rep o) (o_enc o) (o_partial o)) = Ok tt
   else exists c, snd (realloc_and_pack acct (o_tag o) (o_rep o) (o_enc o) (o_partial o)) = Err c) /\
  fits n' es' /\ N.of_nat n' <= a_orig acct + MAX_PERMITTED_DATA_INCREASE /\
  spare (n', es') = spare (n, es).
Proof.
  intros Hd Hfit [Ht He] Hlim. unfold s_rp. cbn [fst snd].
  assert (Hsame : acct = {| a_data := render n es; a_orig := a_orig acct |}) by (destruct acct; cbn in *; now subst).
  destruct (split_entry es (o_tag o) (o_rep o)) as [[[a old] b]|] eqn:Hsp.
  - destruct (N.of_nat n + (len (o_enc o) - len old) <=? a_orig acct + MAX_PERMITTED_DATA_INCREASE) eqn:Eg.
    + apply N.leb_le in Eg.
      destruct (realloc_and_pack_exact acct n es _ _ a old b (o_enc o) (o_partial o) Hd Hfit Ht Hsp He) as [Hr Hf]; [exact Eg|].
      rewrite Hr. cbn [fst snd]. split; [reflexivity|]. split; [reflexivity|]. split; [exact Hf|]. split.
      * destruct (split_entry_spec _ _ _ _ _ _ Hsp) as [-> _]. destruct Hfit as [_ Hle].
        rewrite enc_len_split in Hle. unfold len in *. lia.
      * destruct (split_entry_spec _ _ _ _ _ _ Hsp) as [-> _]. destruct Hfit as [_ Hle]. unfold spare. cbn [fst snd].
        rewrite !enc_len_split in *. lia.
    + apply N.leb_gt in Eg.
      destruct (realloc_and_pack_too_large acct n es _ _ a old b (o_enc o) (o_partial o) Hd Hfit Ht Hsp) as [c Hr]; [lia|exact Eg|].
      rewrite Hr. cbn [fst snd]. split; [exact Hsame|]. split; [eauto|]. split; [exact Hfit|]. split; [exact Hlim|reflexivity].
  - destruct (realloc_and_pack_missing acct n es _ _ (o_enc o) (o_partial o) Hd Hfit Ht Hsp) as [c Hr].
    rewrite Hr. cbn [fst snd]. split; [exact Hsame|]. split; [eauto|]. split; [exact Hfit|]. split; [exact Hlim|reflexivity].
Qed.

Theorem rp_history : forall ops acct n es,
  a_data acct = render n es -> fits n es -> Forall wf_op ops ->
  N.of_nat n <= a_orig acct + MAX_PERMITTED_DATA_INCREASE ->
  let st' := run_spec (a_orig acct) (n, es) ops in
  run_impl acct ops = {| a_data := render (fst st') (snd st'); a_orig := a_orig acct |} /\
  fits (fst st') (snd st') /\ spare st' = spare (n, es).
Proof.
  induction ops as [|o ops IH]; intros acct n es Hd Hfit Hwf Hlim; cbv zeta.
  - cbn [run_spec run_impl fold_left fst snd]. split; [destruct acct; cbn in *; now subst|]. split; [exact Hfit|reflexivity].
  - inversion Hwf as [|? ? Ho Hwf']; subst.
    pose proof (rp_step acct n es o Hd Hfit Ho Hlim) as Hs.
    cbn [run_spec run_impl fold_left]. fold (run_impl (impl_step acct o) ops).
    fold (run_spec (a_orig acct) (fst (s_rp (a_orig acct) (n, es) o)) ops).
    destruct (s_rp (a_orig acct) (n, es) o) as [[n1 es1] ok] eqn:Es. cbn [fst].
    destruct Hs as (Hi & _ & Hf1 & Hl1 & Hsp1).
    unfold impl_step. rewrite Hi.
    specialize (IH {| a_data := render n1 es1; a_orig := a_orig acct |} n1 es1 eq_refl Hf1 Hwf' Hl1).
    cbv zeta in IH. cbn [a_orig] in IH. destruct IH as (Hr & Hf & Hsp). split; [exact Hr|]. split; [exact Hf|congruence].
Qed.

(** the account's length after any history = the encoded entries + the original spare tail *)
Corollary rp_history_length : forall ops acct n es,
  a_data acct = render n es -> fits n es -> Forall wf_op ops ->
  N.of_nat n <= a_orig acct + MAX_PERMITTED_DATA_INCREASE ->
  let st' := run_spec (a_orig acct) (n, es) ops in
  length (a_data (run_impl acct ops)) = (length (enc (snd st')) + (n - length (enc es)))%nat.
Proof.
  intros ops acct n es Hd Hfit Hwf Hlim. cbv zeta.
  destruct (rp_history ops acct n es Hd Hfit Hwf Hlim) as (Hr & Hf & Hsp). rewrite Hr. cbn [a_data].
  rewrite (render_len _ _ Hf). unfold spare in Hsp. cbn [fst snd] in Hsp. destruct Hf as [_ Hle]. lia.
Qed.
