(** A Borsh encoder/decoder for a closed universe of types (fixed-width unsigned
    integers, bool, byte vectors / strings, options, pairs for struct fields, binary sums
    for enums, unit), with the prefix-decoding law: [decode (encode v ++ rest) = Some (v, rest)].
    This discharges, for that universe, the hypothesis under which a variable-length value
    packed into a larger slot decodes back (C15). *)
From SplVerif Require Import Lib.Base.
Local Open Scope N_scope.

Inductive ty :=
| TUnit | TU8 | TU16 | TU32 | TU64 | TBool
| TBytes                      (* Vec<u8> and String: u32 length, then the bytes *)
| TOption (t : ty)            (* 0 | 1 ++ value *)
| TPair (a b : ty)            (* struct fields in order *)
| TSum (a b : ty).            (* enum: variant index byte, then the payload *)

Fixpoint val (t : ty) : Type :=
  match t with
  | TUnit => unit
  | TU8 | TU16 | TU32 | TU64 => N
  | TBool => bool
  | TBytes => list byte
  | TOption t => option (val t)
  | TPair a b => (val a * val b)%type
  | TSum a b => (val a + val b)%type
  end.

Definition width (t : ty) : nat := match t with TU8 => 1 | TU16 => 2 | TU32 => 4 | TU64 => 8 | _ => 0 end.

(** values the Rust types can hold *)
Fixpoint wf (t : ty) : val t -> Prop :=
  match t with
  | TUnit => fun _ => True
  | TU8 => fun v => v < 256 ^ 1
  | TU16 => fun v => v < 256 ^ 2
  | TU32 => fun v => v < 256 ^ 4
  | TU64 => fun v => v < 256 ^ 8
  | TBool => fun _ => True
  | TBytes => fun v => len v < 256 ^ 4
  | TOption t => fun v => match v with Some x => wf t x | None => True end
  | TPair a b => fun v => wf a (fst v) /\ wf b (snd v)
  | TSum a b => fun v => match v with inl x => wf a x | inr y => wf b y end
  end.

Fixpoint encode (t : ty) : val t -> list byte :=
  match t with
  | TUnit => fun _ => []
  | TU8 => fun v => le_enc 1 v
  | TU16 => fun v => le_enc 2 v
  | TU32 => fun v => le_enc 4 v
  | TU64 => fun v => le_enc 8 v
  | TBool => fun v => [if v then x01 else x00]
  | TBytes => fun v => le_enc 4 (len v) ++ v
  | TOption t => fun v => match v with None => [x00] | Some x => x01 :: encode t x end
  | TPair a b => fun v => encode a (fst v) ++ encode b (snd v)
  | TSum a b => fun v => match v with inl x => x00 :: encode a x | inr y => x01 :: encode b y end
  end.

Definition take (n : nat) (l : list byte) : option (list byte * list byte) :=
  if Nat.leb n (length l) then Some (firstn n l, skipn n l) else None.

Fixpoint decode (t : ty) : list byte -> option (val t * list byte) :=
  match t with
  | TUnit => fun l => Some (tt, l)
  | TU8 => fun l => match take 1 l with Some (h, r) => Some (le_dec h, r) | None => None end
  | TU16 => fun l => match take 2 l with Some (h, r) => Some (le_dec h, r) | None => None end
  | TU32 => fun l => match take 4 l with Some (h, r) => Some (le_dec h, r) | None => None end
  | TU64 => fun l => match take 8 l with Some (h, r) => Some (le_dec h, r) | None => None end
  | TBool => fun l => match l with
                      | b :: r => if Byte.eqb b x00 then Some (false, r) else if Byte.eqb b x01 then Some (true, r) else None
                      | [] => None end
  | TBytes => fun l => match take 4 l with
                       | Some (h, r) => match take (N.to_nat (le_dec h)) r with Some (v, r') => Some (v, r') | None => None end
                       | None => None end
  | TOption t => fun l => match l with
                          | b :: r => if Byte.eqb b x00 then Some (None, r)
                                      else if Byte.eqb b x01 then
                                        match decode t r with Some (x, r') => Some (Some x, r') | None => None end
                                      else None
                          | [] => None end
  | TPair a b => fun l => match decode a l with
                          | Some (x, r) => match decode b r with Some (y, r') => Some ((x, y), r') | None => None end
                          | None => None end
  | TSum a b => fun l => match l with
                         | c :: r => if Byte.eqb c x00 then
                                       match decode a r with Some (x, r') => Some (inl x, r') | None => None end
                                     else if Byte.eqb c x01 then
                                       match decode b r with Some (y, r') => Some (inr y, r') | None => None end
                                     else None
                         | [] => None end
  end.

Lemma take_app (h r : list byte) : take (length h) (h ++ r) = Some (h, r).
Proof.
  unfold take. rewrite app_length. replace (Nat.leb _ _) with true by (symmetry; apply Nat.leb_le; lia).
  now rewrite firstn_exact, skipn_exact.
Qed.
Lemma int_roundtrip k v rest : v < 256 ^ N.of_nat k ->
  match take k (le_enc k v ++ rest) with Some (h, r) => Some (le_dec h, r) | None => None end = Some (v, rest).
Proof.
  intros H. rewrite <- (le_enc_length k v) at 1. rewrite take_app. now rewrite le_dec_enc_small.
Qed.

Theorem decode_encode t : forall (v : val t) rest, wf t v -> decode t (encode t v ++ rest) = Some (v, rest).
Proof.
  induction t as [| | | | | | |t IH|a IHa b IHb|a IHa b IHb]; intros v rest Hwf; cbn [encode decode val wf] in *.
  - destruct v. reflexivity.
  - now apply (int_roundtrip 1).
  - now apply (int_roundtrip 2).
  - now apply (int_roundtrip 4).
  - now apply (int_roundtrip 8).
  - destruct v; reflexivity.
  - rewrite <- app_assoc. rewrite <- (le_enc_length 4 (len v)) at 1. rewrite take_app.
    rewrite le_dec_enc_small by exact Hwf. unfold len. rewrite Nat2N.id. now rewrite take_app.
  - destruct v as [x|]; cbn [app]; [|reflexivity]. cbn [Byte.eqb]. change (Byte.eqb x01 x00) with false.
    change (Byte.eqb x01 x01) with true. cbn iota. now rewrite IH.
  - destruct v as [x y]. cbn [fst snd] in *. rewrite <- app_assoc. rewrite IHa by tauto. now rewrite IHb by tauto.
  - destruct v as [x|y]; cbn [app].
    + change (Byte.eqb x00 x00) with true. cbn iota. now rewrite IHa.
    + change (Byte.eqb x01 x00) with false. change (Byte.eqb x01 x01) with true. cbn iota. now rewrite IHb.
Qed.

(** the packed length is a function of the value alone (no dependence on the slot) *)
Definition packed_len (t : ty) (v : val t) : N := len (encode t v).
