(** C15: storing a new variable-length value over an existing entry resizes the account
    by exactly the change in the value's encoded size. *)
From SplVerif Require Import Lib.Base Tlv.Model Tlv.Spec Tlv.Walk Tlv.Parse Tlv.Ops Tlv.Refine Tlv.Corollaries.
From SplVerif Require Import AccountRealloc.Model.
Local Open Scope N_scope.

Lemma render_extend n d es : fits n es -> render n es ++ zeros d = render (n + d) es.
Proof.
  intros [_ H]. unfold render. rewrite <- app_assoc, <- zeros_app.
  replace (n - length (enc es) + d)%nat with (n + d - length (enc es))%nat by lia. reflexivity.
Qed.
Lemma render_truncate n k es : (length (enc es) <= k)%nat -> (k <= n)%nat -> firstn k (render n es) = render k es.
Proof.
  intros H1 H2. unfold render. rewrite firstn_app_r by lia. rewrite firstn_zeros.
  replace (Nat.min (k - length (enc es)) (n - length (enc es))) with (k - length (enc es))%nat by lia. reflexivity.
Qed.
Lemma fits_mono n m es : fits n es -> (n <= m)%nat -> fits m es.
Proof. intros [H1 H2] H. split; [assumption|lia]. Qed.

(** [pack_var] on a canonical slab, from the step refinement *)
Lemma pack_var_canon n es t r e p :
  fits n es -> wf_tag t ->
  fst (pack_var (render n es) t r e p) = render n (fst (s_step n es (OPackVar t r e p))) /\
  out_eq (snd (lift1 (pack_var (render n es) t r e p))) (snd (s_step n es (OPackVar t r e p))) /\
  fits n (fst (s_step n es (OPackVar t r e p))).
Proof.
  intros Hfit Ht. destruct (Refine.step_refines n es (OPackVar t r e p) Hfit Ht) as (out' & Hs & Ho & Hf).
  unfold step in Hs. rewrite (check_data_canon n es Hfit) in Hs.
  split; [|split; [|exact Hf]].
  - now apply (f_equal fst) in Hs.
  - apply (f_equal snd) in Hs. cbn [snd] in Hs. now rewrite Hs.
Qed.

Lemma split_replace a t (v w : list byte) b : count t a = count t a ->
  split_entry (a ++ (t, w) :: b) t (count t a) = Some (a, w, b).
Proof.
  intros _. induction a as [|e a IH].
  - cbn [app split_entry count fold_right fst snd]. now rewrite tag_eqb_refl.
  - cbn [app split_entry count fold_right]. fold (count t a). destruct (tag_eqb (fst e) t) eqn:E.
    + replace (1 + count t a =? 0) with false by lia. replace (1 + count t a - 1) with (count t a) by lia. now rewrite IH.
    + now rewrite IH.
Qed.

Theorem realloc_and_pack_exact acct n es t r a old b e p :
  a_data acct = render n es -> fits n es -> wf_tag t ->
  split_entry es t r = Some (a, old, b) -> len e < U32_LIMIT ->
  (* the runtime allows the growth: at most 10 KiB over the original serialized length *)
  N.of_nat n + (len e - len old) <= a_orig acct + MAX_PERMITTED_DATA_INCREASE ->
  let n' := (n + length e - length old)%nat in
  realloc_and_pack acct t r e p = ({| a_data := render n' (a ++ (t, e) :: b); a_orig := a_orig acct |}, Ok tt) /\
  fits n' (a ++ (t, e) :: b).
Proof.
  intros Hd Hfit Ht Hsp He Hlim. cbv zeta.
  destruct (locate n es t r a old b Hfit Ht Hsp) as [L Hc]. subst r.
  pose proof (loc_es _ _ _ _ _ _ L) as Hes. pose proof (loc_enc _ _ _ _ _ _ L) as Henc.
  pose proof (loc_lenA _ _ _ _ _ _ L) as HlenA. pose proof (loc_lv _ _ _ _ _ _ L) as Hlv.
  pose proof (render_len n es Hfit) as Hrl. pose proof (fits_len n es Hfit) as HfN.
  unfold realloc_and_pack. rewrite Hd. rewrite (loc_gi _ _ _ _ _ _ L).
  assert (Hlb : slice (render n es) (len (enc a) + TAGW) (len (enc a) + TAGW + LENW) = Some (le_enc 4 (len old))).
  { rewrite (loc_buf _ _ _ _ _ _ L). apply slice_app; rewrite ?HlenA, ?Walk.len_le_enc; unfold TAGW, LENW; lia. }
  rewrite Hlb. rewrite le_dec_enc_small by (unfold U32_LIMIT in *; change (256 ^ N.of_nat 4) with 4294967296; lia).
  replace (len (render n es)) with (N.of_nat n) by (unfold len; now rewrite Hrl).
  assert (Hold_le : (length old <= n)%nat).
  { destruct Hfit as [_ Hle]. rewrite Hes, enc_len_split in Hle. lia. }
  destruct (len old <? len e) eqn:Egrow.
  - (* grow *)
    set (d := N.to_nat (len e - len old)).
    assert (Hn' : (n + length e - length old)%nat = (n + d)%nat) by (unfold d, len in *; lia).
    rewrite Hn'.
    unfold resize. rewrite Hd. replace (len (render n es)) with (N.of_nat n) by (unfold len; now rewrite Hrl).
    replace (N.of_nat n + (len e - len old) =? N.of_nat n) with false by lia.
    replace (MAX_PERMITTED_DATA_INCREASE <? N.of_nat n + (len e - len old) - a_orig acct) with false by lia.
    replace (N.of_nat n + (len e - len old) <? N.of_nat n) with false by lia.
    cbn [a_data a_orig].
    replace (N.to_nat (N.of_nat n + (len e - len old) - N.of_nat n)) with d by (unfold d; lia).
    rewrite (render_extend n d es Hfit).
    assert (Hfit1 : fits (n + d) es) by (apply (fits_mono n); [assumption|lia]).
    rewrite (check_data_canon (n + d) es Hfit1).
    destruct (locate (n + d) es t (count t a) a old b Hfit1 Ht Hsp) as [L1 _].
    rewrite (realloc_canon (n + d) es t a old b (len e) Hfit1 Ht L1).
    replace ((len old <? len e) && (N.of_nat (n + d) <? len (enc es) + (len e - len old))) with false by (unfold d in *; lia).
    replace (U32_LIMIT <=? len e) with false by lia.
    (* the resized entry, then the value *)
    pose proof (Refine.step_refines (n + d) es (ORealloc t (len e) (count t a)) Hfit1 Ht) as (o1 & _ & _ & Hfit2).
    cbn [s_step] in Hfit2. rewrite Hsp in Hfit2.
    replace ((len old <? len e) && (N.of_nat (n + d) <? len (enc es) + (len e - len old))) with false in Hfit2 by (unfold d in *; lia).
    replace (U32_LIMIT <=? len e) with false in Hfit2 by lia. cbn [fst] in Hfit2.
    set (es2 := a ++ (t, Spec.resize (len e) old) :: b) in *.
    destruct (pack_var_canon (n + d) es2 t (count t a) e p Hfit2 Ht) as (Hpv & Hout & Hfit3).
    cbn [s_step] in Hpv, Hout, Hfit3. unfold es2 in Hpv, Hout, Hfit3.
    rewrite (split_replace a t old (Spec.resize (len e) old) b eq_refl) in Hpv, Hout, Hfit3.
    rewrite resize_len in Hpv, Hout, Hfit3. replace (len e <=? len e) with true in Hpv, Hout, Hfit3 by lia.
    cbn [fst snd] in Hpv, Hout, Hfit3.
    assert (Hsk : skipn (length e) (Spec.resize (len e) old) = []).
    { apply skipn_all2. pose proof (resize_len (len e) old) as H. unfold len in *. lia. }
    rewrite Hsk, app_nil_r in Hpv, Hfit3.
    unfold es2. destruct (pack_var (render (n + d) (a ++ (t, Spec.resize (len e) old) :: b)) t (count t a) e p) as [d3 o3] eqn:Epv.
    cbn [fst snd lift1] in Hpv, Hout. subst d3.
    destruct o3 as [x|x|]; cbn in Hout; try contradiction.
    split; [reflexivity|exact Hfit3].
  - (* same size or shrink: pack first *)
    rewrite (check_data_canon n es Hfit).
    destruct (pack_var_canon n es t (count t a) e p Hfit Ht) as (Hpv & Hout & Hfit1).
    cbn [s_step] in Hpv, Hout, Hfit1. rewrite Hsp in Hpv, Hout, Hfit1.
    replace (len e <=? len old) with true in Hpv, Hout, Hfit1 by lia. cbn [fst snd] in Hpv, Hout, Hfit1.
    set (v1 := e ++ skipn (length e) old) in *. set (es1 := a ++ (t, v1) :: b) in *.
    assert (Hv1 : len v1 = len old) by (unfold v1, len in *; rewrite app_length, skipn_length; lia).
    destruct (pack_var (render n es) t (count t a) e p) as [d1 o1] eqn:Epv.
    cbn [fst snd lift1] in Hpv, Hout. subst d1. destruct o1 as [x|x|]; cbn in Hout; try contradiction.
    destruct (0 <? len old - len e) eqn:Erem.
    + (* shrink *)
      cbn [with_data a_data a_orig].
      assert (Hsp1 : split_entry es1 t (count t a) = Some (a, v1, b)) by (unfold es1; now apply (split_replace a t old)).
      destruct (locate n es1 t (count t a) a v1 b Hfit1 Ht Hsp1) as [L1 _].
      rewrite (realloc_canon n es1 t a v1 b (len e) Hfit1 Ht L1).
      replace ((len v1 <? len e) && (N.of_nat n <? len (enc es1) + (len e - len v1))) with false by lia.
      replace (U32_LIMIT <=? len e) with false by lia.
      assert (Hrz : Spec.resize (len e) v1 = e).
      { unfold Spec.resize, v1. rewrite firstn_exact' by (unfold len; lia).
        replace (N.to_nat (len e) - length (e ++ skipn (length e) old))%nat with 0%nat by (rewrite app_length; unfold len; lia).
        apply app_nil_r. }
      rewrite Hrz.
      pose proof (Refine.step_refines n es1 (ORealloc t (len e) (count t a)) Hfit1 Ht) as (o2 & _ & _ & Hfit2).
      cbn [s_step] in Hfit2. rewrite Hsp1 in Hfit2.
      replace ((len v1 <? len e) && (N.of_nat n <? len (enc es1) + (len e - len v1))) with false in Hfit2 by lia.
      replace (U32_LIMIT <=? len e) with false in Hfit2 by lia. cbn [fst] in Hfit2. rewrite Hrz in Hfit2.
      set (es2 := a ++ (t, e) :: b) in *.
      unfold resize. cbn [with_data a_data a_orig].
      pose proof (render_len n es2 Hfit2) as Hrl2.
      replace (len (render n es2)) with (N.of_nat n) by (unfold len; now rewrite Hrl2).
      replace (N.of_nat n - (len old - len e) =? N.of_nat n) with false by lia.
      replace (MAX_PERMITTED_DATA_INCREASE <? N.of_nat n - (len old - len e) - a_orig acct) with false by lia.
      replace (N.of_nat n - (len old - len e) <? N.of_nat n) with true by lia.
      assert (Hlen2 : (length (enc es2) + (length old - length e) <= n)%nat).
      { destruct Hfit as [_ Hle]. rewrite Hes in Hle. unfold es2. rewrite enc_len_split in *. unfold len in *. lia. }
      replace (N.to_nat (N.of_nat n - (len old - len e))) with (n + length e - length old)%nat by (unfold len in *; lia).
      rewrite render_truncate by (unfold len in *; lia).
      split; [reflexivity|]. destruct Hfit2 as [Hw _]. split; [exact Hw|unfold len in *; lia].
    + (* same size *)
      assert (Hle : len e = len old) by lia.
      assert (Hv1e : v1 = e).
      { unfold v1. rewrite skipn_all2 by (unfold len in Hle; lia). apply app_nil_r. }
      cbn [with_data]. replace (n + length e - length old)%nat with n by (unfold len in Hle; lia).
      unfold es1 in *. rewrite Hv1e in *. split; [reflexivity|exact Hfit1].
Qed.

(** failure leaves the account untouched: missing entry, or growth beyond the runtime limit *)
Theorem realloc_and_pack_missing acct n es t r e p :
  a_data acct = render n es -> fits n es -> wf_tag t -> split_entry es t r = None ->
  exists c, realloc_and_pack acct t r e p = (acct, Err c).
Proof.
  intros Hd Hfit Ht Hsp. unfold realloc_and_pack. rewrite Hd.
  destruct (get_indices_miss n es t r Hfit Ht Hsp) as [c ->]. eauto.
Qed.
Theorem realloc_and_pack_too_large acct n es t r a old b e p :
  a_data acct = render n es -> fits n es -> wf_tag t ->
  split_entry es t r = Some (a, old, b) -> len old < len e ->
  a_orig acct + MAX_PERMITTED_DATA_INCREASE < N.of_nat n + (len e - len old) ->
  exists c, realloc_and_pack acct t r e p = (acct, Err c).
Proof.
  intros Hd Hfit Ht Hsp Hgrow Hlim.
  destruct (locate n es t r a old b Hfit Ht Hsp) as [L Hc]. subst r.
  pose proof (loc_lenA _ _ _ _ _ _ L) as HlenA. pose proof (loc_lv _ _ _ _ _ _ L) as Hlv.
  pose proof (render_len n es Hfit) as Hrl.
  unfold realloc_and_pack. rewrite Hd. rewrite (loc_gi _ _ _ _ _ _ L).
  assert (Hlb : slice (render n es) (len (enc a) + TAGW) (len (enc a) + TAGW + LENW) = Some (le_enc 4 (len old))).
  { rewrite (loc_buf _ _ _ _ _ _ L). apply slice_app; rewrite ?HlenA, ?Walk.len_le_enc; unfold TAGW, LENW; lia. }
  rewrite Hlb. rewrite le_dec_enc_small by (unfold U32_LIMIT in *; change (256 ^ N.of_nat 4) with 4294967296; lia).
  replace (len old <? len e) with true by lia.
  unfold resize. rewrite Hd. replace (len (render n es)) with (N.of_nat n) by (unfold len; now rewrite Hrl).
  replace (N.of_nat n + (len e - len old) =? N.of_nat n) with false by lia.
  replace (MAX_PERMITTED_DATA_INCREASE <? N.of_nat n + (len e - len old) - a_orig acct) with true by lia.
  destruct acct as [dd oo]. cbn [a_data a_orig] in *. subst dd. eauto.
Qed.

Theorem reads_back n' (a : list entry) t (e : list byte) (b : list entry) : fits n' (a ++ (t, e) :: b) -> wf_tag t ->
  get_bytes (render n' (a ++ (t, e) :: b)) t (count t a) = Ok (voff a, e).
Proof.
  intros Hfit Ht. pose proof (read_back n' (a ++ (t, e) :: b) t (count t a) Hfit Ht) as R.
  rewrite (split_replace a t e e b eq_refl) in R. exact R.
Qed.
