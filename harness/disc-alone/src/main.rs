//! spl-discriminator as a dependent gets it: built alone, with nothing else in the dependency graph.
//! The hashed constructor and the derive must give the first 8 bytes of SHA-256 of the input.
use spl_discriminator::{ArrayDiscriminator, SplDiscriminate};

#[derive(SplDiscriminate)]
#[discriminator_hash_input("abc")]
pub struct Abc;

#[derive(SplDiscriminate)]
#[discriminator_hash_input("")]
pub struct Empty;

fn main() {
    // FIPS 180-2 test vectors
    let vectors: [(&str, [u8; 8]); 3] = [
        ("abc", [0xba, 0x78, 0x16, 0xbf, 0x8f, 0x01, 0xcf, 0xea]),
        ("", [0xe3, 0xb0, 0xc4, 0x42, 0x98, 0xfc, 0x1c, 0x14]),
        ("abcdbcdecdefdefgefghfghighijhijkijkljklmklmnlmnomnopnopq", [0x24, 0x8d, 0x6a, 0x61, 0xd2, 0x06, 0x38, 0xb8]),
    ];
    let mut bad = 0;
    for (s, want) in vectors.iter() {
        let r = std::panic::catch_unwind(|| ArrayDiscriminator::new_with_hash_input(s));
        match r {
            Ok(d) if d.as_slice() == &want[..] => {}
            Ok(d) => { bad += 1; println!("ALONE-VIOLATION hashed-constructor input={:?} got={:02x?} want={:02x?}", s, d.as_slice(), want); }
            Err(_) => { bad += 1; println!("ALONE-VIOLATION hashed-constructor-panics input={:?}", s); }
        }
    }
    if Abc::SPL_DISCRIMINATOR.as_slice() != &vectors[0].1[..] || Abc::SPL_DISCRIMINATOR_SLICE != &vectors[0].1[..] {
        bad += 1;
        println!("ALONE-VIOLATION derive input=\"abc\" got={:02x?}", Abc::SPL_DISCRIMINATOR.as_slice());
    }
    if Empty::SPL_DISCRIMINATOR.as_slice() != &vectors[1].1[..] {
        bad += 1;
        println!("ALONE-VIOLATION derive input=\"\" got={:02x?}", Empty::SPL_DISCRIMINATOR.as_slice());
    }
    println!("ALONE-DONE {}", bad);
}
