//! C13, "every feature combination of the pod crate": this crate depends on spl-pod alone
//! (cargo would otherwise unify features with the other library crates) and is built once
//! per feature set by ./check.  Prints one line "MATRIX-VIOLATION <class> <detail>" per failure.
use spl_pod::primitives::{PodBool, PodI16, PodI64, PodU128, PodU16, PodU32, PodU64};

fn values() -> Vec<u128> {
    let mut v = vec![0u128, 1, 255, 256, 0x1234, 0xffff, 0x10000, 0xffff_ffff, 0x1_0000_0000, u64::MAX as u128, u128::MAX, 1 << 127];
    let mut s: u128 = 0x9e3779b97f4a7c15f39cc0605cedc835;
    for _ in 0..200 {
        s = s.wrapping_mul(0xda942042e4dd58b5).wrapping_add(1);
        v.push(s ^ (s >> 64));
    }
    v
}

fn main() {
    let mut bad = 0u32;
    let mut fail = |class: &str, detail: String| {
        println!("MATRIX-VIOLATION {} {}", class, detail);
        bad += 1;
    };
    for x in values() {
        let (a, b, c, d) = (x as u16, x as u32, x as u64, x);
        let (ia, ic) = (x as u16 as i16, x as u64 as i64);
        if u16::from(PodU16::from(a)) != a || PodU16::from(a).0 != a.to_le_bytes() { fail("u16", format!("{}", a)); }
        if u32::from(PodU32::from(b)) != b || PodU32::from(b).0 != b.to_le_bytes() { fail("u32", format!("{}", b)); }
        if u64::from(PodU64::from(c)) != c || PodU64::from(c).0 != c.to_le_bytes() { fail("u64", format!("{}", c)); }
        if u128::from(PodU128::from(d)) != d || PodU128::from(d).0 != d.to_le_bytes() { fail("u128", format!("{}", d)); }
        if i16::from(PodI16::from(ia)) != ia || PodI16::from(ia).0 != ia.to_le_bytes() { fail("i16", format!("{}", ia)); }
        if i64::from(PodI64::from(ic)) != ic { fail("i64", format!("{}", ic)); }
        let t = PodBool::from(x & 1 == 1);
        if bool::from(t) != (x & 1 == 1) || t.0 > 1 || !bool::from(PodBool((x as u8) | 2)) { fail("bool", format!("{}", x)); }
        let us = x as usize;
        if PodU16::try_from(us).is_ok() != (us <= u16::MAX as usize) { fail("usize-u16", format!("{}", us)); }
        if PodU32::try_from(us).is_ok() != (us <= u32::MAX as usize) { fail("usize-u32", format!("{}", us)); }
        if PodU64::try_from(us).map(usize::from) != Ok(us) { fail("usize-u64", format!("{}", us)); }
        if PodU128::try_from(us).map(usize::from) != Ok(us) { fail("usize-u128", format!("{}", us)); }
        #[cfg(feature = "bytemuck")]
        {
            use spl_pod::bytemuck::{pod_bytes_of, pod_from_bytes, pod_slice_from_bytes};
            if pod_bytes_of(&PodU64::from(c)) != c.to_le_bytes() { fail("bytemuck-bytes-of", format!("{}", c)); }
            if pod_from_bytes::<PodU32>(&b.to_le_bytes()).map(|p| u32::from(*p)) != Ok(b) { fail("bytemuck-from-bytes", format!("{}", b)); }
            if pod_from_bytes::<PodU32>(&c.to_le_bytes()).is_ok() { fail("bytemuck-from-bytes-len", format!("{}", c)); }
            if pod_slice_from_bytes::<PodU16>(&d.to_le_bytes()).map(|s| s.len()) != Ok(8) { fail("bytemuck-slice", format!("{}", d)); }
            if pod_slice_from_bytes::<PodU16>(&d.to_le_bytes()[..15]).is_ok() { fail("bytemuck-slice-len", format!("{}", d)); }
            let _ = bytemuck::bytes_of(&PodBool(1));
        }
        #[cfg(feature = "borsh")]
        {
            if borsh::to_vec(&PodU32::from(b)).unwrap() != borsh::to_vec(&b).unwrap() { fail("borsh-u32", format!("{}", b)); }
            if borsh::to_vec(&PodU64::from(c)).unwrap() != borsh::to_vec(&c).unwrap() { fail("borsh-u64", format!("{}", c)); }
            if borsh::to_vec(&PodU128::from(d)).unwrap() != borsh::to_vec(&d).unwrap() { fail("borsh-u128", format!("{}", d)); }
            if borsh::from_slice::<PodU64>(&c.to_le_bytes()).unwrap() != PodU64::from(c) { fail("borsh-decode", format!("{}", c)); }
        }
        #[cfg(feature = "serde")]
        {
            if serde_json::to_string(&PodU16::from(a)).unwrap() != serde_json::to_string(&a).unwrap() { fail("serde-u16", format!("{}", a)); }
            if serde_json::to_string(&PodU64::from(c)).unwrap() != serde_json::to_string(&c).unwrap() { fail("serde-u64", format!("{}", c)); }
            if serde_json::to_string(&PodI64::from(ic)).unwrap() != serde_json::to_string(&ic).unwrap() { fail("serde-i64", format!("{}", ic)); }
            if serde_json::to_string(&PodBool::from(x & 1 == 1)).unwrap() != serde_json::to_string(&(x & 1 == 1)).unwrap() { fail("serde-bool", format!("{}", x)); }
            if serde_json::from_str::<PodU32>(&b.to_string()).unwrap() != PodU32::from(b) { fail("serde-decode", format!("{}", b)); }
        }
        #[cfg(feature = "wincode")]
        {
            if wincode::serialize(&PodU16::from(a)).unwrap() != wincode::serialize(&a).unwrap() { fail("wincode-u16", format!("{}", a)); }
            if wincode::serialize(&PodU64::from(c)).unwrap() != wincode::serialize(&c).unwrap() { fail("wincode-u64", format!("{}", c)); }
            if wincode::serialize(&PodU128::from(d)).unwrap() != wincode::serialize(&d).unwrap() { fail("wincode-u128", format!("{}", d)); }
            if wincode::serialize(&PodI16::from(ia)).unwrap() != wincode::serialize(&ia).unwrap() { fail("wincode-i16", format!("{}", ia)); }
            if wincode::deserialize::<PodU64>(&c.to_le_bytes()).unwrap() != PodU64::from(c) { fail("wincode-decode", format!("{}", c)); }
        }
    }
    println!("MATRIX-DONE values={} violations={}", values().len(), bad);
}
