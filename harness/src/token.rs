//! C16 / C17 — generic token parsers vs the reference codecs, and totality / type confusion.
use crate::emit::{self, catch_plain, Report, Res};
use crate::prng::Rng;
use crate::Ctx;
use solana_program_option::COption;
use solana_program_pack::Pack;
use solana_pubkey::Pubkey;
use spl_generic_token::{
    generic_token,
    token::{self, GenericTokenAccount, GenericTokenMint},
    token_2022,
};
use spl_token_2022_interface::extension::StateWithExtensions;

type RAcct = (Vec<u8>, Vec<u8>, u64, u8, Option<Vec<u8>>, Option<u64>, u64, Option<Vec<u8>>);
type RMint = (Option<Vec<u8>>, u64, u8, Option<Vec<u8>>);

fn co_key(c: &COption<Pubkey>) -> Option<Vec<u8>> {
    match c {
        COption::Some(k) => Some(k.to_bytes().to_vec()),
        COption::None => None,
    }
}
fn co_u64(c: &COption<u64>) -> Option<u64> {
    match c {
        COption::Some(k) => Some(*k),
        COption::None => None,
    }
}
fn ref_account(b: &[u8]) -> Option<RAcct> {
    spl_token_interface::state::Account::unpack(b).ok().map(|a| {
        (a.mint.to_bytes().to_vec(), a.owner.to_bytes().to_vec(), a.amount, a.state as u8, co_key(&a.delegate), co_u64(&a.is_native), a.delegated_amount, co_key(&a.close_authority))
    })
}
fn ref_mint(b: &[u8]) -> Option<RMint> {
    spl_token_interface::state::Mint::unpack(b).ok().map(|m| (co_key(&m.mint_authority), m.supply, m.decimals, co_key(&m.freeze_authority)))
}
fn ref22_account(b: &[u8]) -> Option<RAcct> {
    StateWithExtensions::<spl_token_2022_interface::state::Account>::unpack(b).ok().map(|s| {
        let a = s.base;
        (a.mint.to_bytes().to_vec(), a.owner.to_bytes().to_vec(), a.amount, u8::from(a.state), co_key(&a.delegate), co_u64(&a.is_native), a.delegated_amount, co_key(&a.close_authority))
    })
}
fn ref22_mint(b: &[u8]) -> Option<RMint> {
    StateWithExtensions::<spl_token_2022_interface::state::Mint>::unpack(b).ok().map(|s| {
        let m = s.base;
        (co_key(&m.mint_authority), m.supply, m.decimals, co_key(&m.freeze_authority))
    })
}

fn emit_opt_bytes(o: &Option<Vec<u8>>) -> String {
    emit::option(o.as_ref().map(|v| emit::blob(v)))
}
fn emit_racct(o: &Option<RAcct>) -> String {
    emit::option(o.as_ref().map(|(m, ow, am, st, d, n, da, c)| {
        format!("({}, {}, {}, {}, {}, {}, {}, {})", emit::blob(m), emit::blob(ow), am, st, emit_opt_bytes(d), emit::option(n.map(|x| x.to_string())), da, emit_opt_bytes(c))
    }))
}
fn emit_rmint(o: &Option<RMint>) -> String {
    emit::option(o.as_ref().map(|(a, s, d, f)| format!("({}, {}, {}, {})", emit_opt_bytes(a), s, emit::byte(*d), emit_opt_bytes(f))))
}

fn rand_key(rng: &mut Rng) -> Pubkey {
    let mut a = [0u8; 32];
    if !rng.chance(1, 10) {
        for x in a.iter_mut() {
            *x = rng.byte();
        }
    }
    Pubkey::new_from_array(a)
}
fn rand_u64(rng: &mut Rng) -> u64 {
    match rng.below(6) {
        0 => 0,
        1 => u64::MAX,
        2 => 1,
        3 => 1 << rng.below(64),
        _ => rng.next_u64(),
    }
}
fn packed_account(rng: &mut Rng) -> Vec<u8> {
    use spl_token_interface::state::{Account, AccountState};
    let a = Account {
        mint: rand_key(rng),
        owner: rand_key(rng),
        amount: rand_u64(rng),
        delegate: if rng.chance(1, 2) { COption::Some(rand_key(rng)) } else { COption::None },
        state: *rng.pick(&[AccountState::Uninitialized, AccountState::Initialized, AccountState::Initialized, AccountState::Frozen]),
        is_native: if rng.chance(1, 2) { COption::Some(rand_u64(rng)) } else { COption::None },
        delegated_amount: rand_u64(rng),
        close_authority: if rng.chance(1, 2) { COption::Some(rand_key(rng)) } else { COption::None },
    };
    let mut b = vec![0u8; 165];
    Account::pack_into_slice(&a, &mut b);
    b
}
fn packed_mint(rng: &mut Rng) -> Vec<u8> {
    use spl_token_interface::state::Mint;
    let m = Mint {
        mint_authority: if rng.chance(1, 2) { COption::Some(rand_key(rng)) } else { COption::None },
        supply: rand_u64(rng),
        decimals: rng.edge_byte(),
        is_initialized: rng.chance(4, 5),
        freeze_authority: if rng.chance(1, 2) { COption::Some(rand_key(rng)) } else { COption::None },
    };
    let mut b = vec![0u8; 82];
    Mint::pack_into_slice(&m, &mut b);
    b
}

pub fn gen_bytes(rng: &mut Rng) -> Vec<u8> {
    let mut b = match rng.below(10) {
        0..=3 => {
            let mut b = packed_account(rng);
            match rng.below(5) {
                0 => {}
                1 => {
                    // extension tail: account-type marker + TLV-looking data or garbage
                    b.push(*rng.pick(&[2u8, 2, 2, 1, 0, 3]));
                    let n = rng.below(400) as usize;
                    b.extend(rng.bytes(n));
                }
                2 => {
                    b.push(2);
                    // a plausible extension: type u16, length u16, value; every header shape incl. the
                    // uninitialised type 0 with a non-zero length, unknown types, lengths past the end
                    let l = rng.below(60) as usize;
                    let ty: u16 = match rng.below(6) { 0 => 0, 1 => 0xffff, 2 => rng.range(20, 70) as u16, _ => rng.range(1, 20) as u16 };
                    let stated: u16 = match rng.below(5) { 0 => 0, 1 => l as u16 + 1, 2 => 0xffff, _ => l as u16 };
                    b.extend_from_slice(&ty.to_le_bytes());
                    b.extend_from_slice(&stated.to_le_bytes());
                    b.extend(rng.bytes(l));
                    if rng.chance(1, 3) {
                        b.extend_from_slice(&[0, 0, rng.range(1, 255) as u8, 0]);
                        let k6 = rng.below(6) as usize;
                        b.extend(rng.bytes(k6));
                    }
                }
                3 => {
                    // pad to exactly the multisig length
                    b.push(2);
                    b.resize(355, 0);
                }
                _ => {
                    b.push(2);
                    b.resize(rng.range(166, 400) as usize, 0);
                }
            }
            b
        }
        4..=7 => {
            let mut b = packed_mint(rng);
            match rng.below(5) {
                0 => {}
                1 => {
                    b.resize(165, if rng.chance(1, 6) { 1 } else { 0 });
                    b.push(*rng.pick(&[1u8, 1, 1, 2, 0, 3]));
                    let n = rng.below(300) as usize;
                    b.extend(rng.bytes(n));
                }
                2 => {
                    b.resize(165, 0);
                    b.push(1);
                    b.resize(355, 0);
                }
                3 => {
                    b.resize(165, 0);
                }
                _ => {
                    b.resize(rng.range(83, 170) as usize, 0);
                }
            }
            b
        }
        8 => {
            let n = *rng.pick(&[0usize, 1, 44, 45, 46, 81, 82, 83, 108, 109, 164, 165, 166, 167, 354, 355, 356, 400, 565]);
            rng.bytes(n)
        }
        _ => {
            let n = rng.below(420) as usize;
            let mut b = vec![0u8; n];
            for x in b.iter_mut() {
                if rng.chance(1, 4) {
                    *x = rng.edge_byte();
                }
            }
            b
        }
    };
    // sweep the bytes the predicates look at
    if rng.chance(1, 3) {
        for &i in &[45usize, 108, 165] {
            if i < b.len() && rng.chance(1, 2) {
                b[i] = *rng.pick(&[0u8, 1, 2, 3, 255]);
            }
        }
    }
    // corrupt a COption tag or the state byte now and then
    if rng.chance(1, 8) && !b.is_empty() {
        let i = *rng.pick(&[0usize, 1, 3, 45, 46, 49, 72, 75, 108, 109, 112, 129, 132]);
        if i < b.len() {
            b[i] = *rng.pick(&[0u8, 1, 2, 255]);
        }
    }
    b
}

pub fn run_one(rep: &mut Report, prop: &str, b: &[u8], to_coq: bool) {
    // every run sees the bytes at a different offset from an aligned address (0..7)
    static SHIFT: std::sync::atomic::AtomicUsize = std::sync::atomic::AtomicUsize::new(0);
    let shift = SHIFT.fetch_add(1, std::sync::atomic::Ordering::Relaxed) % 8;
    let shifted = emit::Shifted::new(b, shift);
    let b = shifted.bytes();
    rep.count(&format!("address-offset:{}", shift));
    let ids = [token::id(), token_2022::id(), Pubkey::new_from_array([7u8; 32])];
    let names = ["PToken", "PToken2022", "POther"];
    let ra = ref_account(b);
    let rm = ref_mint(b);
    let ra22 = ref22_account(b);
    let rm22 = ref22_mint(b);
    let mut nontrivial = false;
    let mut results = Vec::new();
    for (k, id) in ids.iter().enumerate() {
        let a = catch_plain(|| generic_token::Account::unpack(b, id).map(|a| (a.mint.to_bytes().to_vec(), a.owner.to_bytes().to_vec(), a.amount)));
        let m = catch_plain(|| generic_token::Mint::unpack(b, id).map(|m| (m.supply, m.decimals)));
        let det = |what: &str| serde_json::json!({"bytes": if b.len() > 4096 { format!("{}... ({} bytes in all)", emit::hex(&b[..4096]), b.len()) } else { emit::hex(b) }, "address_offset": shift, "program": names[k], "what": what, "account": format!("{:?}", a), "mint": format!("{:?}", m)}).to_string();
        if a.is_panic() || m.is_panic() {
            rep.violate("generic-panic", "a generic token parser panicked", det("panic"));
        }
        if let (Res::Ok(Some(_)), Res::Ok(Some(_))) = (&a, &m) {
            rep.violate("type-confusion", "the same bytes parse as both an account and a mint under one program id", det("both"));
        }
        if k == 2 && (a != Res::Ok(None) || m != Res::Ok(None)) {
            rep.violate("unknown-id-parses", "an unknown program id parsed", det("unknown id"));
        }
        if let Res::Ok(Some((mi, ow, am))) = &a {
            nontrivial = true;
            rep.count(&format!("generic:{}:account", names[k]));
            let good = b.len() >= 72 && mi[..] == b[0..32] && ow[..] == b[32..64] && *am == u64::from_le_bytes(b[64..72].try_into().unwrap());
            let len_ok = if k == 0 { b.len() == 165 } else { b.len() == 165 || (b.len() > 165 && b.len() != 355 && b[165] == 2) };
            if !good || !len_ok || b[108] == 0 {
                rep.violate("account-fields", "returned account fields are not the bytes at the documented offsets, or the acceptance rule is violated", det("fields"));
            }
        }
        if let Res::Ok(Some((s, d))) = &m {
            nontrivial = true;
            rep.count(&format!("generic:{}:mint", names[k]));
            let good = b.len() >= 46 && *s == u64::from_le_bytes(b[36..44].try_into().unwrap()) && *d == b[44];
            let len_ok = if k == 0 { b.len() == 82 } else { b.len() == 82 || (b.len() > 165 && b.len() != 355 && b[165] == 1) };
            if !good || !len_ok || b[45] == 0 {
                rep.violate("mint-fields", "returned mint fields are not the bytes at the documented offsets, or the acceptance rule is violated", det("fields"));
            }
        }
        // exact acceptance sets (C17)
        let want_a = match k {
            0 => b.len() == 165 && b[108] != 0,
            1 => (b.len() == 165 && b[108] != 0) || (b.len() > 165 && b.len() != 355 && b[165] == 2 && b[108] != 0),
            _ => false,
        };
        let want_m = match k {
            0 => b.len() == 82 && b[45] != 0,
            1 => (b.len() == 82 && b[45] != 0) || (b.len() > 165 && b.len() != 355 && b[165] == 1 && b[45] != 0),
            _ => false,
        };
        if prop == "C17" && (matches!(&a, Res::Ok(o) if o.is_some() != want_a) || matches!(&m, Res::Ok(o) if o.is_some() != want_m)) {
            rep.violate("acceptance-set", "the set of accepted buffers differs from the documented rule (exact base lengths; Token-2022: longer, not 355, matching account-type marker, initialised)", det("acceptance"));
        }
        // the checked getters of the two traits agree with the struct parsers
        if k < 2 {
            let g = catch_plain(|| {
                if k == 0 {
                    (token::Account::unpack_account_mint(b).map(|p| p.to_bytes().to_vec()), token::Account::unpack_account_owner(b).map(|p| p.to_bytes().to_vec()), token::Account::unpack_account_amount(b), token::Mint::unpack_mint_supply(b), token::Mint::unpack_mint_decimals(b))
                } else {
                    (token_2022::Account::unpack_account_mint(b).map(|p| p.to_bytes().to_vec()), token_2022::Account::unpack_account_owner(b).map(|p| p.to_bytes().to_vec()), token_2022::Account::unpack_account_amount(b), token_2022::Mint::unpack_mint_supply(b), token_2022::Mint::unpack_mint_decimals(b))
                }
            });
            let consistent = match (&g, &a, &m) {
                (Res::Ok((gm, go, ga, gs, gd)), Res::Ok(a), Res::Ok(m)) => {
                    a.as_ref().map(|x| x.0.clone()) == *gm && a.as_ref().map(|x| x.1.clone()) == *go && a.as_ref().map(|x| x.2) == *ga && m.map(|x| x.0) == *gs && m.map(|x| x.1) == *gd
                }
                _ => false,
            };
            if !consistent {
                rep.violate("getters-disagree", "checked trait getters disagree with the struct parsers (or panic)", det("getters"));
            }
        }
        results.push((a, m));
    }
    // C16: agreement with the reference codecs
    if prop == "C16" {
        let det = |what: &str| serde_json::json!({"bytes": emit::hex(b), "what": what}).to_string();
        if let Some(r) = &ra {
            rep.count("ref:token:account");
            if results[0].0 != Res::Ok(Some((r.0.clone(), r.1.clone(), r.2))) {
                rep.violate("disagrees-with-reference", "SPL Token accepts the account but the generic parser does not return the same mint/owner/amount", det("token account"));
            }
            if results[1].0 != results[0].0 {
                rep.violate("base-differs-between-ids", "a base-layout account parses differently under the two program ids", det("account"));
            }
        }
        if let Some(r) = &rm {
            rep.count("ref:token:mint");
            if results[0].1 != Res::Ok(Some((r.1, r.2))) {
                rep.violate("disagrees-with-reference", "SPL Token accepts the mint but the generic parser does not return the same supply/decimals", det("token mint"));
            }
            if results[1].1 != results[0].1 {
                rep.violate("base-differs-between-ids", "a base-layout mint parses differently under the two program ids", det("mint"));
            }
        }
        if let Some(r) = &ra22 {
            rep.count(if b.len() > 165 { "ref:2022:account:extended" } else { "ref:2022:account" });
            if results[1].0 != Res::Ok(Some((r.0.clone(), r.1.clone(), r.2))) {
                rep.violate("disagrees-with-reference", "Token-2022 accepts the account but the generic parser does not return the same fields", det("2022 account"));
            }
        }
        if let Some(r) = &rm22 {
            rep.count(if b.len() > 82 { "ref:2022:mint:extended" } else { "ref:2022:mint" });
            if results[1].1 != Res::Ok(Some((r.1, r.2))) {
                rep.violate("disagrees-with-reference", "Token-2022 accepts the mint but the generic parser does not return the same fields", det("2022 mint"));
            }
        }
        // uninitialised state never parses
        if b.len() > 108 && b[108] == 0 && results.iter().any(|r| matches!(&r.0, Res::Ok(Some(_)))) {
            rep.violate("uninitialised-parses", "an account whose state byte is 0 parsed", det("account"));
        }
        if b.len() > 45 && b[45] == 0 && results.iter().any(|r| matches!(&r.1, Res::Ok(Some(_)))) {
            rep.violate("uninitialised-parses", "a mint whose initialised byte is 0 parsed", det("mint"));
        }
    }
    if to_coq {
        for (k, (a, m)) in results.iter().enumerate() {
            if k == 2 && (b.len() % 7 != 0) {
                continue;
            }
            rep.case(
                format!("CGen {} {} {} {}", names[k], emit::blob(b),
                    a.emit(|o| emit::option(o.as_ref().map(|(x, y, z)| format!("({}, {}, {})", emit::blob(x), emit::blob(y), z)))),
                    m.emit(|o| emit::option(o.map(|(s, d)| format!("({}, {})", s, emit::byte(d)))))),
                nontrivial,
            );
        }
        if prop == "C16" {
            rep.case(format!("CRef {} {} {} {} {}", emit::blob(b), emit_racct(&ra), emit_rmint(&rm), emit_racct(&ra22), emit_rmint(&rm22)),
                ra.is_some() || rm.is_some() || ra22.is_some() || rm22.is_some());
        }
    } else {
        use std::hash::{Hash, Hasher};
        let mut h = std::collections::hash_map::DefaultHasher::new();
        b.hash(&mut h);
        rep.monitor_case(h.finish(), nontrivial);
    }
}

pub fn run(ctx: &Ctx, prop: &str) -> Report {
    let mut rep = Report::new(prop);
    rep.corr_module = "Token".into();
    if prop == "C16" {
        rep.expect_classes(&["ref:token:account", "ref:token:mint", "ref:2022:account", "ref:2022:account:extended", "ref:2022:mint", "ref:2022:mint:extended",
            "generic:PToken:account", "generic:PToken:mint", "generic:PToken2022:account", "generic:PToken2022:mint", "length:>=64KiB:well-formed-extended", "corpus:own-constants", "address-offset:3", "length:>4GiB"]);
    } else {
        rep.expect_classes(&["generic:PToken:account", "generic:PToken:mint", "generic:PToken2022:account", "generic:PToken2022:mint", "length:>=64KiB", "corpus:own-constants", "address-offset:3", "length:>4GiB"]);
    }
    // ids and lengths are read from the crates
    if token::Account::get_packed_len() != 165 || token::Mint::get_packed_len() != 82
        || token::id().to_string() != "TokenkegQfeZyiNwAJbNbGKPFXCWuBvf9Ss623VQ5DA" || token_2022::id().to_string() != "TokenzQdBNbLqP5VEhdkAS6EPFLC1PHnBqCXEpPxuEb"
        || spl_token_interface::id() != token::id() || spl_token_2022_interface::id() != token_2022::id() {
        rep.violate("constants", "program ids / packed lengths differ from the reference crates", "{}".into());
    }
    if spl_generic_token::spl_token_ids() != vec![token::id(), token_2022::id()]
        || !spl_generic_token::is_known_spl_token_id(&token::id()) || !spl_generic_token::is_known_spl_token_id(&token_2022::id())
        || spl_generic_token::is_known_spl_token_id(&Pubkey::new_from_array([7u8; 32]))
        || generic_token::Mint::unpack(&token::native_mint::ACCOUNT_DATA, &token::id()) != Some(generic_token::Mint { supply: 0, decimals: 9 }) {
        rep.violate("constants", "known-id helpers or the native mint data are inconsistent", "{}".into());
    }
    let mut rng = Rng::new(ctx.seed.wrapping_mul(191).wrapping_add(if prop == "C16" { 16 } else { 17 }));
    if prop == "C17" {
        // all lengths 0..=400 with the three marker bytes swept
        let sweep: Vec<u8> = if ctx.tier_thorough { (0..=255u8).collect() } else { vec![0, 1, 2, 3, 255] };
        for n in 0..=400usize {
            for &v45 in &sweep {
                for &v108 in &[0u8, 1, 2, 255] {
                    for &v165 in &[0u8, 1, 2, 3, 255] {
                        if (n <= 45 && v45 != 0) || (n <= 108 && v108 != 0) || (n <= 165 && v165 != 0) {
                            continue;
                        }
                        let mut b = vec![0u8; n];
                        for x in b.iter_mut() {
                            *x = rng.byte();
                        }
                        if n > 45 { b[45] = v45; }
                        if n > 108 { b[108] = v108; }
                        if n > 165 { b[165] = v165; }
                        let interesting = [82usize, 165, 166, 355, 0, 83, 164, 354, 356].contains(&n);
                        run_one(&mut rep, prop, &b, interesting && v45 < 3 && v108 < 3);
                    }
                }
            }
        }
        rep.exhaustive.push("all buffer lengths 0..400 x bytes at offsets 45/108/165 swept over {0,1,2,3,255} (thorough: all 256 values at 45), other bytes random".into());
    }
    // the crate's own constants as inputs, under every program id (run_one tries the two token ids and an unknown one)
    {
        let nm = token::native_mint::ACCOUNT_DATA.to_vec();
        run_one(&mut rep, prop, &nm, true);
        let mut ext = nm.clone();
        ext.resize(165, 0);
        ext.push(1);
        ext.extend_from_slice(&[0u8; 8]);
        run_one(&mut rep, prop, &ext, true);
        // plus every address the crate's sources spell out (read from the tree under test at run time)
        let mined = crate::mined_keys("generic-token/src");
        rep.count(&format!("corpus:addresses-mined-from-source:{}", mined.len()));
        let mut ids = vec![token::native_mint::id(), token::id(), token_2022::id(), spl_token_2022_interface::native_mint::id(), spl_token_interface::native_mint::id(), Pubkey::default()];
        for k in mined {
            if !ids.contains(&k) {
                ids.push(k);
            }
        }
        for id in ids {
            // an account whose mint / owner is one of the well-known keys; a mint whose authorities are
            // fully populated accounts (delegate, native reserve, close authority) of that mint / owner
            for _ in 0..3 {
                let mut f = packed_account(&mut rng);
                f[0..32].copy_from_slice(&id.to_bytes());
                f[108] = 1;
                f[109..113].copy_from_slice(&1u32.to_le_bytes());
                f[113..121].copy_from_slice(&rng.range(1, u64::MAX).to_le_bytes());
                run_one(&mut rep, prop, &f, true);
                let mut e = f.clone();
                e.push(2);
                e.extend_from_slice(&rng.bytes(9));
                run_one(&mut rep, prop, &e, true);
                f[0..32].copy_from_slice(&rng.bytes(32));
                f[32..64].copy_from_slice(&id.to_bytes());
                run_one(&mut rep, prop, &f, true);
            }
            for other in [id, Pubkey::new_from_array([9u8; 32])] {
                let mut a = vec![0u8; 165];
                a[0..32].copy_from_slice(&id.to_bytes());
                a[32..64].copy_from_slice(&other.to_bytes());
                a[64..72].copy_from_slice(&rng.bytes(8));
                a[108] = 1;
                run_one(&mut rep, prop, &a, true);
                a[0..32].copy_from_slice(&other.to_bytes());
                a[32..64].copy_from_slice(&id.to_bytes());
                run_one(&mut rep, prop, &a, true);
                let mut e = a.clone();
                e[0..32].copy_from_slice(&id.to_bytes());
                e.push(2);
                e.extend_from_slice(&[0u8; 6]);
                run_one(&mut rep, prop, &e, true);
            }
            let mut m = vec![0u8; 82];
            m[0..4].copy_from_slice(&1u32.to_le_bytes());
            m[4..36].copy_from_slice(&id.to_bytes());
            m[36..44].copy_from_slice(&rng.bytes(8));
            m[44] = 9;
            m[45] = 1;
            m[46..50].copy_from_slice(&1u32.to_le_bytes());
            m[50..82].copy_from_slice(&id.to_bytes());
            run_one(&mut rep, prop, &m, true);
        }
        rep.count("corpus:own-constants");
    }
    // lengths across 2^16 and 2^24 and at the 10 MiB account limit (monitor only)
    // plus lengths around every bound the crate's sources spell out (read at run time)
    let mined: Vec<usize> = crate::mined_ints("generic-token/src", 400, 48 * 1024 * 1024).into_iter().rev().take(4).flat_map(|n| [n - 1, n, n + 1, n + 166]).collect();
    rep.count(&format!("mined-from-source:lengths={:?}", mined));
    for n in [65_535usize, 65_536, 65_537, 65_536 + 82, 65_536 + 165, 65_536 + 166, 65_536 + 355, 131_072 + 165, (1 << 24) + 165, (1 << 24) + 82, 10 * 1024 * 1024].into_iter().chain(mined.into_iter()) {
        for &(v45, v108, v165) in &[(1u8, 1u8, 1u8), (1, 1, 2), (0, 1, 2), (1, 0, 1), (1, 1, 0), (2, 2, 3)] {
            let mut b = vec![0u8; n];
            for x in b.iter_mut().take(400) {
                *x = rng.byte();
            }
            b[45] = v45;
            b[108] = v108;
            b[165] = v165;
            rep.count("length:>=64KiB");
            run_one(&mut rep, prop, &b, false);
        }
        // well-formed extended Token-2022 state of that size (zero extension area), which the reference accepts
        let mut a = packed_account(&mut rng);
        a.resize(n, 0);
        a[165] = 2;
        run_one(&mut rep, prop, &a, false);
        let mut m = packed_mint(&mut rng);
        m.resize(n, 0);
        m[165] = 1;
        run_one(&mut rep, prop, &m, false);
        rep.count("length:>=64KiB:well-formed-extended");
    }
    // buffers longer than 4 GiB (lazily zeroed: only the pages written to are ever touched): lengths that
    // equal a base length modulo 2^32 must not be taken for it
    for &(extra, v45, v108, v165) in &[(82usize, 1u8, 0u8, 0u8), (82, 1, 1, 2), (165, 1, 1, 0), (165, 1, 1, 1), (165, 0, 1, 2), (166, 1, 1, 2), (355, 1, 1, 1), (0, 1, 1, 2)] {
        let n = (1usize << 32) + extra;
        let mut b = vec![0u8; n];
        b[0] = 7;
        b[36] = 5;
        b[44] = 6;
        b[45] = v45;
        b[64] = 9;
        b[108] = v108;
        b[165] = v165;
        rep.count("length:>4GiB");
        for (k, id) in [token::id(), token_2022::id()].iter().enumerate() {
            let a = catch_plain(|| generic_token::Account::unpack(&b, id).map(|a| (a.mint.to_bytes()[0], a.amount)));
            let m = catch_plain(|| generic_token::Mint::unpack(&b, id).map(|m| (m.supply, m.decimals)));
            rep.monitor_runs += 2;
            let want_a = k == 1 && v165 == 2 && v108 != 0;
            let want_m = k == 1 && v165 == 1 && v45 != 0;
            let ok_a = a == Res::Ok(if want_a { Some((7u8, 9u64)) } else { None });
            let ok_m = m == Res::Ok(if want_m { Some((5u64, 6u8)) } else { None });
            if !ok_a || !ok_m {
                rep.violate("acceptance-set", "a buffer longer than 4 GiB is parsed against the documented rule (exact base lengths; Token-2022: longer than 165, not 355, matching marker, initialised)",
                    serde_json::json!({"length": format!("2^32 + {}", extra), "byte45": v45, "byte108": v108, "byte165": v165, "program": if k == 0 { "Token" } else { "Token-2022" },
                        "account": format!("{:?}", a), "mint": format!("{:?}", m)}).to_string());
            }
        }
    }
    let n_coq = ctx.scale(900, 12000);
    for _ in 0..n_coq {
        let b = gen_bytes(&mut rng);
        run_one(&mut rep, prop, &b, true);
    }
    let n_mon = ctx.scale(150_000, 2_000_000);
    for _ in 0..n_mon {
        let b = gen_bytes(&mut rng);
        run_one(&mut rep, prop, &b, false);
    }
    rep
}
