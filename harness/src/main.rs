#![allow(dead_code)]
//! verif-harness: runs the implementation (path-dependent on /repo) on generated
//! cases, records what it observes as Gallina terms for the in-Coq correspondence
//! check, and runs the per-property monitors (executable statements of the
//! property over the real API with independent oracles).
mod emit;
mod prng;
mod c11;
mod tlv;
mod tlv_parse;
mod lv;
mod pod;
mod token;
mod macros;
mod res;
mod c15;
#[path = "/repo/program-error-derive/src/parser.rs"]
mod parser;
#[path = "/repo/program-error-derive/src/macro_impl.rs"]
mod macro_impl;

use emit::Report;

/// where the code under test lives (re-pointed for isolated worker copies)
pub const REPO_ROOT: &str = "/repo/";

/// integer literals of a crate of the tree under test (decimal or hex, `_` separators and type
/// suffixes allowed), read at run time: a bound the code knows about is a size worth crossing
pub fn mined_ints(dir: &str, lo: u128, hi: u128) -> Vec<usize> {
    fn walk(p: &std::path::Path, out: &mut Vec<String>) {
        if let Ok(rd) = std::fs::read_dir(p) {
            let mut ents: Vec<_> = rd.flatten().map(|e| e.path()).collect();
            ents.sort();
            for e in ents {
                if e.is_dir() {
                    walk(&e, out);
                } else if e.extension().map(|x| x == "rs").unwrap_or(false) {
                    if let Ok(s) = std::fs::read_to_string(&e) {
                        out.push(s);
                    }
                }
            }
        }
    }
    let mut srcs = Vec::new();
    walk(&std::path::Path::new(REPO_ROOT).join(dir), &mut srcs);
    let mut vals: Vec<usize> = Vec::new();
    let mut add = |v: u128| {
        if v > lo && v <= hi && !vals.contains(&(v as usize)) {
            vals.push(v as usize);
        }
    };
    for s in srcs {
        let b = s.as_bytes();
        let mut i = 0;
        while i < b.len() {
            let prev_ident = i > 0 && (b[i - 1].is_ascii_alphanumeric() || b[i - 1] == b'_');
            if b[i].is_ascii_digit() && !prev_ident {
                let st = i;
                while i < b.len() && (b[i].is_ascii_alphanumeric() || b[i] == b'_') {
                    i += 1;
                }
                let tok: String = s[st..i].chars().filter(|c| *c != '_').collect();
                let tok = tok.trim_end_matches("usize").trim_end_matches("u128").trim_end_matches("u64").trim_end_matches("u32").trim_end_matches("u16").trim_end_matches("u8").trim_end_matches("i64").trim_end_matches("i32");
                let v = if let Some(h) = tok.strip_prefix("0x") { u128::from_str_radix(h, 16).ok() } else { tok.parse::<u128>().ok() };
                if let Some(v) = v {
                    add(v);
                    // a * b written as a product (10 * 1024, 10 * 1024 * 1024)
                    let rest = s[i..].trim_start();
                    if let Some(r) = rest.strip_prefix('*') {
                        let r = r.trim_start();
                        let d: String = r.chars().take_while(|c| c.is_ascii_digit() || *c == '_').filter(|c| *c != '_').collect();
                        if let Ok(w) = d.parse::<u128>() {
                            add(v.saturating_mul(w));
                            let r2 = r[r.chars().take_while(|c| c.is_ascii_digit() || *c == '_').count()..].trim_start();
                            if let Some(r3) = r2.strip_prefix('*') {
                                let d3: String = r3.trim_start().chars().take_while(|c| c.is_ascii_digit() || *c == '_').filter(|c| *c != '_').collect();
                                if let Ok(x) = d3.parse::<u128>() {
                                    add(v.saturating_mul(w).saturating_mul(x));
                                }
                            }
                        }
                    }
                }
            } else {
                i += 1;
            }
        }
    }
    vals.sort();
    vals
}

/// addresses written as base58 literals anywhere in the sources of a crate of the tree under test,
/// read at run time: a constant the code knows about is an input worth trying
pub fn mined_keys(dir: &str) -> Vec<solana_pubkey::Pubkey> {
    fn walk(p: &std::path::Path, out: &mut Vec<String>) {
        if let Ok(rd) = std::fs::read_dir(p) {
            let mut ents: Vec<_> = rd.flatten().map(|e| e.path()).collect();
            ents.sort();
            for e in ents {
                if e.is_dir() {
                    walk(&e, out);
                } else if e.extension().map(|x| x == "rs").unwrap_or(false) {
                    if let Ok(s) = std::fs::read_to_string(&e) {
                        out.push(s);
                    }
                }
            }
        }
    }
    let mut srcs = Vec::new();
    walk(&std::path::Path::new(REPO_ROOT).join(dir), &mut srcs);
    let mut keys: Vec<solana_pubkey::Pubkey> = Vec::new();
    for s in srcs {
        for piece in s.split('"') {
            if (32..=44).contains(&piece.len()) && piece.bytes().all(|c| c.is_ascii_alphanumeric()) {
                if let Ok(k) = <solana_pubkey::Pubkey as std::str::FromStr>::from_str(piece) {
                    if !keys.contains(&k) {
                        keys.push(k);
                    }
                }
            }
        }
    }
    keys
}

pub struct Ctx {
    pub tier_thorough: bool,
    pub seed: u64,
}
impl Ctx {
    pub fn scale(&self, quick: usize, thorough: usize) -> usize {
        if self.tier_thorough {
            thorough
        } else {
            quick
        }
    }
}

fn main() {
    let args: Vec<String> = std::env::args().collect();
    if args.len() < 2 {
        eprintln!("usage: verif-harness <PROP> [--tier quick|thorough] [--seed N] [--out DIR] [--tag T] [--replay FILE]");
        std::process::exit(2);
    }
    let prop = args[1].clone();
    let mut tier = "quick".to_string();
    let mut seed: u64 = 1;
    let mut out = "/verif/coq/corr".to_string();
    let mut tag = "debug".to_string();
    let mut i = 2;
    while i < args.len() {
        match args[i].as_str() {
            "--tier" => {
                tier = args[i + 1].clone();
                i += 2;
            }
            "--seed" => {
                seed = args[i + 1].parse().expect("seed");
                i += 2;
            }
            "--out" => {
                out = args[i + 1].clone();
                i += 2;
            }
            "--tag" => {
                tag = args[i + 1].clone();
                i += 2;
            }
            _ => {
                eprintln!("unknown argument {}", args[i]);
                std::process::exit(2);
            }
        }
    }
    // panics are observations, not noise
    std::panic::set_hook(Box::new(|_| {}));
    let ctx = Ctx {
        tier_thorough: tier == "thorough",
        seed,
    };
    let (rep, shard): (Report, usize) = match prop.as_str() {
        "C11" => (c11::run(&ctx), 150),
        "C01" | "C03" | "C04" => (tlv::run(&ctx, &prop), 50),
        "C02" => (tlv_parse::run(&ctx), 100),
        "C09" => (lv::run_c09(&ctx), 100),
        "C10" => (lv::run_c10(&ctx), 200),
        "C13" => (pod::run_c13(&ctx), 400),
        "C16" | "C17" => (token::run(&ctx, &prop), 150),
        "C18" => (macros::run_c18(&ctx), 100),
        "C05" => (res::run_c05(&ctx), 60),
        "C06" | "C08" => (res::run_c06_c08(&ctx, &prop), 40),
        "C07" => (res::run_c07(&ctx), 60),
        "C12" => (res::run_c12(&ctx), 40),
        "C15" => (c15::run(&ctx), 60),
        "C19" => (macros::run_c19(&ctx), 60),
        "C14" => (pod::run_c14(&ctx), 400),
        _ => {
            eprintln!("unknown property {}", prop);
            std::process::exit(2);
        }
    };
    emit::write_out(&rep, &out, &tag, shard).expect("write");
    println!(
        "{} {}: cases={} distinct={} monitor_runs={} violations={}",
        prop,
        tag,
        rep.cases.len(),
        rep.distinct.len(),
        rep.monitor_runs,
        rep.violations.len()
    );
}
