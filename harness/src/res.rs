//! C05-C08 (account resolution) and C12 (stored extra-account lists): scenarios on the real
//! `ExtraAccountMeta::resolve`, `ExtraAccountMetaList::{init, update, add_to_instruction,
//! add_to_cpi_instruction, check_account_infos, unpack_with_tlv_state}`.
use crate::emit::{self, catch, catch_plain, Report, Res};
use crate::prng::Rng;
use crate::tlv::cksum;
use crate::Ctx;
use solana_account_info::AccountInfo;
use solana_instruction::{AccountMeta, Instruction};
use solana_program_error::ProgramError;
use solana_pubkey::Pubkey;
use spl_discriminator::{ArrayDiscriminator, SplDiscriminate};
use spl_pod::primitives::PodBool;
use spl_tlv_account_resolution::{account::ExtraAccountMeta, pubkey_data::PubkeyData, seeds::Seed, state::ExtraAccountMetaList};
use spl_type_length_value::state::{TlvState, TlvStateBorrowed};

pub const MTAGS: [[u8; 8]; 4] = [[0x11; 8], [0x00, 0x22, 0x22, 0x22, 0x22, 0x22, 0x22, 0x00], [0x11, 0x11, 0x11, 0x11, 0x11, 0x11, 0x11, 0x33], [0x44, 0, 0, 0, 0, 0, 0, 0x44]];
pub struct MT0;
pub struct MT1;
pub struct MT2;
pub struct MT3;
impl SplDiscriminate for MT0 {
    const SPL_DISCRIMINATOR: ArrayDiscriminator = ArrayDiscriminator::new(MTAGS[0]);
}
impl SplDiscriminate for MT1 {
    const SPL_DISCRIMINATOR: ArrayDiscriminator = ArrayDiscriminator::new(MTAGS[1]);
}
impl SplDiscriminate for MT2 {
    const SPL_DISCRIMINATOR: ArrayDiscriminator = ArrayDiscriminator::new(MTAGS[2]);
}
impl SplDiscriminate for MT3 {
    const SPL_DISCRIMINATOR: ArrayDiscriminator = ArrayDiscriminator::new(MTAGS[3]);
}
macro_rules! with_mtag {
    ($k:expr, $T:ident, $body:expr) => {
        match $k {
            0 => { type $T = MT0; $body }
            1 => { type $T = MT1; $body }
            2 => { type $T = MT2; $body }
            _ => { type $T = MT3; $body }
        }
    };
}

// ------------------------------------------------------------ emit
pub fn e_key(k: &Pubkey) -> String {
    emit::blob(&k.to_bytes())
}
pub fn e_meta(m: &AccountMeta) -> String {
    format!("{{| m_key := {}; m_signer := {}; m_writable := {} |}}", e_key(&m.pubkey), emit::boolean(m.is_signer), emit::boolean(m.is_writable))
}
pub fn e_extra(e: &ExtraAccountMeta) -> String {
    format!("{{| e_disc := {}; e_cfg := {}; e_signer := {}; e_writable := {} |}}",
        emit::byte(e.discriminator), emit::blob(&e.address_config), emit::byte(e.is_signer.0), emit::byte(e.is_writable.0))
}
pub fn e_extras(es: &[ExtraAccountMeta]) -> String {
    emit::list(&es.iter().map(e_extra).collect::<Vec<_>>())
}
pub fn e_kd(k: &Pubkey, d: &Option<Vec<u8>>) -> String {
    format!("({}, {})", e_key(k), emit::option(d.as_ref().map(|v| emit::blob(v))))
}
#[derive(Clone, Debug)]
pub struct Acct {
    pub key: Pubkey,
    pub signer: bool,
    pub writable: bool,
    pub data: Vec<u8>,
}
pub fn e_info(a: &Acct) -> String {
    format!("{{| i_key := {}; i_signer := {}; i_writable := {}; i_data := {} |}}", e_key(&a.key), emit::boolean(a.signer), emit::boolean(a.writable), emit::blob(&a.data))
}
fn raw_extra(b: &[u8; 35]) -> ExtraAccountMeta {
    let mut cfg = [0u8; 32];
    cfg.copy_from_slice(&b[1..33]);
    ExtraAccountMeta { discriminator: b[0], address_config: cfg, is_signer: PodBool(b[33]), is_writable: PodBool(b[34]) }
}

// ------------------------------------------------------------ independent resolver (oracle)
/// Resolution written from the property text: None = "must be an error".
pub fn oracle_resolve(e: &ExtraAccountMeta, ix: &[u8], pid: &Pubkey, accts: &[(Pubkey, Option<Vec<u8>>)]) -> Option<AccountMeta> {
    let flags = |k: Pubkey| AccountMeta { pubkey: k, is_signer: e.is_signer.0 != 0, is_writable: e.is_writable.0 != 0 };
    let cfg = &e.address_config;
    match e.discriminator {
        0 => Some(flags(Pubkey::new_from_array(*cfg))),
        d if d == 1 || d >= 128 => {
            let program = if d == 1 { *pid } else { accts.get((d - 128) as usize)?.0 };
            // parse the seed configs
            let mut seeds: Vec<Vec<u8>> = Vec::new();
            let mut i = 0usize;
            while i < 32 {
                match cfg[i] {
                    0 => break,
                    1 => {
                        let l = *cfg.get(i + 1)? as usize;
                        if i + 2 + l > 32 {
                            return None;
                        }
                        seeds.push(cfg[i + 2..i + 2 + l].to_vec());
                        i += 2 + l;
                    }
                    2 => {
                        let (s, l) = (*cfg.get(i + 1)? as usize, *cfg.get(i + 2)? as usize);
                        if s + l > ix.len() {
                            return None;
                        }
                        seeds.push(ix[s..s + l].to_vec());
                        i += 3;
                    }
                    3 => {
                        let a = *cfg.get(i + 1)? as usize;
                        seeds.push(accts.get(a)?.0.to_bytes().to_vec());
                        i += 2;
                    }
                    4 => {
                        let (a, s, l) = (*cfg.get(i + 1)? as usize, *cfg.get(i + 2)? as usize, *cfg.get(i + 3)? as usize);
                        let d = accts.get(a)?.1.as_ref()?;
                        if s + l > d.len() {
                            return None;
                        }
                        seeds.push(d[s..s + l].to_vec());
                        i += 4;
                    }
                    _ => return None,
                }
            }
            let refs: Vec<&[u8]> = seeds.iter().map(|s| &s[..]).collect();
            if refs.len() > 15 || refs.iter().any(|s| s.len() > 32) {
                return None;
            }
            Pubkey::try_find_program_address(&refs, &program).map(|(k, _)| flags(k))
        }
        2 => match cfg[0] {
            1 => {
                let s = cfg[1] as usize;
                if s + 32 > ix.len() {
                    return None;
                }
                Some(flags(Pubkey::new_from_array(ix[s..s + 32].try_into().unwrap())))
            }
            2 => {
                let d = accts.get(cfg[1] as usize)?.1.as_ref()?;
                let s = cfg[2] as usize;
                if s + 32 > d.len() {
                    return None;
                }
                Some(flags(Pubkey::new_from_array(d[s..s + 32].try_into().unwrap())))
            }
            _ => None,
        },
        _ => None,
    }
}

// ------------------------------------------------------------ generators
pub struct World {
    pub keys: Vec<Pubkey>,
    pub pid: Pubkey,
    pub ix: Vec<u8>,
}
pub fn gen_world(rng: &mut Rng) -> World {
    let nk = rng.range(3, 8) as usize;
    let mut keys: Vec<Pubkey> = (0..nk).map(|_| Pubkey::new_from_array(rng.bytes(32).try_into().unwrap())).collect();
    // keys with a meaning of their own: the all-zero key (system program / Pubkey::default(),
    // whose read-only non-signer config is 35 zero bytes), all-ones
    if rng.chance(1, 3) {
        keys[0] = Pubkey::default();
    }
    if rng.chance(1, 10) {
        keys[1] = Pubkey::new_from_array([0xff; 32]);
    }
    // addresses with a meaning of their own to the runtime: sysvars, native programs, loaders
    if rng.chance(1, 4) {
        const WELL_KNOWN: &[&str] = &[
            "SysvarC1ock11111111111111111111111111111111", "SysvarEpochSchedu1e111111111111111111111111", "SysvarFees111111111111111111111111111111111",
            "Sysvar1nstructions1111111111111111111111111", "SysvarRecentB1ockHashes11111111111111111111", "SysvarRent111111111111111111111111111111111",
            "SysvarRewards111111111111111111111111111111", "SysvarS1otHashes111111111111111111111111111", "SysvarS1otHistory11111111111111111111111111",
            "SysvarStakeHistory1111111111111111111111111", "SysvarEpochRewards1111111111111111111111111", "SysvarLastRestartS1ot1111111111111111111111",
            "Sysvar1111111111111111111111111111111111111", "ComputeBudget111111111111111111111111111111", "Stake11111111111111111111111111111111111111",
            "Vote111111111111111111111111111111111111111", "Config1111111111111111111111111111111111111", "AddressLookupTab1e1111111111111111111111111",
            "NativeLoader1111111111111111111111111111111", "BPFLoaderUpgradeab1e11111111111111111111111", "BPFLoader2111111111111111111111111111111111",
            "Ed25519SigVerify111111111111111111111111111", "KeccakSecp256k11111111111111111111111111111", "TokenkegQfeZyiNwAJbNbGKPFXCWuBvf9Ss623VQ5DA",
            "TokenzQdBNbLqP5VEhdkAS6EPFLC1PHnBqCXEpPxuEb", "ATokenGPvbdGVxr1b2hvZbsiqW5xWH25efTNsLJA8knL", "So11111111111111111111111111111111111111112",
        ];
        if let Ok(k) = std::str::FromStr::from_str(*rng.pick(WELL_KNOWN)) {
            let i = rng.below(keys.len() as u64) as usize;
            keys[i] = k;
        }
        // ... and any address the crates under test spell out in their own sources
        thread_local! { static MINED: Vec<Pubkey> = { let mut v = crate::mined_keys("tlv-account-resolution/src"); v.extend(crate::mined_keys("type-length-value/src")); v }; }
        MINED.with(|m| {
            if !m.is_empty() && rng.chance(1, 2) {
                let i = rng.below(keys.len() as u64) as usize;
                keys[i] = *rng.pick(m);
            }
        });
    }
    let ixl = match rng.below(6) {
        0 => 0,
        1 => rng.range(1, 8) as usize,
        2 => rng.range(250, 300) as usize,
        _ => rng.range(8, 80) as usize,
    };
    World { keys, pid: Pubkey::new_from_array(rng.bytes(32).try_into().unwrap()), ix: rng.bytes(ixl) }
}
pub fn gen_acct(rng: &mut Rng, w: &World) -> Acct {
    let dl = match rng.below(6) {
        0 => 0,
        1 => rng.range(1, 31) as usize,
        2 => 32,
        3 => rng.range(200, 300) as usize,
        _ => rng.range(33, 90) as usize,
    };
    Acct { key: *rng.pick(&w.keys), signer: rng.chance(1, 3), writable: rng.chance(1, 2), data: rng.bytes(dl) }
}
fn small_idx(rng: &mut Rng, n: usize) -> u8 {
    // mostly in range, sometimes one past / far
    if n > 100 && rng.chance(3, 4) {
        // the indices where a narrower or signed counter, or a cut-off at 255 / 256, would go wrong
        return *rng.pick(&[127u8, 128, 129, 254, 255, 255, 255, n.saturating_sub(1).min(255) as u8, n.saturating_sub(2).min(255) as u8]);
    }
    match rng.below(8) {
        0 => n.min(255) as u8,
        1 => rng.byte(),
        _ => rng.below(n.max(1) as u64) as u8,
    }
}
fn gen_seed_for(rng: &mut Rng, w: &World, naccts: usize, datalens: &[usize]) -> Seed {
    match rng.below(10) {
        0..=2 => {
            let l = match rng.below(8) { 0 => rng.range(9, 30) as usize, 1 => *rng.pick(&[16usize, 29, 30]), _ => rng.below(9) as usize };
            Seed::Literal { bytes: if rng.chance(1, 4) { (0..l).map(|_| rng.below(5) as u8).collect() } else { rng.bytes(l) } }
        }
        3..=5 => {
            let l = match rng.below(8) {
                0 => 0,
                1 => 32,
                2 => 33,
                3 => rng.range(17, 31),
                4 if rng.chance(1, 2) => rng.range(34, 255),
                _ => rng.range(1, 16),
            } as usize;
            let room = w.ix.len().saturating_sub(l);
            let idx = match rng.below(6) {
                0 => room + 1,
                1 => room,
                _ => rng.below(room as u64 + 1) as usize,
            };
            Seed::InstructionData { index: idx.min(255) as u8, length: l as u8 }
        }
        6 | 7 => Seed::AccountKey { index: small_idx(rng, naccts) },
        _ => {
            let a = small_idx(rng, naccts);
            let dl = datalens.get(a as usize).copied().unwrap_or(10);
            let l = match rng.below(7) {
                0 => 0,
                1 => 32.min(dl),
                2 => 33,
                3 => rng.range(13, 31) as usize,
                4 if rng.chance(1, 2) => rng.range(34, 255) as usize,
                _ => rng.range(1, 12) as usize,
            };
            let room = dl.saturating_sub(l);
            let idx = match rng.below(6) {
                0 => room + 1,
                1 => room,
                _ => rng.below(room as u64 + 1) as usize,
            };
            Seed::AccountData { account_index: a, data_index: idx.min(255) as u8, length: l as u8 }
        }
    }
}
pub fn gen_extra(rng: &mut Rng, w: &World, naccts: usize, datalens: &[usize]) -> ExtraAccountMeta {
    let s = rng.chance(1, 3);
    let wr = rng.chance(1, 2);
    for _ in 0..20 {
        let r = match rng.below(16) {
            0..=4 => ExtraAccountMeta::new_with_pubkey(if rng.chance(3, 4) { rng.pick(&w.keys) } else { &w.pid }, s, wr).ok(),
            5..=9 => {
                let k = if rng.chance(1, 12) { *rng.pick(&[15usize, 16]) } else { rng.below(5) as usize };
                let seeds: Vec<Seed> = (0..k).map(|_| if k >= 15 { Seed::AccountKey { index: small_idx(rng, naccts) } } else { gen_seed_for(rng, w, naccts, datalens) }).collect();
                if rng.chance(1, 4) {
                    ExtraAccountMeta::new_external_pda_with_seeds(small_idx(rng, naccts).min(if rng.chance(1, 10) { 200 } else { 127 }), &seeds, s, wr).ok()
                } else {
                    ExtraAccountMeta::new_with_seeds(&seeds, s, wr).ok()
                }
            }
            10..=12 => {
                let kd = if rng.chance(1, 2) {
                    let room = w.ix.len().saturating_sub(32);
                    PubkeyData::InstructionData { index: match rng.below(5) { 0 => room + 1, 1 => room, _ => rng.below(room as u64 + 1) as usize }.min(255) as u8 }
                } else {
                    let a = small_idx(rng, naccts);
                    let dl = datalens.get(a as usize).copied().unwrap_or(10);
                    let room = dl.saturating_sub(32);
                    PubkeyData::AccountData { account_index: a, data_index: match rng.below(5) { 0 => room + 1, 1 => room, _ => rng.below(room as u64 + 1) as usize }.min(255) as u8 }
                };
                ExtraAccountMeta::new_with_pubkey_data(&kd, s, wr).ok()
            }
            _ => {
                // raw 35 bytes: any kind byte, any flags
                let mut b = [0u8; 35];
                for x in b.iter_mut() {
                    *x = rng.byte();
                }
                b[0] = match rng.below(6) { 0 => rng.byte(), 1 => *rng.pick(&[3u8, 4, 127, 128, 129, 255]), _ => rng.below(3) as u8 };
                if rng.chance(2, 3) {
                    // make the config parse as something plausible
                    for x in b[1..33].iter_mut() {
                        *x = rng.below(6) as u8;
                    }
                }
                b[33] = *rng.pick(&[0u8, 1, 2, 255]);
                b[34] = *rng.pick(&[0u8, 1, 2, 255]);
                Some(raw_extra(&b))
            }
        };
        if let Some(e) = r {
            return e;
        }
    }
    ExtraAccountMeta::new_with_pubkey(&w.pid, s, wr).unwrap()
}

fn real_resolve(e: &ExtraAccountMeta, ix: &[u8], pid: &Pubkey, accts: &[(Pubkey, Option<Vec<u8>>)]) -> Res<AccountMeta> {
    catch(|| e.resolve(ix, pid, |i| accts.get(i).map(|(k, d)| (k, d.as_ref().map(|v| v.as_slice())))))
}
fn emit_res_meta(r: &Res<AccountMeta>) -> String {
    r.emit(e_meta)
}

// ------------------------------------------------------------ C05
/// instruction data and account data longer than 4 GiB (lazily zeroed allocations): only the first
/// 255 + 255 bytes are addressable by a config, so every config must resolve exactly as it does
/// against the first 600 bytes
fn huge_data_scenario(rep: &mut Report, rng: &mut Rng) {
    let mut w = gen_world(rng);
    w.ix = (0..600usize).map(|i| (i as u8).wrapping_mul(13).wrapping_add(1)).collect();
    for extra in [16usize, 300] {
        let n = (1usize << 32) + extra;
        let mut big = vec![0u8; n];
        for (i, x) in big.iter_mut().take(600).enumerate() {
            *x = (i as u8).wrapping_mul(13).wrapping_add(1);
        }
        let small = big[..600].to_vec();
        let key0 = w.keys[0];
        for which in 0..2 {
            // which == 0: the instruction data is huge; which == 1: the data of account 0 is
            let cfgs: Vec<ExtraAccountMeta> = (0..40).map(|_| gen_extra(rng, &w, 1, &[600])).collect();
            for e in cfgs.iter() {
                let (rb, rs) = if which == 0 {
                    let accts: Vec<(Pubkey, Option<Vec<u8>>)> = vec![(key0, Some(small.clone()))];
                    (real_resolve(e, &big, &w.pid, &accts), real_resolve(e, &small, &w.pid, &accts))
                } else {
                    let rb = catch(|| e.resolve(&small, &w.pid, |i| if i == 0 { Some((&key0, Some(&big[..]))) } else { None }));
                    let rs = catch(|| e.resolve(&small, &w.pid, |i| if i == 0 { Some((&key0, Some(&small[..]))) } else { None }));
                    (rb, rs)
                };
                rep.monitor_runs += 1;
                rep.count("data:>4GiB");
                if rb != rs || rb.is_panic() {
                    rep.violate("huge-data", "a config resolves differently against data longer than 4 GiB than against its first 600 bytes (only indices below 510 are addressable)",
                        serde_json::json!({"data_length": format!("2^32 + {}", extra), "which": if which == 0 { "instruction data" } else { "data of account 0" },
                            "config": emit::hex(bytemuck::bytes_of(e)), "with_huge_data": format!("{:?}", rb), "with_first_600_bytes": format!("{:?}", rs)}).to_string());
                }
            }
        }
    }
}

pub fn run_c05(ctx: &Ctx) -> Report {
    let mut rep = Report::new("C05");
    rep.corr_module = "Resolution".into();
    rep.expect_classes(&["resolve:ok:fixed", "resolve:ok:pda", "resolve:ok:external-pda", "resolve:ok:key-data", "resolve:err", "kind:unknown", "pda:crate", "pda:too-long", "ctor:seeds", "ctor:external", "ctor:pubkey", "ctor:key-data", "accounts:>100", "data:>=64KiB", "resolve:low-canonical-bump", "resolve:same-bytes-other-cut", "data:>4GiB"]);
    let mut rng = Rng::new(ctx.seed.wrapping_mul(211).wrapping_add(5));
    huge_data_scenario(&mut rep, &mut rng);
    // (b) the PDA derivation itself: model vs solana-pubkey
    let npda = ctx.scale(60, 600);
    for k in 0..npda {
        let ns = match k % 10 { 0 => 0, 1 => 15, 2 => 16, _ => rng.below(5) as usize };
        let seeds: Vec<Vec<u8>> = (0..ns).map(|_| { let l = match rng.below(8) { 0 => 32, 1 => 33, 2 => 0, _ => rng.below(12) as usize }; rng.bytes(l) }).collect();
        let program = Pubkey::new_from_array(rng.bytes(32).try_into().unwrap());
        let refs: Vec<&[u8]> = seeds.iter().map(|s| &s[..]).collect();
        let r = catch_plain(|| Pubkey::try_find_program_address(&refs, &program));
        rep.count(if matches!(&r, Res::Ok(Some(_))) { "pda:crate" } else { "pda:too-long" });
        if let Res::Ok(o) = &r {
            rep.case(format!("CPda {} {} {}", emit::list(&seeds.iter().map(|s| emit::blob(s)).collect::<Vec<_>>()), e_key(&program),
                emit::option(o.map(|(k, b)| format!("({}, {})", e_key(&k), b)))), o.is_some());
        }
        let h = rng.bytes(32);
        let on = Pubkey::new_from_array(h.clone().try_into().unwrap()).is_on_curve();
        rep.case(format!("CCurve {} {}", emit::blob(&h), emit::boolean(on)), true);
    }
    // (a) configs
    let n_coq = ctx.scale(1400, 14000);
    let n_mon = ctx.scale(60_000, 600_000);
    for k in 0..(n_coq + n_mon) {
        let to_coq = k < n_coq;
        let w = gen_world(&mut rng);
        // account lists are short, except every 40th monitor-only scenario: up to 256 accounts, so
        // that indices 127/128/255 refer to something
        let na = if !to_coq && k % 40 == 0 { *rng.pick(&[127usize, 128, 129, 200, 255, 256]) } else { rng.below(7) as usize };
        if na > 100 {
            rep.count("accounts:>100");
        }
        let mut w = w;
        let mut accts: Vec<(Pubkey, Option<Vec<u8>>)> = (0..na).map(|_| { let a = gen_acct(&mut rng, &w); (a.key, if rng.chance(1, 6) { None } else { Some(a.data) }) }).collect();
        // instruction / account data whose length crosses 2^16 (and 2^24): a multiple of 65536 plus a little
        if !to_coq && k % 37 == 5 {
            thread_local! { static MINED_LENS: Vec<usize> = crate::mined_ints("tlv-account-resolution/src", 300, 32 * 1024 * 1024).into_iter().rev().take(4).collect(); }
            let mined_len: Option<usize> = MINED_LENS.with(|m| if !m.is_empty() && rng.chance(1, 3) { Some(*rng.pick(m) + *rng.pick(&[0usize, 1, 2])) } else { None });
            let big_len = |rng: &mut Rng| mined_len.unwrap_or((if rng.chance(1, 12) { 160usize } else { rng.range(1, 2) as usize }) * 65536 + *rng.pick(&[0usize, 1, 7, 33, 300]));
            // only the first 600 bytes can be addressed by a u8 index + u8 length: random there, a pattern behind
            let big_bytes = |rng: &mut Rng, l: usize| { let mut v = rng.bytes(600.min(l)); v.resize(l, 0xa5); v };
            rep.count("data:>=64KiB");
            if rng.chance(1, 2) {
                let l = big_len(&mut rng);
                w.ix = big_bytes(&mut rng, l);
            }
            if !accts.is_empty() && rng.chance(2, 3) {
                let i = rng.below(accts.len().min(6) as u64) as usize;
                let l = big_len(&mut rng);
                accts[i].1 = Some(big_bytes(&mut rng, l));
            }
        }
        let dls: Vec<usize> = accts.iter().map(|a| a.1.as_ref().map(|d| d.len()).unwrap_or(0)).collect();
        let e = gen_extra(&mut rng, &w, na, &dls);
        // PDA-heavy cases are expensive inside Coq: cap them
        let is_pda = e.discriminator == 1 || e.discriminator >= 128;
        let to_coq = to_coq && (!is_pda || k % 3 == 0);
        let got = real_resolve(&e, &w.ix, &w.pid, &accts);
        let want = oracle_resolve(&e, &w.ix, &w.pid, &accts);
        let class = match (&got, e.discriminator) {
            (Res::Ok(_), 0) => "resolve:ok:fixed",
            (Res::Ok(_), 1) => "resolve:ok:pda",
            (Res::Ok(_), 2) => "resolve:ok:key-data",
            (Res::Ok(_), _) => "resolve:ok:external-pda",
            (Res::Err(_), _) => "resolve:err",
            _ => "resolve:panic",
        };
        rep.count(class);
        if (3..128).contains(&e.discriminator) {
            rep.count("kind:unknown");
        }
        let det = || serde_json::json!({"config": emit::hex(bytemuck::bytes_of(&e)), "instruction_data": emit::hex(&w.ix), "program_id": w.pid.to_string(),
            "accounts": accts.iter().map(|(k, d)| (k.to_string(), d.as_ref().map(|v| emit::hex(v)))).collect::<Vec<_>>(),
            "observed": format!("{:?}", got), "expected": format!("{:?}", want)}).to_string();
        match (&got, &want) {
            (Res::Panic(_), _) => rep.violate("resolve-panic", "resolution panicked instead of returning an error", det()),
            (Res::Ok(m), Some(wm)) if m == wm => {}
            (Res::Err(_), None) => {}
            _ => rep.violate(&format!("resolve-wrong:{}", if e.discriminator >= 128 { 128 } else { e.discriminator.min(3) }),
                "resolution does not yield the prescribed address / flags (or fails to fail)", det()),
        }
        if to_coq {
            rep.case(format!("CResolve {} {} {} {} {}", e_extra(&e), emit::blob(&w.ix), e_key(&w.pid),
                emit::list(&accts.iter().map(|(k, d)| e_kd(k, d)).collect::<Vec<_>>()), emit_res_meta(&got)), got.is_ok());
        } else {
            rep.monitor_case(k as u64, got.is_ok());
        }
    }
    // addresses whose canonical bump is far below 255 (found once by a 72M-seed search: seeds "vault" and a
    // little-endian u64, program id [7; 32]); the bump recorded here is re-derived on every run
    {
        const LOW_BUMPS: &[(u8, u64)] = &[(230, 5378174), (231, 48565726), (232, 17549726), (233, 10609470), (234, 2829504), (235, 5509377), (236, 647219), (237, 115175), (238, 30859), (239, 18432), (240, 58907), (241, 35149), (242, 28296), (243, 35518), (244, 2108), (245, 7), (246, 94), (247, 1522), (248, 442), (249, 70)];
        let program = Pubkey::new_from_array([7u8; 32]);
        for (bump, counter) in LOW_BUMPS {
            let data = counter.to_le_bytes().to_vec();
            let found = Pubkey::try_find_program_address(&[b"vault", &data], &program);
            if found.map(|x| x.1) != Some(*bump) {
                rep.violate("low-bump-corpus", "harness corpus entry does not have its recorded canonical bump", serde_json::json!({"counter": counter}).to_string());
            }
            let e = ExtraAccountMeta::new_with_seeds(&[Seed::Literal { bytes: b"vault".to_vec() }, Seed::InstructionData { index: 0, length: 8 }], false, true).unwrap();
            let got = real_resolve(&e, &data, &program, &[]);
            let want = oracle_resolve(&e, &data, &program, &[]);
            rep.count("resolve:low-canonical-bump");
            rep.monitor_runs += 1;
            if !matches!((&got, &want), (Res::Ok(m), Some(x)) if m == x) {
                rep.violate("resolve-low-bump", "a PDA whose canonical bump is far below 255 does not resolve to the canonical address",
                    serde_json::json!({"seeds": ["vault", emit::hex(&data)], "program_id": program.to_string(), "canonical_bump": bump, "observed": format!("{:?}", got), "expected": format!("{:?}", want)}).to_string());
            }
            if *bump >= 244 {
                rep.case(format!("CPda {} {} {}", emit::list(&[emit::blob(b"vault"), emit::blob(&data)]), e_key(&program),
                    emit::option(found.map(|(k, b)| format!("({}, {})", e_key(&k), b)))), true);
            }
        }
    }
    // back-to-back resolutions whose seeds concatenate to the same bytes but are cut differently
    // (anything remembered between calls and keyed on too little would answer the second from the first)
    for _ in 0..ctx.scale(300, 3000) {
        let w = gen_world(&mut rng);
        let mut w = w;
        if w.ix.len() < 70 {
            let l = 70 + rng.below(30) as usize;
            w.ix = rng.bytes(l);
        }
        let start = rng.below(4) as u8;
        let a = rng.range(2, 32) as u8;
        let b = rng.range(1, 32) as u8;
        let shift: i8 = *rng.pick(&[-1i8, 1, -2, 2]);
        let a2 = (a as i16 + shift as i16) as u8;
        let b2 = (b as i16 - shift as i16) as u8; // may become 33: a seed that is too long, an error
        let accts: Vec<(Pubkey, Option<Vec<u8>>)> = vec![(w.keys[0], Some(w.ix.clone()))];
        let mk = |x: u8, y: u8, from_account: bool| -> Vec<Seed> {
            if from_account {
                vec![Seed::AccountData { account_index: 0, data_index: start, length: x }, Seed::AccountData { account_index: 0, data_index: start + x, length: y }]
            } else {
                vec![Seed::InstructionData { index: start, length: x }, Seed::InstructionData { index: start + x, length: y }]
            }
        };
        let from_account = rng.chance(1, 2);
        let (s, wr) = (rng.chance(1, 2), rng.chance(1, 2));
        let c1 = ExtraAccountMeta::new_with_seeds(&mk(a, b, from_account), s, wr);
        let c2 = ExtraAccountMeta::new_with_seeds(&mk(a2, b2, from_account), s, wr);
        if let (Ok(c1), Ok(c2)) = (c1, c2) {
            for (first, second) in [(&c1, &c2), (&c2, &c1)] {
                let _ = real_resolve(first, &w.ix, &w.pid, &accts);
                let got = real_resolve(second, &w.ix, &w.pid, &accts);
                let want = oracle_resolve(second, &w.ix, &w.pid, &accts);
                rep.count("resolve:same-bytes-other-cut");
                rep.monitor_runs += 1;
                let ok = match (&got, &want) { (Res::Ok(m), Some(x)) => m == x, (Res::Err(_), None) => true, _ => false };
                if !ok {
                    rep.violate("resolve-after-sibling", "a resolution made right after one whose seeds concatenate to the same bytes (cut elsewhere) differs from the prescribed result",
                        serde_json::json!({"first_config": emit::hex(bytemuck::bytes_of(first)), "second_config": emit::hex(bytemuck::bytes_of(second)), "data": emit::hex(&w.ix), "program_id": w.pid.to_string(),
                            "observed": format!("{:?}", got), "expected": format!("{:?}", want)}).to_string());
                }
            }
        }
    }
    // constructors store exactly the information given
    for _ in 0..ctx.scale(2000, 20000) {
        let seeds = crate::c11::gen_seed_list(&mut rng);
        let (s, wr) = (rng.chance(1, 2), rng.chance(1, 2));
        let r = catch(|| ExtraAccountMeta::new_with_seeds(&seeds, s, wr));
        rep.count("ctor:seeds");
        if let Res::Ok(e) = &r {
            let back = catch(|| Seed::unpack_address_config(&e.address_config));
            if back != Res::Ok(seeds.clone()) || e.discriminator != 1 || e.is_signer.0 != s as u8 || e.is_writable.0 != wr as u8 {
                rep.violate("ctor-seeds", "a config built from a seed list does not store exactly that list and those flags", serde_json::json!({"seeds": format!("{:?}", seeds)}).to_string());
            }
        } else if r.is_panic() {
            rep.violate("ctor-panic", "new_with_seeds panicked", serde_json::json!({"seeds": format!("{:?}", seeds)}).to_string());
        }
        let idx = rng.edge_byte();
        let r2 = catch(|| ExtraAccountMeta::new_external_pda_with_seeds(idx, &[], s, wr));
        rep.count("ctor:external");
        if r2.is_ok() != (idx < 128) || matches!(&r2, Res::Ok(e) if e.discriminator != idx + 128 || e.is_signer.0 != s as u8 || e.is_writable.0 != wr as u8 || e.address_config != [0u8; 32]) {
            rep.violate("ctor-external", "external-PDA constructor must store index+128, the packed seeds and the flags, and reject indices >= 128", serde_json::json!({"index": idx, "signer": s, "writable": wr}).to_string());
        }
        // the same with a non-empty seed list: identical to the own-program constructor except for the kind byte
        if let (Res::Ok(own), true) = (&r, idx < 128) {
            let r3 = catch(|| ExtraAccountMeta::new_external_pda_with_seeds(idx, &seeds, s, wr));
            if !matches!(&r3, Res::Ok(e) if e.discriminator == idx + 128 && e.address_config == own.address_config && e.is_signer.0 == s as u8 && e.is_writable.0 == wr as u8) {
                rep.violate("ctor-external", "external-PDA constructor does not store exactly the seed list and the flags", serde_json::json!({"index": idx, "seeds": format!("{:?}", seeds), "signer": s, "writable": wr}).to_string());
            }
        }
        // fixed address
        let key = Pubkey::new_from_array(if rng.chance(1, 8) { [0u8; 32] } else { rng.bytes(32).try_into().unwrap() });
        let r4 = catch(|| ExtraAccountMeta::new_with_pubkey(&key, s, wr));
        rep.count("ctor:pubkey");
        if !matches!(&r4, Res::Ok(e) if e.discriminator == 0 && e.address_config == key.to_bytes() && e.is_signer.0 == s as u8 && e.is_writable.0 == wr as u8) {
            rep.violate("ctor-pubkey", "new_with_pubkey must store kind 0, the key and the flags", serde_json::json!({"key": key.to_string(), "signer": s, "writable": wr, "observed": format!("{:?}", r4.map(|e| bytemuck::bytes_of(&e).to_vec()))}).to_string());
        }
        // key taken from data
        let kd = if rng.chance(1, 2) { PubkeyData::InstructionData { index: rng.edge_byte() } } else { PubkeyData::AccountData { account_index: rng.edge_byte(), data_index: rng.edge_byte() } };
        let r5 = catch(|| ExtraAccountMeta::new_with_pubkey_data(&kd, s, wr));
        rep.count("ctor:key-data");
        let mut want_cfg = [0u8; 32];
        match &kd {
            PubkeyData::InstructionData { index } => { want_cfg[0] = 1; want_cfg[1] = *index; }
            PubkeyData::AccountData { account_index, data_index } => { want_cfg[0] = 2; want_cfg[1] = *account_index; want_cfg[2] = *data_index; }
            _ => {}
        }
        if !matches!(&r5, Res::Ok(e) if e.discriminator == 2 && e.address_config == want_cfg && e.is_signer.0 == s as u8 && e.is_writable.0 == wr as u8) {
            rep.violate("ctor-key-data", "new_with_pubkey_data must store kind 2, the packed key-data config and the flags", serde_json::json!({"config": format!("{:?}", kd), "signer": s, "writable": wr, "observed": format!("{:?}", r5.map(|e| bytemuck::bytes_of(&e).to_vec()))}).to_string());
        }
        let m = AccountMeta { pubkey: Pubkey::new_from_array(rng.bytes(32).try_into().unwrap()), is_signer: s, is_writable: wr };
        let e = ExtraAccountMeta::from(&m);
        {
            let owner = Pubkey::new_from_array([9u8; 32]);
            let (mut lam, mut data) = (1u64, vec![1u8, 2, 3]);
            let info = AccountInfo::new(&m.pubkey, s, wr, &mut lam, &mut data[..], &owner, false);
            let e2 = ExtraAccountMeta::from(&info);
            let e3 = ExtraAccountMeta::from(m.clone());
            if e2 != e || e3 != e || ExtraAccountMeta::from(info) != e {
                rep.violate("ctor-meta", "From<AccountInfo> / From<AccountMeta> do not store key and flags", "{}".into());
            }
        }
        if AccountMeta::try_from(&e) != Ok(m.clone()) || e.discriminator != 0 {
            rep.violate("ctor-meta", "From<AccountMeta> does not round-trip key and flags", "{}".into());
        }
        rep.monitor_case(0, false);
    }
    rep
}

// ------------------------------------------------------------ scenarios for C06 / C07 / C08
pub struct Scenario {
    pub w: World,
    pub metas: Vec<AccountMeta>,
    pub initial: Vec<Acct>,
    pub pool: Vec<Acct>,
    pub cfgs: Vec<ExtraAccountMeta>,
    pub tlv: Vec<u8>,
}
pub fn gen_scenario(rng: &mut Rng, precondition: bool) -> Scenario {
    let w = gen_world(rng);
    // one data value per key (functional pool)
    let datas: Vec<Vec<u8>> = w.keys.iter().map(|_| { let l = match rng.below(5) { 0 => 0, 1 => 32, _ => rng.range(1, 90) as usize }; rng.bytes(l) }).collect();
    // every 50th scenario is large: more than 255 accounts in the instruction, or more than 255 stored configs
    let big = rng.below(25) == 0;
    let big_metas = big && rng.chance(1, 2);
    let nm = if big_metas { *rng.pick(&[255usize, 256, 257, 300]) } else { rng.below(7) as usize };
    let mut initial = Vec::new();
    // a large instruction may also name ONE key 255..300 times, all read-only or all writable (plus, at most, one exception)
    let one_key = if big_metas && rng.chance(1, 2) { Some((rng.below(w.keys.len() as u64) as usize, rng.chance(1, 2))) } else { None };
    for _ in 0..nm {
        let ki = match one_key { Some((k, _)) => k, None => rng.below(w.keys.len() as u64) as usize };
        let wr = match one_key { Some((_, wflag)) => wflag, None => rng.chance(1, 2) };
        initial.push(Acct { key: w.keys[ki], signer: rng.chance(1, 3), writable: wr, data: datas[ki].clone() });
    }
    if let Some((_, wflag)) = one_key {
        if rng.chance(1, 2) {
            let j = rng.below(nm as u64) as usize;
            initial[j].writable = !wflag;
        }
    }
    let metas: Vec<AccountMeta> = initial.iter().map(|a| AccountMeta { pubkey: a.key, is_signer: a.signer, is_writable: a.writable }).collect();
    let nc = if big && !big_metas { *rng.pick(&[255usize, 256, 257, 300]) } else { rng.below(7) as usize };
    let mut cfgs = Vec::new();
    let mut dls: Vec<usize> = initial.iter().map(|a| a.data.len()).collect();
    for _ in 0..nc {
        let e = if one_key.is_some() && rng.chance(1, 2) {
            ExtraAccountMeta::new_with_pubkey(&w.keys[one_key.unwrap().0], rng.chance(1, 3), true).unwrap()
        } else if big_metas && rng.chance(3, 4) {
            // configs that certainly resolve, referring to high account indices
            let n = dls.len();
            let x = *rng.pick(&[127usize, 128, 129, 254, 255, 255, n - 1, n - 2]).min(&(n - 1)).min(&255);
            let (s, wr) = (rng.chance(1, 3), rng.chance(1, 2));
            match rng.below(3) {
                0 => ExtraAccountMeta::new_with_seeds(&[Seed::Literal { bytes: vec![7, 7] }, Seed::AccountKey { index: x as u8 }], s, wr).unwrap(),
                1 => ExtraAccountMeta::new_with_seeds(&[Seed::AccountData { account_index: x as u8, data_index: 0, length: dls[x].min(8) as u8 }], s, wr).unwrap(),
                _ if dls[x] >= 32 => ExtraAccountMeta::new_with_pubkey_data(&PubkeyData::AccountData { account_index: x as u8, data_index: (dls[x] - 32).min(255) as u8 }, s, wr).unwrap(),
                _ => ExtraAccountMeta::new_external_pda_with_seeds(x.min(127) as u8, &[Seed::AccountKey { index: x as u8 }], s, wr).unwrap(),
            }
        } else {
            gen_extra(rng, &w, dls.len(), &dls)
        };
        dls.push(rng.range(0, 60) as usize);
        cfgs.push(e);
    }
    // near-duplicates: a config repeated with the same 32 config bytes but other flags, or another
    // kind byte (own-program PDA <-> external PDA, other external index) -- what a cache keyed on too
    // little would confuse
    if cfgs.len() >= 2 && rng.chance(1, 4) {
        let i = rng.below(cfgs.len() as u64) as usize;
        let j = (i + 1 + rng.below(cfgs.len() as u64 - 1) as usize) % cfgs.len();
        let mut d = cfgs[i];
        match rng.below(4) {
            0 => d.is_writable = (d.is_writable.0 == 0).into(),
            1 => d.is_signer = (d.is_signer.0 == 0).into(),
            2 if d.discriminator == 1 => d.discriminator = 128 + rng.below(dls.len().max(1).min(100) as u64) as u8,
            2 if d.discriminator >= 128 => d.discriminator = if rng.chance(1, 2) { 1 } else { 128 + rng.below(dls.len().max(1).min(100) as u64) as u8 },
            _ => { d.is_writable = (d.is_writable.0 == 0).into(); }
        }
        cfgs[j] = d;
        // a third occurrence, alternating again (writable, read-only, writable ...)
        if cfgs.len() >= 3 && rng.chance(1, 2) {
            let k = (0..cfgs.len()).find(|x| *x != i && *x != j).unwrap();
            let mut d3 = cfgs[i];
            if rng.chance(1, 2) {
                d3.is_writable = cfgs[i].is_writable;
            } else {
                d3.is_writable = (cfgs[j].is_writable.0 == 0).into();
            }
            cfgs[k] = d3;
        }
    }
    // the pool: all universe keys (so PDAs are usually missing unless precondition pads them in later)
    let mut pool: Vec<Acct> = w.keys.iter().zip(datas.iter()).map(|(k, d)| Acct { key: *k, signer: rng.chance(1, 4), writable: rng.chance(1, 2), data: d.clone() }).collect();
    pool.push(Acct { key: w.pid, signer: false, writable: false, data: vec![] });
    // add the accounts the configs resolve to (so that success is common), by running the oracle
    let mut seen: Vec<(Pubkey, Option<Vec<u8>>)> = initial.iter().map(|a| (a.key, Some(a.data.clone()))).collect();
    for e in &cfgs {
        match oracle_resolve(e, &w.ix, &w.pid, &seen) {
            Some(m) => {
                let d = match pool.iter().find(|a| a.key == m.pubkey) {
                    Some(a) => a.data.clone(),
                    None => {
                        let l = rng.below(70) as usize;
                        let d = rng.bytes(l);
                        if precondition || rng.chance(5, 6) {
                            pool.push(Acct { key: m.pubkey, signer: false, writable: rng.chance(1, 2), data: d.clone() });
                        }
                        d
                    }
                };
                seen.push((m.pubkey, Some(d)));
            }
            None => break,
        }
    }
    if !precondition && rng.chance(1, 10) && !pool.is_empty() {
        let i = rng.below(pool.len() as u64) as usize;
        pool.remove(i);
    }
    // shuffle the pool
    for i in (1..pool.len()).rev() {
        let j = rng.below(i as u64 + 1) as usize;
        pool.swap(i, j);
    }
    let size = ExtraAccountMetaList::size_of(cfgs.len()).unwrap();
    let mut tlv = vec![0u8; size];
    ExtraAccountMetaList::init::<MT0>(&mut tlv, &cfgs).unwrap();
    Scenario { w, metas, initial, pool, cfgs, tlv }
}

/// a check-only scenario: configs may refer to any position of the provided list, including
/// their own and later ones; the accepted list is found by iterating the independent resolver
pub fn gen_forward_scenario(rng: &mut Rng) -> (Scenario, Vec<Acct>) {
    let w = gen_world(rng);
    let n0 = rng.below(4) as usize;
    let nc = rng.range(1, 5) as usize;
    let total = n0 + nc;
    let mut accts: Vec<Acct> = (0..total).map(|_| gen_acct(rng, &w)).collect();
    let dls: Vec<usize> = accts.iter().map(|a| a.data.len()).collect();
    let cfgs: Vec<ExtraAccountMeta> = (0..nc).map(|_| gen_extra(rng, &w, total, &dls)).collect();
    for _ in 0..6 {
        let mut changed = false;
        for i in 0..nc {
            let view: Vec<(Pubkey, Option<Vec<u8>>)> = accts.iter().map(|a| (a.key, Some(a.data.clone()))).collect();
            if let Some(m) = oracle_resolve(&cfgs[i], &w.ix, &w.pid, &view) {
                let a = &mut accts[n0 + i];
                if a.key != m.pubkey {
                    changed = true;
                }
                a.key = m.pubkey;
                a.signer = m.is_signer;
                a.writable = m.is_writable;
            }
        }
        if !changed {
            break;
        }
    }
    let size = ExtraAccountMetaList::size_of(cfgs.len()).unwrap();
    let mut tlv = vec![0u8; size];
    ExtraAccountMetaList::init::<MT0>(&mut tlv, &cfgs).unwrap();
    let initial: Vec<Acct> = accts[..n0].to_vec();
    let metas = initial.iter().map(|a| AccountMeta { pubkey: a.key, is_signer: a.signer, is_writable: a.writable }).collect();
    (Scenario { w, metas, initial, pool: vec![], cfgs, tlv }, accts)
}

static TLV_SHIFT: std::sync::atomic::AtomicUsize = std::sync::atomic::AtomicUsize::new(0);
/// the stored TLV data and the instruction data at a varying offset from an aligned address
fn shifted(b: &[u8]) -> emit::Shifted {
    emit::Shifted::new(b, TLV_SHIFT.fetch_add(1, std::sync::atomic::Ordering::Relaxed))
}
/// a future that is pending for `n` polls first: fetches of earlier accounts may complete after
/// fetches of later ones if the helper ever runs them concurrently
pub struct Delay<T> {
    n: usize,
    v: Option<T>,
}
impl<T: Unpin> std::future::Future for Delay<T> {
    type Output = T;
    fn poll(mut self: std::pin::Pin<&mut Self>, cx: &mut std::task::Context<'_>) -> std::task::Poll<T> {
        if self.n > 0 {
            self.n -= 1;
            cx.waker().wake_by_ref();
            std::task::Poll::Pending
        } else {
            std::task::Poll::Ready(self.v.take().expect("polled after completion"))
        }
    }
}
pub fn run_offchain(sc: &Scenario, pool: &[Acct]) -> Res<Vec<AccountMeta>> {
    let tlv = shifted(&sc.tlv);
    let calls = std::cell::Cell::new(0usize);
    let mut ix = Instruction { program_id: sc.w.pid, accounts: sc.metas.clone(), data: sc.w.ix.clone() };
    let r = catch(|| {
        futures::executor::block_on(ExtraAccountMetaList::add_to_instruction::<MT0, _, _>(
            &mut ix,
            |k: Pubkey| {
                let r: spl_tlv_account_resolution::state::AccountDataResult = match pool.iter().find(|a| a.key == k) {
                    Some(a) => Ok(Some(a.data.clone())),
                    None => Err("unknown account".into()),
                };
                // the earlier the call, the longer the fetch takes
                let c = calls.get();
                calls.set(c + 1);
                Delay { n: 7usize.saturating_sub(c) + (k.to_bytes()[0] as usize % 3), v: Some(r) }
            },
            tlv.bytes(),
        ))
    });
    r.map(|_| ix.accounts.clone())
}
pub fn run_cpi(sc: &Scenario, pool: &[Acct]) -> Res<(Vec<AccountMeta>, Vec<Pubkey>)> {
    let owner = Pubkey::new_from_array([9u8; 32]);
    let mut store: Vec<(Pubkey, u64, Vec<u8>, bool, bool)> = pool.iter().map(|a| (a.key, 1u64, a.data.clone(), a.signer, a.writable)).collect();
    let mut istore: Vec<(Pubkey, u64, Vec<u8>, bool, bool)> = sc.initial.iter().map(|a| (a.key, 1u64, a.data.clone(), a.signer, a.writable)).collect();
    let pool_infos: Vec<AccountInfo> = store.iter_mut().enumerate().map(|(i, (k, l, d, s, w))| AccountInfo::new(k, *s, *w, l, &mut d[..], &owner, i % 3 == 1)).collect();
    let mut cpi_infos: Vec<AccountInfo> = istore.iter_mut().enumerate().map(|(i, (k, l, d, s, w))| AccountInfo::new(k, *s, *w, l, &mut d[..], &owner, i % 4 == 2)).collect();
    let mut ix = Instruction { program_id: sc.w.pid, accounts: sc.metas.clone(), data: sc.w.ix.clone() };
    let tlv = shifted(&sc.tlv);
    let r = catch(|| ExtraAccountMetaList::add_to_cpi_instruction::<MT0>(&mut ix, &mut cpi_infos, tlv.bytes(), &pool_infos));
    r.map(|_| (ix.accounts.clone(), cpi_infos.iter().map(|i| *i.key).collect()))
}
pub fn run_check(accounts: &[Acct], ix: &[u8], pid: &Pubkey, tlv: &[u8]) -> Res<()> {
    let owner = Pubkey::new_from_array([9u8; 32]);
    let mut store: Vec<(Pubkey, u64, Vec<u8>, bool, bool)> = accounts.iter().map(|a| (a.key, 1u64, a.data.clone(), a.signer, a.writable)).collect();
    // (whether an account is executable is no part of the prescribed key / signer / writable triple)
    let exec_seed = accounts.len() + tlv.len();
    let infos: Vec<AccountInfo> = store.iter_mut().enumerate().map(|(i, (k, l, d, s, w))| AccountInfo::new(k, *s, *w, l, &mut d[..], &owner, (i * 7 + exec_seed) % 3 == 0)).collect();
    let (tlv, ix) = (shifted(tlv), shifted(ix));
    catch(|| ExtraAccountMetaList::check_account_infos::<MT0>(&infos, ix.bytes(), pid, tlv.bytes()))
}

/// the same check while one provided account's data is mutably borrowed by the caller
pub fn run_check_borrowed(accounts: &[Acct], ix: &[u8], pid: &Pubkey, tlv: &[u8], idx: usize) -> Res<()> {
    let owner = Pubkey::new_from_array([9u8; 32]);
    let mut store: Vec<(Pubkey, u64, Vec<u8>, bool, bool)> = accounts.iter().map(|a| (a.key, 1u64, a.data.clone(), a.signer, a.writable)).collect();
    let infos: Vec<AccountInfo> = store.iter_mut().map(|(k, l, d, s, w)| AccountInfo::new(k, *s, *w, l, &mut d[..], &owner, false)).collect();
    let guard = infos[idx].try_borrow_mut_data().unwrap();
    let r = catch(|| ExtraAccountMetaList::check_account_infos::<MT0>(&infos, ix, pid, tlv));
    drop(guard);
    r
}

fn e_metas(ms: &[AccountMeta]) -> String {
    emit::list(&ms.iter().map(e_meta).collect::<Vec<_>>())
}
fn e_pool_kd(pool: &[Acct]) -> String {
    emit::list(&pool.iter().map(|a| e_kd(&a.key, &Some(a.data.clone()))).collect::<Vec<_>>())
}
fn e_infos(xs: &[Acct]) -> String {
    emit::list(&xs.iter().map(e_info).collect::<Vec<_>>())
}
fn pda_count(cfgs: &[ExtraAccountMeta]) -> usize {
    cfgs.iter().filter(|e| e.discriminator == 1 || e.discriminator >= 128).count()
}

fn monitor_privileges(rep: &mut Report, sc: &Scenario, out: &[AccountMeta], path: &str) {
    // every appended meta against the metas present before it
    let n0 = sc.metas.len();
    for (j, m) in out.iter().enumerate().skip(n0) {
        let c = &sc.cfgs[j - n0];
        let pre = &out[..j];
        let same: Vec<&AccountMeta> = pre.iter().filter(|p| p.pubkey == m.pubkey).collect();
        let cw = c.is_writable.0 != 0;
        let det = || serde_json::json!({"path": path, "instruction_metas": sc.metas.iter().map(|x| format!("{:?}", x)).collect::<Vec<_>>(),
            "configs": sc.cfgs.iter().map(|e| emit::hex(bytemuck::bytes_of(e))).collect::<Vec<_>>(), "appended_index": j - n0, "appended": format!("{:?}", m)}).to_string();
        if m.is_signer {
            rep.violate("appended-signer", "an appended account is marked signer", det());
        }
        if m.is_writable && !cw {
            rep.violate("appended-writable-not-configured", "an appended account is writable although its stored configuration is not", det());
        }
        if !same.is_empty() && same.iter().all(|p| !p.is_writable) && m.is_writable {
            rep.violate("escalated-readonly", "a key present only as read-only was appended writable", det());
        }
        if cw && (same.is_empty() || same.iter().any(|p| p.is_writable)) && !m.is_writable {
            rep.violate("lost-writable", "a configured-writable account whose key is absent or already writable was appended read-only", det());
        }
    }
}

pub fn run_c06_c08(ctx: &Ctx, prop: &str) -> Report {
    let mut rep = Report::new(prop);
    rep.corr_module = "Resolution".into();
    rep.expect_classes(&["both:ok", "both:err", "deescalated", "duplicate-key", "stored-data:with-tail"]);
    if prop == "C06" {
        rep.expect_classes(&["cpi-infos:not-mirroring-metas"]);
    } else {
        rep.expect_classes(&["pool:duplicate-infos"]);
    }
    let mut rng = Rng::new(ctx.seed.wrapping_mul(223).wrapping_add(if prop == "C06" { 6 } else { 8 }));
    let n_coq = ctx.scale(500, 5000);
    let n_mon = ctx.scale(15_000, 150_000);
    for k in 0..(n_coq + n_mon) {
        let pre = prop == "C08" || rng.chance(2, 3);
        let mut sc = gen_scenario(&mut rng, pre);
        let mut with_tail = false;
        // C06 does not assume that the caller's account infos mirror the instruction's metas: other order,
        // fewer infos, other flags -- the privileges are decided by the metas alone
        if prop == "C06" && !pre && !sc.initial.is_empty() && rng.chance(1, 2) {
            match rng.below(4) {
                0 => sc.initial.reverse(),
                1 => { let l = sc.initial.len(); sc.initial.rotate_left(1 % l); }
                2 => { sc.initial.pop(); }
                _ => {}
            }
            for a in sc.initial.iter_mut() {
                if rng.chance(1, 2) {
                    a.writable = !a.writable;
                }
            }
            rep.count("cpi-infos:not-mirroring-metas");
        }
        // stored data with something behind the entry: zero padding (fine), a short non-zero tail or an
        // entry whose length runs past the end (malformed: both helpers must refuse), garbage behind a terminator (fine)
        if rng.chance(1, 8) {
            match rng.below(5) {
                0 => sc.tlv.extend_from_slice(&vec![0u8; rng.range(1, 20) as usize]),
                1 => { let l = rng.range(1, 7) as usize; let mut t = rng.bytes(l); t[l - 1] |= 1; sc.tlv.extend_from_slice(&t); }
                2 => { sc.tlv.extend_from_slice(&[0x22; 8]); sc.tlv.extend_from_slice(&50u32.to_le_bytes()); sc.tlv.extend_from_slice(&[1, 2, 3]); }
                3 => { sc.tlv.extend_from_slice(&[0u8; 8]); sc.tlv.extend_from_slice(&rng.bytes(9)); }
                _ => { sc.tlv.extend_from_slice(&[0x22; 8]); sc.tlv.extend_from_slice(&[0xff; 4]); }
            }
            rep.count("stored-data:with-tail");
            with_tail = true;
        }
        let to_coq = k < n_coq && (pda_count(&sc.cfgs) <= 2) && sc.cfgs.len() + sc.metas.len() <= 14;
        let off = run_offchain(&sc, &sc.pool);
        let cpi = run_cpi(&sc, &sc.pool);
        let det = |extra: serde_json::Value| serde_json::json!({"program_id": sc.w.pid.to_string(), "instruction_data": emit::hex(&sc.w.ix),
            "metas": sc.metas.iter().map(|x| format!("{:?}", x)).collect::<Vec<_>>(), "configs": sc.cfgs.iter().map(|e| emit::hex(bytemuck::bytes_of(e))).collect::<Vec<_>>(),
            "pool": sc.pool.iter().map(|a| (a.key.to_string(), emit::hex(&a.data))).collect::<Vec<_>>(), "offchain": format!("{:?}", off), "cpi": format!("{:?}", cpi), "extra": extra}).to_string();
        if off.is_panic() || cpi.is_panic() {
            rep.violate("helper-panic", "a resolution helper panicked", det(serde_json::json!(null)));
        }
        match (&off, &cpi) {
            (Res::Ok(a), Res::Ok((b, keys))) => {
                rep.count("both:ok");
                if a.iter().skip(sc.metas.len()).zip(sc.cfgs.iter()).any(|(m, c)| m.is_writable != (c.is_writable.0 != 0)) {
                    rep.count("deescalated");
                }
                if a.iter().enumerate().any(|(i, m)| a[..i].iter().any(|p| p.pubkey == m.pubkey)) {
                    rep.count("duplicate-key");
                }
                if prop == "C06" {
                    monitor_privileges(&mut rep, &sc, a, "off-chain");
                    monitor_privileges(&mut rep, &sc, b, "cpi");
                }
                if prop == "C08" {
                    if a != b {
                        rep.violate("paths-differ", "off-chain and CPI helpers appended different metas", det(serde_json::json!(null)));
                    }
                    if a.len() != sc.metas.len() + sc.cfgs.len() || a[..sc.metas.len()] != sc.metas[..] {
                        rep.violate("order-or-prefix", "not exactly one meta per stored config appended, or pre-existing metas changed", det(serde_json::json!(null)));
                    }
                    if keys.len() != b.len() || keys.iter().zip(b.iter()).any(|(k, m)| *k != m.pubkey) {
                        rep.violate("infos-not-lockstep", "the CPI account infos do not match the metas key by key", det(serde_json::json!(null)));
                    }
                }
            }
            (Res::Err(_), Res::Err(_)) => rep.count("both:err"),
            (Res::Ok(_), Res::Err(_)) | (Res::Err(_), Res::Ok(_)) => {
                if prop == "C08" {
                    rep.violate("one-path-fails", "one helper succeeded where the other failed", det(serde_json::json!(null)));
                }
            }
            _ => {}
        }
        if sc.pool.len() < sc.w.keys.len() + 1 {
            rep.count("pool-missing");
        }
        if prop == "C08" {
            // pool order must not matter
            let mut p2 = sc.pool.clone();
            // the same account passed more than once (identical copies) is still the same pool
            if rng.chance(1, 3) && !p2.is_empty() {
                for _ in 0..rng.range(1, 3) {
                    let j = rng.below(p2.len() as u64) as usize;
                    let dup = p2[j].clone();
                    p2.push(dup);
                }
                rep.count("pool:duplicate-infos");
            }
            p2.reverse();
            let i = rng.below(p2.len().max(1) as u64) as usize;
            let rot = i.min(p2.len().saturating_sub(1));
            p2.rotate_left(rot);
            let off2 = run_offchain(&sc, &p2);
            let cpi2 = run_cpi(&sc, &p2);
            if off2 != off || cpi2 != cpi {
                rep.violate("pool-order", "results depend on the order of the account-info pool", det(serde_json::json!({"reordered_offchain": format!("{:?}", off2), "reordered_cpi": format!("{:?}", cpi2)})));
            }
        }
        if to_coq {
            let nt = off.is_ok() && !sc.cfgs.is_empty();
            // (the config-level cases describe the canonical stored form only)
            if !with_tail {
            rep.case(format!("COffchain {} {} {} {} {} {}", e_extras(&sc.cfgs), emit::blob(&sc.w.ix), e_key(&sc.w.pid), e_metas(&sc.metas), e_pool_kd(&sc.pool), off.emit(|m| e_metas(m))), nt);
            rep.case(format!("CCpi {} {} {} {} {} {} {}", e_extras(&sc.cfgs), emit::blob(&sc.w.ix), e_key(&sc.w.pid), e_metas(&sc.metas), e_infos(&sc.initial), e_infos(&sc.pool),
                cpi.emit(|(m, ks)| format!("({}, {})", e_metas(m), emit::list(&ks.iter().map(e_key).collect::<Vec<_>>())))), nt);
            }
            // the same two runs, with the model reading the stored list from the raw account bytes
            if k % 2 == 0 {
                rep.case(format!("COffchainD {} {} {} {} {} {}", emit::blob(&sc.tlv), emit::blob(&sc.w.ix), e_key(&sc.w.pid), e_metas(&sc.metas), e_pool_kd(&sc.pool), off.emit(|m| e_metas(m))), nt);
            } else {
                rep.case(format!("CCpiD {} {} {} {} {} {} {}", emit::blob(&sc.tlv), emit::blob(&sc.w.ix), e_key(&sc.w.pid), e_metas(&sc.metas), e_infos(&sc.initial), e_infos(&sc.pool),
                    cpi.emit(|(m, ks)| format!("({}, {})", e_metas(m), emit::list(&ks.iter().map(e_key).collect::<Vec<_>>())))), nt);
            }
        } else {
            rep.monitor_case(k as u64, off.is_ok() && !sc.cfgs.is_empty());
        }
    }
    rep
}

// ------------------------------------------------------------ C07
pub fn run_c07(ctx: &Ctx) -> Report {
    let mut rep = Report::new("C07");
    rep.corr_module = "Resolution".into();
    rep.expect_classes(&["check:accepted", "check:rejected", "mut:key", "mut:flag", "mut:swap", "mut:drop", "mut:add", "short-list", "malformed-data", "scenario:any-reference", "accepted-list:>=256-accounts:ok", "accepted-list:refers-to-index-255:ok", "check:data-borrowed-by-caller"]);
    let mut rng = Rng::new(ctx.seed.wrapping_mul(227).wrapping_add(7));
    let n_coq = ctx.scale(350, 3500);
    let n_mon = ctx.scale(6000, 60000);
    for k in 0..(n_coq + n_mon) {
        let forward = k % 3 == 2;
        let (sc, fwd_accepted) = if forward { let (s, a) = gen_forward_scenario(&mut rng); (s, Some(a)) } else { (gen_scenario(&mut rng, true), None) };
        rep.count(if forward { "scenario:any-reference" } else { "scenario:resolved-off-chain" });
        let to_coq_sc = k < n_coq && pda_count(&sc.cfgs) <= 2 && sc.cfgs.len() + sc.metas.len() <= 14;
        // an accepted list: the instruction accounts after off-chain resolution
        let base: Vec<Acct> = match run_offchain(&sc, &sc.pool) {
            Res::Ok(ms) => ms.iter().map(|m| {
                let d = sc.pool.iter().find(|a| a.key == m.pubkey).map(|a| a.data.clone()).unwrap_or_default();
                Acct { key: m.pubkey, signer: m.is_signer, writable: m.is_writable, data: d }
            }).collect(),
            _ => sc.initial.clone(),
        };
        // note: resolved extras are de-escalated; the check compares with the *configured* flags, so restore them
        let n0 = sc.metas.len();
        let mut accepted = base.clone();
        for (j, a) in accepted.iter_mut().enumerate().skip(n0) {
            if let Some(c) = sc.cfgs.get(j - n0) {
                a.signer = c.is_signer.0 != 0;
                a.writable = c.is_writable.0 != 0;
            }
        }
        if let Some(a) = fwd_accepted {
            accepted = a;
        }
        let mut variants: Vec<(&str, Vec<Acct>)> = vec![("accepted", accepted.clone())];
        if !accepted.is_empty() {
            let i = if rng.chance(2, 3) && accepted.len() > n0 { rng.range(n0 as u64, accepted.len() as u64 - 1) as usize } else { rng.below(accepted.len() as u64) as usize };
            let mut v = accepted.clone();
            v[i].key = if rng.chance(1, 2) { *rng.pick(&sc.w.keys) } else { Pubkey::new_from_array(rng.bytes(32).try_into().unwrap()) };
            variants.push(("mut:key", v));
            let mut v = accepted.clone();
            if rng.chance(1, 2) { v[i].signer = !v[i].signer } else { v[i].writable = !v[i].writable }
            variants.push(("mut:flag", v));
            if accepted.len() >= 2 {
                let j = rng.below(accepted.len() as u64) as usize;
                let mut v = accepted.clone();
                v.swap(i, j);
                variants.push(("mut:swap", v));
            }
            let mut v = accepted.clone();
            v.remove(i);
            variants.push(("mut:drop", v));
            let mut v = accepted.clone();
            v.insert(rng.below(accepted.len() as u64 + 1) as usize, gen_acct(&mut rng, &sc.w));
            variants.push(("mut:add", v));
            // a data byte of an account some seed may depend on
            let mut v = accepted.clone();
            if !v[i].data.is_empty() {
                let p = rng.below(v[i].data.len() as u64) as usize;
                v[i].data[p] ^= 0x5a;
                variants.push(("mut:data", v));
            }
        }
        // fewer accounts than configs
        if !sc.cfgs.is_empty() {
            let keep = rng.below(sc.cfgs.len() as u64) as usize;
            variants.push(("short-list", accepted[..keep.min(accepted.len())].to_vec()));
        }
        if !accepted.is_empty() && !sc.cfgs.is_empty() && rng.chance(1, 6) {
            // an account whose data the caller still holds mutably: an error, never a panic
            let idx = rng.below(accepted.len() as u64) as usize;
            let r = run_check_borrowed(&accepted, &sc.w.ix, &sc.w.pid, &sc.tlv, idx);
            rep.count("check:data-borrowed-by-caller");
            rep.monitor_runs += 1;
            if !r.is_err() {
                rep.violate("check-borrowed-data", "with an account's data mutably borrowed by the caller the check must return an error (not panic, not accept)",
                    serde_json::json!({"borrowed_account_index": idx, "accounts": accepted.len(), "configs": sc.cfgs.iter().map(|e| emit::hex(bytemuck::bytes_of(e))).collect::<Vec<_>>(), "observed": format!("{:?}", r)}).to_string());
            }
        }
        for (name, accts) in variants {
            let got = run_check(&accts, &sc.w.ix, &sc.w.pid, &sc.tlv);
            rep.count(name);
            if name == "accepted" && accts.len() >= 256 {
                rep.count(if got.is_ok() { "accepted-list:>=256-accounts:ok" } else { "accepted-list:>=256-accounts:err" });
                let refs255 = sc.cfgs.iter().any(|c| { let b = bytemuck::bytes_of(c); (b[0] == 1 || b[0] >= 128) && b[1..33].windows(2).any(|w| (w[0] == 3 || w[0] == 4) && w[1] == 255) });
                if refs255 {
                    rep.count(if got.is_ok() { "accepted-list:refers-to-index-255:ok" } else { "accepted-list:refers-to-index-255:err" });
                }
            }
            rep.count(if got.is_ok() { "check:accepted" } else { "check:rejected" });
            // expected by the positional-triple rule, with the independent resolver
            let view: Vec<(Pubkey, Option<Vec<u8>>)> = accts.iter().map(|a| (a.key, Some(a.data.clone()))).collect();
            let want_ok = sc.cfgs.len() <= accts.len() && sc.cfgs.iter().enumerate().all(|(i, c)| {
                match oracle_resolve(c, &sc.w.ix, &sc.w.pid, &view) {
                    Some(m) => {
                        let a = &accts[accts.len() - sc.cfgs.len() + i];
                        a.key == m.pubkey && a.signer == m.is_signer && a.writable == m.is_writable
                    }
                    None => false,
                }
            });
            let det = || serde_json::json!({"variant": name, "configs": sc.cfgs.iter().map(|e| emit::hex(bytemuck::bytes_of(e))).collect::<Vec<_>>(),
                "instruction_data": emit::hex(&sc.w.ix), "program_id": sc.w.pid.to_string(),
                "accounts": accts.iter().map(|a| format!("{} s={} w={} data={}", a.key, a.signer, a.writable, emit::hex(&a.data))).collect::<Vec<_>>(),
                "observed": format!("{:?}", got), "expected_ok": want_ok}).to_string();
            match &got {
                Res::Panic(_) => rep.violate(&format!("check-panic:{}", name), "check_account_infos panicked", det()),
                Res::Ok(_) if !want_ok => rep.violate(&format!("check-accepts-wrong-list:{}", name), "validation accepted a list that does not match the stored configs", det()),
                Res::Err(_) if want_ok => rep.violate(&format!("check-rejects-right-list:{}", name), "validation rejected the prescribed trailing accounts", det()),
                _ => {}
            }
            if to_coq_sc && (name == "accepted" || rng.chance(1, 2)) {
                rep.case(format!("CCheck {} {} {} {} {}", e_extras(&sc.cfgs), emit::blob(&sc.w.ix), e_key(&sc.w.pid), e_infos(&accts), got.emit(|_| "tt".to_string())), got.is_ok() && !sc.cfgs.is_empty());
                if name != "mut:data" && name != "mut:add" {
                    rep.case(format!("CCheckD {} {} {} {} {}", emit::blob(&sc.tlv), emit::blob(&sc.w.ix), e_key(&sc.w.pid), e_infos(&accts), got.emit(|_| "tt".to_string())), got.is_ok() && !sc.cfgs.is_empty());
                }
            } else {
                rep.monitor_case(k as u64, got.is_ok() && !sc.cfgs.is_empty());
            }
        }
        // malformed stored data must be an error, not a panic
        if k % 5 == 0 {
            let mut bad = sc.tlv.clone();
            match rng.below(4) {
                0 => bad.truncate(rng.below(bad.len() as u64 + 1) as usize),
                1 => { if !bad.is_empty() { let i = rng.below(bad.len().min(20) as u64) as usize; bad[i] = rng.byte(); } }
                2 => { let l = rng.below(40) as usize; bad = rng.bytes(l); }
                _ => { if bad.len() >= 12 { bad[8..12].copy_from_slice(&0xffff_ffffu32.to_le_bytes()); } }
            }
            let got = run_check(&accepted, &sc.w.ix, &sc.w.pid, &bad);
            rep.count("malformed-data");
            if to_coq_sc {
                rep.case(format!("CCheckD {} {} {} {} {}", emit::blob(&bad), emit::blob(&sc.w.ix), e_key(&sc.w.pid), e_infos(&accepted), got.emit(|_| "tt".to_string())), false);
            }
            if got.is_panic() {
                rep.violate("check-panic:malformed-data", "check_account_infos panicked on malformed stored data",
                    serde_json::json!({"data": emit::hex(&bad), "observed": format!("{:?}", got)}).to_string());
            }
        }
    }
    rep
}

// ------------------------------------------------------------ C12
fn ml_init(buf: &mut [u8], t: usize, ms: &[ExtraAccountMeta]) -> Res<()> {
    catch(|| with_mtag!(t, T, ExtraAccountMetaList::init::<T>(buf, ms)))
}
fn ml_update(buf: &mut [u8], t: usize, ms: &[ExtraAccountMeta]) -> Res<()> {
    catch(|| with_mtag!(t, T, ExtraAccountMetaList::update::<T>(buf, ms)))
}
fn ml_reload(buf: &[u8], t: usize) -> Res<Vec<ExtraAccountMeta>> {
    catch(|| -> Result<Vec<ExtraAccountMeta>, ProgramError> {
        let st = TlvStateBorrowed::unpack(buf)?;
        let v = with_mtag!(t, T, ExtraAccountMetaList::unpack_with_tlv_state::<T>(&st))?;
        Ok(v.iter().cloned().collect())
    })
}
fn rand_extra(rng: &mut Rng) -> ExtraAccountMeta {
    let mut b = [0u8; 35];
    match rng.below(10) {
        0 => {} // all zero: the system program, read-only, not a signer
        1 => { b[0] = 1; b[1] = 3; b[2] = rng.below(4) as u8; } // a short-seed PDA config: zero from byte 3 on
        2 => { for x in b.iter_mut() { *x = 0xff; } }
        // one of three fixed addresses with independent flags: lists then name a key twice with different privileges
        3 => { let k = rng.range(1, 3) as u8; for x in b[1..33].iter_mut() { *x = k; } b[33] = *rng.pick(&[0u8, 1, 1, 2]); b[34] = *rng.pick(&[0u8, 1, 0, 255]); }
        _ => { for x in b.iter_mut() { *x = rng.byte(); } }
    }
    raw_extra(&b)
}
/// the entry is allocated first (zeroed: a list of no configs with room for k) and filled by a later update
fn ml_prealloc(buf: &mut [u8], t: usize, k: usize) -> Res<()> {
    catch(|| -> Result<(), ProgramError> {
        let mut st = spl_type_length_value::state::TlvStateMut::unpack(buf)?;
        with_mtag!(t, T, st.alloc::<T>(4 + 35 * k, false))?;
        Ok(())
    })
}

/// one instruction discriminator per const parameter: lets one account hold hundreds of lists
pub struct MTN<const N: u64>;
impl<const N: u64> SplDiscriminate for MTN<N> {
    const SPL_DISCRIMINATOR: ArrayDiscriminator = ArrayDiscriminator::new(N.to_le_bytes());
}
macro_rules! with_mtn {
    ($k:expr, $T:ident, $body:expr) => {
        match $k {
            0 => { type $T = MTN<{ 0x0500_0000_0000_0100 + 0 }>; $body }
            1 => { type $T = MTN<{ 0x0500_0000_0000_0100 + 1 }>; $body }
            2 => { type $T = MTN<{ 0x0500_0000_0000_0100 + 2 }>; $body }
            3 => { type $T = MTN<{ 0x0500_0000_0000_0100 + 3 }>; $body }
            4 => { type $T = MTN<{ 0x0500_0000_0000_0100 + 4 }>; $body }
            5 => { type $T = MTN<{ 0x0500_0000_0000_0100 + 5 }>; $body }
            6 => { type $T = MTN<{ 0x0500_0000_0000_0100 + 6 }>; $body }
            7 => { type $T = MTN<{ 0x0500_0000_0000_0100 + 7 }>; $body }
            8 => { type $T = MTN<{ 0x0500_0000_0000_0100 + 8 }>; $body }
            9 => { type $T = MTN<{ 0x0500_0000_0000_0100 + 9 }>; $body }
            10 => { type $T = MTN<{ 0x0500_0000_0000_0100 + 10 }>; $body }
            11 => { type $T = MTN<{ 0x0500_0000_0000_0100 + 11 }>; $body }
            12 => { type $T = MTN<{ 0x0500_0000_0000_0100 + 12 }>; $body }
            13 => { type $T = MTN<{ 0x0500_0000_0000_0100 + 13 }>; $body }
            14 => { type $T = MTN<{ 0x0500_0000_0000_0100 + 14 }>; $body }
            15 => { type $T = MTN<{ 0x0500_0000_0000_0100 + 15 }>; $body }
            16 => { type $T = MTN<{ 0x0500_0000_0000_0100 + 16 }>; $body }
            17 => { type $T = MTN<{ 0x0500_0000_0000_0100 + 17 }>; $body }
            18 => { type $T = MTN<{ 0x0500_0000_0000_0100 + 18 }>; $body }
            19 => { type $T = MTN<{ 0x0500_0000_0000_0100 + 19 }>; $body }
            20 => { type $T = MTN<{ 0x0500_0000_0000_0100 + 20 }>; $body }
            21 => { type $T = MTN<{ 0x0500_0000_0000_0100 + 21 }>; $body }
            22 => { type $T = MTN<{ 0x0500_0000_0000_0100 + 22 }>; $body }
            23 => { type $T = MTN<{ 0x0500_0000_0000_0100 + 23 }>; $body }
            24 => { type $T = MTN<{ 0x0500_0000_0000_0100 + 24 }>; $body }
            25 => { type $T = MTN<{ 0x0500_0000_0000_0100 + 25 }>; $body }
            26 => { type $T = MTN<{ 0x0500_0000_0000_0100 + 26 }>; $body }
            27 => { type $T = MTN<{ 0x0500_0000_0000_0100 + 27 }>; $body }
            28 => { type $T = MTN<{ 0x0500_0000_0000_0100 + 28 }>; $body }
            29 => { type $T = MTN<{ 0x0500_0000_0000_0100 + 29 }>; $body }
            30 => { type $T = MTN<{ 0x0500_0000_0000_0100 + 30 }>; $body }
            31 => { type $T = MTN<{ 0x0500_0000_0000_0100 + 31 }>; $body }
            32 => { type $T = MTN<{ 0x0500_0000_0000_0100 + 32 }>; $body }
            33 => { type $T = MTN<{ 0x0500_0000_0000_0100 + 33 }>; $body }
            34 => { type $T = MTN<{ 0x0500_0000_0000_0100 + 34 }>; $body }
            35 => { type $T = MTN<{ 0x0500_0000_0000_0100 + 35 }>; $body }
            36 => { type $T = MTN<{ 0x0500_0000_0000_0100 + 36 }>; $body }
            37 => { type $T = MTN<{ 0x0500_0000_0000_0100 + 37 }>; $body }
            38 => { type $T = MTN<{ 0x0500_0000_0000_0100 + 38 }>; $body }
            39 => { type $T = MTN<{ 0x0500_0000_0000_0100 + 39 }>; $body }
            40 => { type $T = MTN<{ 0x0500_0000_0000_0100 + 40 }>; $body }
            41 => { type $T = MTN<{ 0x0500_0000_0000_0100 + 41 }>; $body }
            42 => { type $T = MTN<{ 0x0500_0000_0000_0100 + 42 }>; $body }
            43 => { type $T = MTN<{ 0x0500_0000_0000_0100 + 43 }>; $body }
            44 => { type $T = MTN<{ 0x0500_0000_0000_0100 + 44 }>; $body }
            45 => { type $T = MTN<{ 0x0500_0000_0000_0100 + 45 }>; $body }
            46 => { type $T = MTN<{ 0x0500_0000_0000_0100 + 46 }>; $body }
            47 => { type $T = MTN<{ 0x0500_0000_0000_0100 + 47 }>; $body }
            48 => { type $T = MTN<{ 0x0500_0000_0000_0100 + 48 }>; $body }
            49 => { type $T = MTN<{ 0x0500_0000_0000_0100 + 49 }>; $body }
            50 => { type $T = MTN<{ 0x0500_0000_0000_0100 + 50 }>; $body }
            51 => { type $T = MTN<{ 0x0500_0000_0000_0100 + 51 }>; $body }
            52 => { type $T = MTN<{ 0x0500_0000_0000_0100 + 52 }>; $body }
            53 => { type $T = MTN<{ 0x0500_0000_0000_0100 + 53 }>; $body }
            54 => { type $T = MTN<{ 0x0500_0000_0000_0100 + 54 }>; $body }
            55 => { type $T = MTN<{ 0x0500_0000_0000_0100 + 55 }>; $body }
            56 => { type $T = MTN<{ 0x0500_0000_0000_0100 + 56 }>; $body }
            57 => { type $T = MTN<{ 0x0500_0000_0000_0100 + 57 }>; $body }
            58 => { type $T = MTN<{ 0x0500_0000_0000_0100 + 58 }>; $body }
            59 => { type $T = MTN<{ 0x0500_0000_0000_0100 + 59 }>; $body }
            60 => { type $T = MTN<{ 0x0500_0000_0000_0100 + 60 }>; $body }
            61 => { type $T = MTN<{ 0x0500_0000_0000_0100 + 61 }>; $body }
            62 => { type $T = MTN<{ 0x0500_0000_0000_0100 + 62 }>; $body }
            63 => { type $T = MTN<{ 0x0500_0000_0000_0100 + 63 }>; $body }
            64 => { type $T = MTN<{ 0x0500_0000_0000_0100 + 64 }>; $body }
            65 => { type $T = MTN<{ 0x0500_0000_0000_0100 + 65 }>; $body }
            66 => { type $T = MTN<{ 0x0500_0000_0000_0100 + 66 }>; $body }
            67 => { type $T = MTN<{ 0x0500_0000_0000_0100 + 67 }>; $body }
            68 => { type $T = MTN<{ 0x0500_0000_0000_0100 + 68 }>; $body }
            69 => { type $T = MTN<{ 0x0500_0000_0000_0100 + 69 }>; $body }
            70 => { type $T = MTN<{ 0x0500_0000_0000_0100 + 70 }>; $body }
            71 => { type $T = MTN<{ 0x0500_0000_0000_0100 + 71 }>; $body }
            72 => { type $T = MTN<{ 0x0500_0000_0000_0100 + 72 }>; $body }
            73 => { type $T = MTN<{ 0x0500_0000_0000_0100 + 73 }>; $body }
            74 => { type $T = MTN<{ 0x0500_0000_0000_0100 + 74 }>; $body }
            75 => { type $T = MTN<{ 0x0500_0000_0000_0100 + 75 }>; $body }
            76 => { type $T = MTN<{ 0x0500_0000_0000_0100 + 76 }>; $body }
            77 => { type $T = MTN<{ 0x0500_0000_0000_0100 + 77 }>; $body }
            78 => { type $T = MTN<{ 0x0500_0000_0000_0100 + 78 }>; $body }
            79 => { type $T = MTN<{ 0x0500_0000_0000_0100 + 79 }>; $body }
            80 => { type $T = MTN<{ 0x0500_0000_0000_0100 + 80 }>; $body }
            81 => { type $T = MTN<{ 0x0500_0000_0000_0100 + 81 }>; $body }
            82 => { type $T = MTN<{ 0x0500_0000_0000_0100 + 82 }>; $body }
            83 => { type $T = MTN<{ 0x0500_0000_0000_0100 + 83 }>; $body }
            84 => { type $T = MTN<{ 0x0500_0000_0000_0100 + 84 }>; $body }
            85 => { type $T = MTN<{ 0x0500_0000_0000_0100 + 85 }>; $body }
            86 => { type $T = MTN<{ 0x0500_0000_0000_0100 + 86 }>; $body }
            87 => { type $T = MTN<{ 0x0500_0000_0000_0100 + 87 }>; $body }
            88 => { type $T = MTN<{ 0x0500_0000_0000_0100 + 88 }>; $body }
            89 => { type $T = MTN<{ 0x0500_0000_0000_0100 + 89 }>; $body }
            90 => { type $T = MTN<{ 0x0500_0000_0000_0100 + 90 }>; $body }
            91 => { type $T = MTN<{ 0x0500_0000_0000_0100 + 91 }>; $body }
            92 => { type $T = MTN<{ 0x0500_0000_0000_0100 + 92 }>; $body }
            93 => { type $T = MTN<{ 0x0500_0000_0000_0100 + 93 }>; $body }
            94 => { type $T = MTN<{ 0x0500_0000_0000_0100 + 94 }>; $body }
            95 => { type $T = MTN<{ 0x0500_0000_0000_0100 + 95 }>; $body }
            96 => { type $T = MTN<{ 0x0500_0000_0000_0100 + 96 }>; $body }
            97 => { type $T = MTN<{ 0x0500_0000_0000_0100 + 97 }>; $body }
            98 => { type $T = MTN<{ 0x0500_0000_0000_0100 + 98 }>; $body }
            99 => { type $T = MTN<{ 0x0500_0000_0000_0100 + 99 }>; $body }
            100 => { type $T = MTN<{ 0x0500_0000_0000_0100 + 100 }>; $body }
            101 => { type $T = MTN<{ 0x0500_0000_0000_0100 + 101 }>; $body }
            102 => { type $T = MTN<{ 0x0500_0000_0000_0100 + 102 }>; $body }
            103 => { type $T = MTN<{ 0x0500_0000_0000_0100 + 103 }>; $body }
            104 => { type $T = MTN<{ 0x0500_0000_0000_0100 + 104 }>; $body }
            105 => { type $T = MTN<{ 0x0500_0000_0000_0100 + 105 }>; $body }
            106 => { type $T = MTN<{ 0x0500_0000_0000_0100 + 106 }>; $body }
            107 => { type $T = MTN<{ 0x0500_0000_0000_0100 + 107 }>; $body }
            108 => { type $T = MTN<{ 0x0500_0000_0000_0100 + 108 }>; $body }
            109 => { type $T = MTN<{ 0x0500_0000_0000_0100 + 109 }>; $body }
            110 => { type $T = MTN<{ 0x0500_0000_0000_0100 + 110 }>; $body }
            111 => { type $T = MTN<{ 0x0500_0000_0000_0100 + 111 }>; $body }
            112 => { type $T = MTN<{ 0x0500_0000_0000_0100 + 112 }>; $body }
            113 => { type $T = MTN<{ 0x0500_0000_0000_0100 + 113 }>; $body }
            114 => { type $T = MTN<{ 0x0500_0000_0000_0100 + 114 }>; $body }
            115 => { type $T = MTN<{ 0x0500_0000_0000_0100 + 115 }>; $body }
            116 => { type $T = MTN<{ 0x0500_0000_0000_0100 + 116 }>; $body }
            117 => { type $T = MTN<{ 0x0500_0000_0000_0100 + 117 }>; $body }
            118 => { type $T = MTN<{ 0x0500_0000_0000_0100 + 118 }>; $body }
            119 => { type $T = MTN<{ 0x0500_0000_0000_0100 + 119 }>; $body }
            120 => { type $T = MTN<{ 0x0500_0000_0000_0100 + 120 }>; $body }
            121 => { type $T = MTN<{ 0x0500_0000_0000_0100 + 121 }>; $body }
            122 => { type $T = MTN<{ 0x0500_0000_0000_0100 + 122 }>; $body }
            123 => { type $T = MTN<{ 0x0500_0000_0000_0100 + 123 }>; $body }
            124 => { type $T = MTN<{ 0x0500_0000_0000_0100 + 124 }>; $body }
            125 => { type $T = MTN<{ 0x0500_0000_0000_0100 + 125 }>; $body }
            126 => { type $T = MTN<{ 0x0500_0000_0000_0100 + 126 }>; $body }
            127 => { type $T = MTN<{ 0x0500_0000_0000_0100 + 127 }>; $body }
            128 => { type $T = MTN<{ 0x0500_0000_0000_0100 + 128 }>; $body }
            129 => { type $T = MTN<{ 0x0500_0000_0000_0100 + 129 }>; $body }
            130 => { type $T = MTN<{ 0x0500_0000_0000_0100 + 130 }>; $body }
            131 => { type $T = MTN<{ 0x0500_0000_0000_0100 + 131 }>; $body }
            132 => { type $T = MTN<{ 0x0500_0000_0000_0100 + 132 }>; $body }
            133 => { type $T = MTN<{ 0x0500_0000_0000_0100 + 133 }>; $body }
            134 => { type $T = MTN<{ 0x0500_0000_0000_0100 + 134 }>; $body }
            135 => { type $T = MTN<{ 0x0500_0000_0000_0100 + 135 }>; $body }
            136 => { type $T = MTN<{ 0x0500_0000_0000_0100 + 136 }>; $body }
            137 => { type $T = MTN<{ 0x0500_0000_0000_0100 + 137 }>; $body }
            138 => { type $T = MTN<{ 0x0500_0000_0000_0100 + 138 }>; $body }
            139 => { type $T = MTN<{ 0x0500_0000_0000_0100 + 139 }>; $body }
            140 => { type $T = MTN<{ 0x0500_0000_0000_0100 + 140 }>; $body }
            141 => { type $T = MTN<{ 0x0500_0000_0000_0100 + 141 }>; $body }
            142 => { type $T = MTN<{ 0x0500_0000_0000_0100 + 142 }>; $body }
            143 => { type $T = MTN<{ 0x0500_0000_0000_0100 + 143 }>; $body }
            144 => { type $T = MTN<{ 0x0500_0000_0000_0100 + 144 }>; $body }
            145 => { type $T = MTN<{ 0x0500_0000_0000_0100 + 145 }>; $body }
            146 => { type $T = MTN<{ 0x0500_0000_0000_0100 + 146 }>; $body }
            147 => { type $T = MTN<{ 0x0500_0000_0000_0100 + 147 }>; $body }
            148 => { type $T = MTN<{ 0x0500_0000_0000_0100 + 148 }>; $body }
            149 => { type $T = MTN<{ 0x0500_0000_0000_0100 + 149 }>; $body }
            150 => { type $T = MTN<{ 0x0500_0000_0000_0100 + 150 }>; $body }
            151 => { type $T = MTN<{ 0x0500_0000_0000_0100 + 151 }>; $body }
            152 => { type $T = MTN<{ 0x0500_0000_0000_0100 + 152 }>; $body }
            153 => { type $T = MTN<{ 0x0500_0000_0000_0100 + 153 }>; $body }
            154 => { type $T = MTN<{ 0x0500_0000_0000_0100 + 154 }>; $body }
            155 => { type $T = MTN<{ 0x0500_0000_0000_0100 + 155 }>; $body }
            156 => { type $T = MTN<{ 0x0500_0000_0000_0100 + 156 }>; $body }
            157 => { type $T = MTN<{ 0x0500_0000_0000_0100 + 157 }>; $body }
            158 => { type $T = MTN<{ 0x0500_0000_0000_0100 + 158 }>; $body }
            159 => { type $T = MTN<{ 0x0500_0000_0000_0100 + 159 }>; $body }
            160 => { type $T = MTN<{ 0x0500_0000_0000_0100 + 160 }>; $body }
            161 => { type $T = MTN<{ 0x0500_0000_0000_0100 + 161 }>; $body }
            162 => { type $T = MTN<{ 0x0500_0000_0000_0100 + 162 }>; $body }
            163 => { type $T = MTN<{ 0x0500_0000_0000_0100 + 163 }>; $body }
            164 => { type $T = MTN<{ 0x0500_0000_0000_0100 + 164 }>; $body }
            165 => { type $T = MTN<{ 0x0500_0000_0000_0100 + 165 }>; $body }
            166 => { type $T = MTN<{ 0x0500_0000_0000_0100 + 166 }>; $body }
            167 => { type $T = MTN<{ 0x0500_0000_0000_0100 + 167 }>; $body }
            168 => { type $T = MTN<{ 0x0500_0000_0000_0100 + 168 }>; $body }
            169 => { type $T = MTN<{ 0x0500_0000_0000_0100 + 169 }>; $body }
            170 => { type $T = MTN<{ 0x0500_0000_0000_0100 + 170 }>; $body }
            171 => { type $T = MTN<{ 0x0500_0000_0000_0100 + 171 }>; $body }
            172 => { type $T = MTN<{ 0x0500_0000_0000_0100 + 172 }>; $body }
            173 => { type $T = MTN<{ 0x0500_0000_0000_0100 + 173 }>; $body }
            174 => { type $T = MTN<{ 0x0500_0000_0000_0100 + 174 }>; $body }
            175 => { type $T = MTN<{ 0x0500_0000_0000_0100 + 175 }>; $body }
            176 => { type $T = MTN<{ 0x0500_0000_0000_0100 + 176 }>; $body }
            177 => { type $T = MTN<{ 0x0500_0000_0000_0100 + 177 }>; $body }
            178 => { type $T = MTN<{ 0x0500_0000_0000_0100 + 178 }>; $body }
            179 => { type $T = MTN<{ 0x0500_0000_0000_0100 + 179 }>; $body }
            180 => { type $T = MTN<{ 0x0500_0000_0000_0100 + 180 }>; $body }
            181 => { type $T = MTN<{ 0x0500_0000_0000_0100 + 181 }>; $body }
            182 => { type $T = MTN<{ 0x0500_0000_0000_0100 + 182 }>; $body }
            183 => { type $T = MTN<{ 0x0500_0000_0000_0100 + 183 }>; $body }
            184 => { type $T = MTN<{ 0x0500_0000_0000_0100 + 184 }>; $body }
            185 => { type $T = MTN<{ 0x0500_0000_0000_0100 + 185 }>; $body }
            186 => { type $T = MTN<{ 0x0500_0000_0000_0100 + 186 }>; $body }
            187 => { type $T = MTN<{ 0x0500_0000_0000_0100 + 187 }>; $body }
            188 => { type $T = MTN<{ 0x0500_0000_0000_0100 + 188 }>; $body }
            189 => { type $T = MTN<{ 0x0500_0000_0000_0100 + 189 }>; $body }
            190 => { type $T = MTN<{ 0x0500_0000_0000_0100 + 190 }>; $body }
            191 => { type $T = MTN<{ 0x0500_0000_0000_0100 + 191 }>; $body }
            192 => { type $T = MTN<{ 0x0500_0000_0000_0100 + 192 }>; $body }
            193 => { type $T = MTN<{ 0x0500_0000_0000_0100 + 193 }>; $body }
            194 => { type $T = MTN<{ 0x0500_0000_0000_0100 + 194 }>; $body }
            195 => { type $T = MTN<{ 0x0500_0000_0000_0100 + 195 }>; $body }
            196 => { type $T = MTN<{ 0x0500_0000_0000_0100 + 196 }>; $body }
            197 => { type $T = MTN<{ 0x0500_0000_0000_0100 + 197 }>; $body }
            198 => { type $T = MTN<{ 0x0500_0000_0000_0100 + 198 }>; $body }
            199 => { type $T = MTN<{ 0x0500_0000_0000_0100 + 199 }>; $body }
            _ => unreachable!(),
        }
    };
}
/// an instruction type that (legally) overrides `SPL_DISCRIMINATOR_SLICE`: its list is still
/// stored under `SPL_DISCRIMINATOR`
pub struct MTOdd;
impl SplDiscriminate for MTOdd {
    const SPL_DISCRIMINATOR: ArrayDiscriminator = ArrayDiscriminator::new([0x55, 1, 2, 3, 4, 5, 6, 0x55]);
    const SPL_DISCRIMINATOR_SLICE: &'static [u8] = &[0x77, 0x76, 0x75, 0x74, 0x73, 0x72, 0x71, 0x70];
}
fn mtn_init(buf: &mut [u8], k: usize, ms: &[ExtraAccountMeta]) -> Res<()> {
    catch(|| with_mtn!(k, T, ExtraAccountMetaList::init::<T>(buf, ms)))
}
fn mtn_update(buf: &mut [u8], k: usize, ms: &[ExtraAccountMeta]) -> Res<()> {
    catch(|| with_mtn!(k, T, ExtraAccountMetaList::update::<T>(buf, ms)))
}
fn mtn_reload(buf: &[u8], k: usize) -> Res<Vec<ExtraAccountMeta>> {
    catch(|| -> Result<Vec<ExtraAccountMeta>, ProgramError> {
        let st = TlvStateBorrowed::unpack(buf)?;
        let v = with_mtn!(k, T, ExtraAccountMetaList::unpack_with_tlv_state::<T>(&st))?;
        Ok(v.iter().cloned().collect())
    })
}
/// more than 128 / 160 / 200 instructions' lists in one account of exactly the advertised total size
fn many_instructions_scenario(rep: &mut Report, rng: &mut Rng, to_coq: bool) {
    let count = if to_coq { *rng.pick(&[129usize, 136]) } else { *rng.pick(&[129usize, 136, 160, 200]) };
    let mut items: Vec<String> = Vec::new();
    let lists: Vec<Vec<ExtraAccountMeta>> = (0..count).map(|_| (0..rng.below(3)).map(|_| rand_extra(rng)).collect()).collect();
    let total: usize = lists.iter().map(|l| ExtraAccountMetaList::size_of(l.len()).unwrap()).sum();
    let mut buf = vec![0u8; total];
    rep.count("instructions:>128-in-one-account");
    let mut order: Vec<usize> = (0..count).collect();
    if rng.chance(1, 2) {
        for i in (1..count).rev() { let j = rng.below(i as u64 + 1) as usize; order.swap(i, j); }
    }
    let check = |rep: &mut Report, buf: &[u8], lists: &[Vec<ExtraAccountMeta>], present: &dyn Fn(usize) -> bool, stage: &str| {
        for k in 0..count {
            let g = mtn_reload(buf, k);
            rep.monitor_runs += 1;
            let ok = match (&g, present(k)) { (Res::Ok(v), true) => *v == lists[k], (Res::Err(_), false) => true, _ => false };
            if !ok {
                rep.violate("reload-mismatch", "with more than 128 instructions' lists in one account, a stored list does not read back exactly (or a missing one read)",
                    serde_json::json!({"stage": stage, "instructions": count, "instruction_index": k, "observed": format!("{:?}", g.clone().map(|v| v.len())), "expected_len": if present(k) { Some(lists[k].len()) } else { None }}).to_string());
                return;
            }
        }
    };
    for (pos, &k) in order.iter().enumerate() {
        let r = mtn_init(&mut buf, k, &lists[k]);
        if to_coq {
            items.push(format!("MInit {} {} {} {}", 1000 + k, e_extras(&lists[k]), r.emit(|_| "tt".into()), cksum(&buf)));
        }
        if r != Res::Ok(()) {
            rep.violate("init-result", "init must succeed while the account has room for the list (many instructions in one account)",
                serde_json::json!({"instructions": count, "position": pos, "observed": format!("{:?}", r)}).to_string());
            return;
        }
        if pos == 127 || pos == 128 || pos == 129 {
            let done: std::collections::HashSet<usize> = order[..=pos].iter().copied().collect();
            check(rep, &buf, &lists, &|k| done.contains(&k), "during");
        }
    }
    check(rep, &buf, &lists, &|_| true, "all-initialised");
    if to_coq {
        // the model runs the same inits on the same zeroed account and reads every list back
        for k in (0..count).filter(|k| k % 9 == 0 || *k >= count - 2) {
            items.push(format!("MReload {} {}", 1000 + k, mtn_reload(&buf, k).emit(|v| e_extras(v))));
        }
        items.push(format!("MInit 0 [] {} {}", { let mut b2 = buf.clone(); catch(|| ExtraAccountMetaList::init::<MT0>(&mut b2, &[])).emit(|_| "tt".into()) }, cksum(&buf)));
        rep.case(format!("CMl {} [\n  {}\n ] {}", emit::blob(&vec![0u8; total]), items.join(";\n  "), emit::blob(&buf)), true);
    }
    // the account is exactly full: one more instruction's list does not fit and changes nothing
    let before = buf.clone();
    let r = catch(|| ExtraAccountMetaList::init::<MT0>(&mut buf, &[]));
    if !r.is_err() || buf != before {
        rep.violate("init-result", "init into an exactly full account must fail and change nothing", serde_json::json!({"instructions": count, "observed": format!("{:?}", r)}).to_string());
    }
    // same-size update of one list in the middle: the others keep their contents
    let k = order[rng.below(count as u64) as usize];
    let mut lists2 = lists.clone();
    lists2[k] = (0..lists[k].len()).map(|_| rand_extra(rng)).collect();
    let r = mtn_update(&mut buf, k, &lists2[k]);
    if r != Res::Ok(()) {
        rep.violate("update-result", "a same-size update must succeed (many instructions in one account)", serde_json::json!({"instructions": count, "observed": format!("{:?}", r)}).to_string());
        return;
    }
    check(rep, &buf, &lists2, &|_| true, "after-update");
    // shrink one list to empty: everything else still reads back
    let k2 = order[rng.below(count as u64) as usize];
    lists2[k2] = vec![];
    let r = mtn_update(&mut buf, k2, &[]);
    if r != Res::Ok(()) {
        rep.violate("update-result", "an update to a shorter list must succeed (many instructions in one account)", serde_json::json!({"instructions": count, "observed": format!("{:?}", r)}).to_string());
        return;
    }
    check(rep, &buf, &lists2, &|_| true, "after-shrink");
}
/// a list stored for an instruction type that overrides SPL_DISCRIMINATOR_SLICE
fn odd_slice_list_scenario(rep: &mut Report, rng: &mut Rng) {
    let ms: Vec<ExtraAccountMeta> = (0..rng.below(4)).map(|_| rand_extra(rng)).collect();
    let ms2: Vec<ExtraAccountMeta> = (0..rng.below(4)).map(|_| rand_extra(rng)).collect();
    let other: Vec<ExtraAccountMeta> = (0..rng.below(3)).map(|_| rand_extra(rng)).collect();
    let sz = 16 + 35 * ms.len().max(ms2.len()) + 16 + 35 * other.len();
    let mut buf = vec![0u8; sz];
    rep.count("instruction:overridden-slice-constant");
    rep.monitor_runs += 1;
    let first_other = rng.chance(1, 2);
    let r = catch(|| -> Result<(Vec<ExtraAccountMeta>, Vec<ExtraAccountMeta>, Vec<ExtraAccountMeta>), ProgramError> {
        if first_other { ExtraAccountMetaList::init::<MT2>(&mut buf, &other)?; }
        ExtraAccountMetaList::init::<MTOdd>(&mut buf, &ms)?;
        if !first_other { ExtraAccountMetaList::init::<MT2>(&mut buf, &other)?; }
        let a: Vec<ExtraAccountMeta> = { let st = TlvStateBorrowed::unpack(&buf)?; ExtraAccountMetaList::unpack_with_tlv_state::<MTOdd>(&st)?.iter().cloned().collect() };
        ExtraAccountMetaList::update::<MTOdd>(&mut buf, &ms2)?;
        let st = TlvStateBorrowed::unpack(&buf)?;
        let b: Vec<ExtraAccountMeta> = ExtraAccountMetaList::unpack_with_tlv_state::<MTOdd>(&st)?.iter().cloned().collect();
        let c: Vec<ExtraAccountMeta> = ExtraAccountMetaList::unpack_with_tlv_state::<MT2>(&st)?.iter().cloned().collect();
        Ok((a, b, c))
    });
    let tag_at = |off: usize| buf.get(off..off + 8).map(|x| x.to_vec());
    let odd_off = if first_other { 16 + 35 * other.len() } else { 0 };
    let ok = r == Res::Ok((ms.clone(), ms2.clone(), other.clone())) && tag_at(odd_off) == Some(vec![0x55, 1, 2, 3, 4, 5, 6, 0x55]);
    if !ok {
        rep.violate("override-slice-constant", "a list stored for an instruction type that overrides SPL_DISCRIMINATOR_SLICE must live under SPL_DISCRIMINATOR and read back after init and update",
            serde_json::json!({"observed": format!("{:?}", r.map(|(a, b, c)| (a.len(), b.len(), c.len()))), "type_field": tag_at(odd_off).map(|x| emit::hex(&x)), "bytes": emit::hex(&buf[..buf.len().min(64)])}).to_string());
    }
}

pub fn run_c12(ctx: &Ctx) -> Report {
    let mut rep = Report::new("C12");
    rep.corr_module = "Resolution".into();
    rep.expect_classes(&["init:ok", "init:err", "update:ok", "update:err", "reload:ok", "reload:err", "exact-size", "one-byte-less", "malformed", "prealloc:ok", "lists:>=255-configs", "instructions:>128-in-one-account", "instruction:overridden-slice-constant"]);
    let mut rng = Rng::new(ctx.seed.wrapping_mul(229).wrapping_add(12));
    // exact size: succeeds; one byte less fails
    for n in (0..=8usize).chain([255usize, 256, 257, 300, 1880].into_iter()) {
        let ms: Vec<ExtraAccountMeta> = (0..n).map(|_| rand_extra(&mut rng)).collect();
        let sz = ExtraAccountMetaList::size_of(n).unwrap();
        rep.case(format!("CSizeOf {} (ROk {})", n, sz), true);
        if sz != 12 + 4 + 35 * n {
            rep.violate("size-formula", "advertised size is not 12 + 4 + 35 n", serde_json::json!({"n": n, "size": sz}).to_string());
        }
        let mut buf = vec![0u8; sz];
        let r = ml_init(&mut buf, 0, &ms);
        rep.count("exact-size");
        if r != Res::Ok(()) || ml_reload(&buf, 0) != Res::Ok(ms.clone()) {
            rep.violate("exact-size", "initialising in a buffer of the advertised size must succeed and read back the same configs", serde_json::json!({"n": n}).to_string());
        }
        let mut small = vec![0u8; sz - 1];
        let r2 = ml_init(&mut small, 0, &ms);
        rep.count("one-byte-less");
        if !r2.is_err() || small.iter().any(|&x| x != 0) {
            rep.violate("one-byte-less", "one byte less than the advertised size must fail (and leave the buffer untouched)", serde_json::json!({"n": n, "observed": format!("{:?}", r2)}).to_string());
        }
    }
    for i in 0..ctx.scale(6, 40) {
        many_instructions_scenario(&mut rep, &mut rng, i < ctx.scale(1, 6));
    }
    for _ in 0..ctx.scale(40, 400) {
        odd_slice_list_scenario(&mut rep, &mut rng);
    }
    let n_coq = ctx.scale(500, 6000);
    let n_mon = ctx.scale(8000, 100_000);
    for k in 0..(n_coq + n_mon) {
        let to_coq = k < n_coq;
        let ntags = rng.range(1, 4) as usize;
        // plan list lengths, then a buffer around the total advertised size
        let big = !to_coq && k % 50 == 0; // list lengths across the u8 limit (monitor only)
        if big {
            rep.count("lists:>=255-configs");
        }
        let lens: Vec<usize> = (0..ntags).map(|_| if big { *rng.pick(&[254usize, 255, 256, 257, 300]) } else { rng.below(7) as usize }).collect();
        let total: usize = lens.iter().map(|l| 16 + 35 * l).sum();
        let n = match rng.below(6) { 0 => total.saturating_sub(1), 1 => total, 2 => total + 1, 3 => total + 40, 4 => rng.below(total as u64 + 1) as usize, _ => total + rng.below(80) as usize };
        let mut buf = vec![0u8; n];
        let init_bytes = buf.clone();
        let mut oracle: Vec<(usize, Vec<ExtraAccountMeta>)> = Vec::new();
        // value length of entries that were pre-allocated with more room than their list needs
        let mut roomy: std::collections::HashMap<usize, usize> = std::collections::HashMap::new();
        let mut coq_ok = true;
        let mut items: Vec<String> = Vec::new();
        let nops = rng.range(1, 9) as usize;
        let mut successes = 0;
        for _ in 0..nops {
            let extra_tag = if rng.chance(1, 6) { 1 } else { 0 };
            let t = rng.below(ntags as u64 + extra_tag) as usize % 4;
            let before = buf.clone();
            let used: usize = oracle.iter().map(|(x, v)| 12 + roomy.get(x).copied().unwrap_or(4 + 35 * v.len())).sum();
            match rng.below(5) {
                4 if !big && rng.chance(1, 2) => {
                    // pre-allocation through the TLV API, outside init/update
                    let kk = rng.below(4) as usize;
                    let r = ml_prealloc(&mut buf, t, kk);
                    let want_ok = !oracle.iter().any(|(x, _)| *x == t) && used + 16 + 35 * kk <= n;
                    rep.count(if r.is_ok() { "prealloc:ok" } else { "prealloc:err" });
                    if r.is_ok() != want_ok || r.is_panic() || (r.is_err() && buf != before) {
                        rep.violate("prealloc-result", "allocating a list entry directly must succeed iff the instruction has no entry yet and it fits (and change nothing otherwise)",
                            serde_json::json!({"tag": t, "room_for": kk, "buffer_len": n, "observed": format!("{:?}", r)}).to_string());
                    }
                    if r.is_ok() {
                        oracle.push((t, vec![]));
                        roomy.insert(t, 4 + 35 * kk);
                    }
                    coq_ok = false;
                }
                0 | 1 => {
                    let l = if rng.chance(1, 4) { ((n.saturating_sub(used + 16)) / 35).min(8) + rng.below(2) as usize } else { lens.get(t).copied().unwrap_or(2) };
                    let ms: Vec<ExtraAccountMeta> = (0..l).map(|_| rand_extra(&mut rng)).collect();
                    let r = ml_init(&mut buf, t, &ms);
                    rep.count(if r.is_ok() { "init:ok" } else { "init:err" });
                    let want_ok = !oracle.iter().any(|(x, _)| *x == t) && used + 16 + 35 * l <= n;
                    let det = || serde_json::json!({"op": "init", "tag": t, "list_len": l, "buffer_len": n, "lists_before": oracle.iter().map(|(x, v)| (x, v.len())).collect::<Vec<_>>(), "observed": format!("{:?}", r)}).to_string();
                    if r.is_panic() {
                        rep.violate("ml-panic", "init panicked", det());
                    } else if r.is_ok() != want_ok {
                        rep.violate("init-result", "init must succeed iff the instruction has no list yet and the list fits", det());
                    }
                    if r.is_err() && buf != before {
                        rep.violate("failed-init-changed-bytes", "a failed init changed the account bytes", det());
                    }
                    if r.is_ok() {
                        oracle.push((t, ms.clone()));
                        successes += 1;
                    }
                    if to_coq {
                        items.push(format!("MInit {} {} {} {}", t, e_extras(&ms), r.emit(|_| "tt".into()), cksum(&buf)));
                    }
                }
                2 | 3 => {
                    let cur = oracle.iter().find(|(x, _)| *x == t).map(|(_, v)| v.len()).unwrap_or(0);
                    let cur_vlen = roomy.get(&t).copied().unwrap_or(4 + 35 * cur);
                    let l = match rng.below(6) { 0 => cur, 1 => cur + 1, 2 => cur.saturating_sub(1), 3 => 0, 4 => (cur_vlen - 4) / 35, _ => rng.below(8) as usize };
                    let ms: Vec<ExtraAccountMeta> = (0..l).map(|_| rand_extra(&mut rng)).collect();
                    let r = ml_update(&mut buf, t, &ms);
                    rep.count(if r.is_ok() { "update:ok" } else { "update:err" });
                    let exists = oracle.iter().any(|(x, _)| *x == t);
                    let want_ok = exists && used - (12 + cur_vlen) + 16 + 35 * l <= n;
                    let det = || serde_json::json!({"op": "update", "tag": t, "list_len": l, "buffer_len": n, "lists_before": oracle.iter().map(|(x, v)| (x, v.len())).collect::<Vec<_>>(), "observed": format!("{:?}", r)}).to_string();
                    if r.is_panic() {
                        rep.violate("ml-panic", "update panicked", det());
                    } else if r.is_ok() != want_ok {
                        rep.violate("update-result", "update must succeed iff the list exists and the new list fits", det());
                    }
                    if r.is_err() && buf != before {
                        rep.violate("failed-update-changed-bytes", "a failed update changed the account bytes", det());
                    }
                    if r.is_ok() {
                        for (x, v) in oracle.iter_mut() {
                            if *x == t {
                                *v = ms.clone();
                            }
                        }
                        roomy.remove(&t);
                        successes += 1;
                    }
                    if to_coq {
                        items.push(format!("MUpdate {} {} {} {}", t, e_extras(&ms), r.emit(|_| "tt".into()), cksum(&buf)));
                    }
                }
                _ => {}
            }
            // every list reads back exactly; others untouched; absent ones fail
            for tt in 0..4usize {
                let g = ml_reload(&buf, tt);
                rep.count(if g.is_ok() { "reload:ok" } else { "reload:err" });
                let want = oracle.iter().find(|(x, _)| *x == tt).map(|(_, v)| v.clone());
                let ok = match (&g, &want) {
                    (Res::Ok(v), Some(w)) => v == w,
                    (Res::Err(_), None) => true,
                    _ => false,
                };
                if !ok {
                    rep.violate("reload-mismatch", "a stored list does not read back exactly (or another instruction's list was altered / a missing list read)",
                        serde_json::json!({"tag": tt, "buffer_len": n, "observed_len": g.clone().map(|v| v.len()).emit(|l| l.to_string()), "expected_len": want.as_ref().map(|v| v.len())}).to_string());
                }
                if to_coq && rng.chance(1, 3) {
                    items.push(format!("MReload {} {}", tt, g.emit(|v| e_extras(v))));
                }
            }
        }
        // malformed account bytes: error, not panic
        if k % 4 == 0 {
            let mut bad = buf.clone();
            if !bad.is_empty() {
                match rng.below(3) {
                    0 => { let i = rng.below(bad.len().min(24) as u64) as usize; bad[i] = rng.byte(); }
                    1 => { if bad.len() >= 12 { bad[8..12].copy_from_slice(&0xffff_fff0u32.to_le_bytes()); } }
                    _ => { let l = bad.len(); bad[l - 1] = 7; }
                }
            }
            let ms = vec![rand_extra(&mut rng)];
            let mut b1 = bad.clone();
            let r1 = ml_init(&mut b1, 3, &ms);
            let mut b2 = bad.clone();
            let r2 = ml_update(&mut b2, 0, &ms);
            rep.count("malformed");
            if r1.is_panic() || r2.is_panic() || ml_reload(&bad, 0).is_panic() {
                rep.violate("ml-panic-malformed", "init/update/reload panicked on malformed account bytes", serde_json::json!({"data": emit::hex(&bad)}).to_string());
            }
            if to_coq {
                let fin1 = b1.clone();
                rep.case(format!("CMl {} [MInit 3 {} {} {}] {}", emit::blob(&bad), e_extras(&ms), r1.emit(|_| "tt".into()), cksum(&fin1), emit::blob(&fin1)), false);
            }
        }
        if to_coq && coq_ok {
            rep.case(format!("CMl {} [\n  {}\n ] {}", emit::blob(&init_bytes), items.join(";\n  "), emit::blob(&buf)), successes >= 1);
        } else {
            rep.monitor_case(k as u64, successes >= 1);
        }
    }
    rep
}
