//! SplitMix64: every random choice of a run derives from one state.
#[derive(Clone)]
pub struct Rng(pub u64);
impl Rng {
    pub fn new(seed: u64) -> Self {
        Rng(seed ^ 0x9e37_79b9_7f4a_7c15)
    }
    pub fn next_u64(&mut self) -> u64 {
        self.0 = self.0.wrapping_add(0x9e37_79b9_7f4a_7c15);
        let mut z = self.0;
        z = (z ^ (z >> 30)).wrapping_mul(0xbf58_476d_1ce4_e5b9);
        z = (z ^ (z >> 27)).wrapping_mul(0x94d0_49bb_1331_11eb);
        z ^ (z >> 31)
    }
    /// uniform in 0..n (n > 0)
    pub fn below(&mut self, n: u64) -> u64 {
        self.next_u64() % n
    }
    pub fn range(&mut self, lo: u64, hi_incl: u64) -> u64 {
        lo + self.below(hi_incl - lo + 1)
    }
    pub fn chance(&mut self, num: u64, den: u64) -> bool {
        self.below(den) < num
    }
    pub fn byte(&mut self) -> u8 {
        self.next_u64() as u8
    }
    pub fn bytes(&mut self, n: usize) -> Vec<u8> {
        (0..n).map(|_| self.byte()).collect()
    }
    pub fn pick<'a, T>(&mut self, xs: &'a [T]) -> &'a T {
        &xs[self.below(xs.len() as u64) as usize]
    }
    /// a byte biased towards boundary values
    pub fn edge_byte(&mut self) -> u8 {
        match self.below(8) {
            0 => 0,
            1 => 1,
            2 => 255,
            3 => 127,
            4 => 128,
            5 => 32,
            _ => self.byte(),
        }
    }
    pub fn fork(&mut self) -> Rng {
        Rng(self.next_u64())
    }
}
