//! C18 — discriminators (derive builder at run time, run-time hash, compiled derives);
//! C19 — program-error macros (real token generators at run time, compiled enums, the
//! three library error enums).
use crate::emit::{self, catch, catch_plain, Report, Res};
use crate::prng::Rng;
use crate::Ctx;
use quote::ToTokens;
use sha2::{Digest, Sha256};
use solana_program_error::{ProgramError, ToStr};
use spl_discriminator::{ArrayDiscriminator, SplDiscriminate};
use spl_discriminator_syn::SplDiscriminateBuilder;

fn lit_debug(s: &str) -> String {
    // a Rust string literal denoting s (Debug escapes quotes, backslashes, control characters)
    format!("{:?}", s)
}
fn raw_lit(s: &str) -> Option<String> {
    if s.contains("\"###") || s.contains('\r') {
        None
    } else {
        Some(format!("r###\"{}\"###", s))
    }
}
fn gen_text(rng: &mut Rng, braces_ok: bool) -> String {
    let n = match rng.below(10) {
        0 => 0,
        1 => *rng.pick(&[55usize, 56, 63, 64, 65, 119, 120, 127, 128]),
        2 => rng.range(100, 200) as usize,
        _ => rng.range(1, 40) as usize,
    };
    let alphabet: Vec<char> = "abcXYZ 019_:-.,;!?'\"\\\t\n\r\0\u{7f}\u{1b}#()[]<>/=+*&^%$@~`|é中𝄞ß→\u{feff}\u{2028}\u{301}\u{1F600}\u{a0}".chars().collect();
    // sequences a "normalising" or token-based implementation is likely to treat specially
    let special = ["\r\n", "\n\r", "\r", "\\n", "\\r\\n", "\\u{41}", "\\x41", "\\\n   x", "//", "/*", "*/", "\"#", "r#\"", "\\\"", "\\\\", "\\0", "%s", "\u{0}"];
    let mut s = String::new();
    while s.len() < n {
        if rng.chance(1, 12) {
            s.push_str(*rng.pick(&special[..]));
        } else {
            let c = *rng.pick(&alphabet);
            s.push(c);
        }
    }
    if !braces_ok {
        s = s.replace('{', "(").replace('}', ")");
    } else if rng.chance(1, 6) {
        s.push_str("{}{x}");
    }
    if rng.chance(1, 8) {
        s = format!("  {}  ", s); // leading/trailing whitespace must be kept
    }
    s
}
/// a cooked string literal denoting `s`, every character written in a randomly chosen
/// one of its legal spellings, with string continuations (backslash-newline-indent)
/// sprinkled in where they do not change the value
fn lit_mixed(rng: &mut Rng, s: &str) -> String {
    let mut out = String::from("\"");
    let cs: Vec<char> = s.chars().collect();
    for (i, &c) in cs.iter().enumerate() {
        if i > 0 && !c.is_whitespace() && rng.chance(1, 15) {
            out.push_str("\\\n      "); // continuation: skipped together with the indentation
        }
        let named = match c { '\n' => Some("\\n"), '\r' => Some("\\r"), '\t' => Some("\\t"), '\\' => Some("\\\\"), '\0' => Some("\\0"), '"' => Some("\\\""), '\'' => Some("\\'"), _ => None };
        let must_escape = c == '"' || c == '\\' || c == '\r' || c == '\0';
        match rng.below(4) {
            0 if (c as u32) < 0x80 => out.push_str(&format!("\\x{:02x}", c as u32)),
            1 => out.push_str(&format!("\\u{{{:x}}}", c as u32)),
            2 if named.is_some() => out.push_str(named.unwrap()),
            _ => {
                if must_escape { out.push_str(&format!("\\u{{{:x}}}", c as u32)) } else { out.push(c) }
            }
        }
    }
    out.push('"');
    out
}
fn string_literal(rng: &mut Rng, s: &str) -> String {
    match rng.below(4) {
        0 => {
            if let Some(r) = raw_lit(s) {
                return r;
            }
            lit_debug(s)
        }
        1 => lit_mixed(rng, s),
        _ => lit_debug(s),
    }
}

// ===================================================================== C18
#[derive(Clone, Debug, PartialEq)]
enum GP {
    Lifetime(String, String),
    Type(String, String, Option<String>),
    Const(String, String, Option<String>),
}
fn norm(ts: impl ToTokens) -> String {
    ts.to_token_stream().to_string().split_whitespace().collect::<Vec<_>>().join(" ")
}
fn abstract_generics(g: &syn::Generics) -> (Vec<GP>, Option<String>) {
    let ps = g
        .params
        .iter()
        .map(|p| match p {
            syn::GenericParam::Lifetime(l) => GP::Lifetime(norm(&l.lifetime), norm(&l.bounds)),
            syn::GenericParam::Type(t) => GP::Type(norm(&t.ident), norm(&t.bounds), t.default.as_ref().map(norm)),
            syn::GenericParam::Const(c) => GP::Const(norm(&c.ident), norm(&c.ty), c.default.as_ref().map(norm)),
        })
        .collect();
    (ps, g.where_clause.as_ref().map(|w| norm(&w.predicates)))
}
fn emit_gp(p: &GP) -> String {
    let ob = |o: &Option<String>| emit::option(o.as_ref().map(|s| emit::blob(s.as_bytes())));
    match p {
        GP::Lifetime(n, b) => format!("(GLifetime {} {})", emit::blob(n.as_bytes()), emit::blob(b.as_bytes())),
        GP::Type(n, b, d) => format!("(GType {} {} {})", emit::blob(n.as_bytes()), emit::blob(b.as_bytes()), ob(d)),
        GP::Const(n, t, d) => format!("(GConst {} {} {})", emit::blob(n.as_bytes()), emit::blob(t.as_bytes()), ob(d)),
    }
}
fn gen_generics(rng: &mut Rng) -> (String, String) {
    // returns ("<...>", " where ...")
    let k = rng.below(5);
    if k == 0 {
        return (String::new(), String::new());
    }
    let mut ps = Vec::new();
    let mut wh = Vec::new();
    let nlt = rng.below(2);
    for i in 0..nlt {
        ps.push(if i == 1 || rng.chance(1, 3) { format!("'l{}: 'static", i) } else { format!("'l{}", i) });
    }
    for i in 0..rng.range(0, 3) {
        let name = format!("T{}", i);
        let p = match rng.below(5) {
            0 => format!("{}: Clone", name),
            1 => format!("{}: Clone + core::fmt::Debug", name),
            2 => format!("{} = u8", name),
            3 => format!("{}: Copy = u64", name),
            _ => name.clone(),
        };
        if rng.chance(1, 3) {
            wh.push(format!("{}: Default", name));
        }
        ps.push(p);
    }
    if rng.chance(1, 3) {
        ps.push(if rng.chance(1, 2) { "const N: usize".into() } else { "const N: usize = 4".into() });
    }
    if ps.is_empty() {
        return (String::new(), String::new());
    }
    (format!("<{}>", ps.join(", ")), if wh.is_empty() { String::new() } else { format!(" where {}", wh.join(", ")) })
}

/// Run the real derive builder on item source text; returns (8 macro bytes, emitted impl)
fn run_builder(src: &str) -> Res<([u8; 8], syn::ItemImpl)> {
    catch(|| -> Result<([u8; 8], syn::ItemImpl), String> {
        let b = syn::parse_str::<SplDiscriminateBuilder>(src).map_err(|e| format!("parse: {}", e))?;
        let ts = b.to_token_stream();
        let imp = syn::parse2::<syn::ItemImpl>(ts.clone()).map_err(|e| format!("emitted tokens are not an impl: {} / {}", e, ts))?;
        // find the byte string literal
        struct F(Option<Vec<u8>>);
        impl<'ast> syn::visit::Visit<'ast> for F {
            fn visit_lit_byte_str(&mut self, l: &'ast syn::LitByteStr) {
                self.0 = Some(l.value());
            }
        }
        let mut f = F(None);
        syn::visit::Visit::visit_item_impl(&mut f, &imp);
        let v = f.0.ok_or("no byte string in the emitted impl")?;
        let a: [u8; 8] = v.as_slice().try_into().map_err(|_| format!("literal has {} bytes", v.len()))?;
        Ok((a, imp))
    })
}

// compiled subjects: real derive expansions
#[derive(SplDiscriminate)]
#[discriminator_hash_input("verif::plain")]
pub struct DPlain;
#[derive(SplDiscriminate)]
#[discriminator_hash_input("")]
pub struct DEmpty;
#[derive(SplDiscriminate)]
#[discriminator_hash_input("  spaced \t \"quoted\" \\ back\nslash é中𝄞  ")]
pub enum DEscapes {
    A,
}
#[derive(SplDiscriminate)]
#[discriminator_hash_input(r#"raw "string" \n not an escape"#)]
pub struct DRaw;
#[derive(SplDiscriminate)]
#[discriminator_hash_input("0123456789012345678901234567890123456789012345678901234567890123456789")]
pub struct DLong<'a> {
    pub d: &'a [u8],
}
#[derive(SplDiscriminate)]
#[discriminator_hash_input("verif::where")]
pub struct DWhere<T>
where
    T: Clone,
{
    pub t: T,
}
// the attribute also takes a trailing comma (gated like the generic subjects: if it stops compiling,
// the harness is rebuilt without it and the item is reported)
#[cfg(feature = "generic-subjects")]
#[derive(SplDiscriminate)]
#[discriminator_hash_input("verif::trailing_comma",)]
pub struct DComma;
#[allow(dead_code)]
#[derive(SplDiscriminate, Debug)]
#[discriminator_hash_input("verif::extra_attrs")]
#[repr(C)]
pub struct DAttrs {
    pub x: u8,
}
// inline bounds, const and defaulted parameters (D9): these only compile with the repaired builder
#[cfg(feature = "generic-subjects")]
#[derive(SplDiscriminate)]
#[discriminator_hash_input("verif::inline_bound")]
pub struct DInline<T: Clone, const N: usize, U = u8> {
    pub t: [T; N],
    pub u: U,
}


pub fn run_c18(ctx: &Ctx) -> Report {
    let mut rep = Report::new("C18");
    rep.corr_module = "Macros".into();
    rep.expect_classes(&["disc:builder", "disc:compiled", "conv:u64", "conv:slice:ok", "conv:slice:err", "header:generic", "header:plain", "literal:raw", "literal:block-boundary", "literal:trailing-comma", "attrs:tool-path-lookalike"]);
    let mut rng = Rng::new(ctx.seed.wrapping_mul(197).wrapping_add(18));
    // ---- compiled derives
    let compiled: Vec<(&str, &str, ArrayDiscriminator, &[u8])> = vec![
        ("DPlain", "verif::plain", DPlain::SPL_DISCRIMINATOR, DPlain::SPL_DISCRIMINATOR_SLICE),
        ("DEmpty", "", DEmpty::SPL_DISCRIMINATOR, DEmpty::SPL_DISCRIMINATOR_SLICE),
        ("DEscapes", "  spaced \t \"quoted\" \\ back\nslash é中𝄞  ", DEscapes::SPL_DISCRIMINATOR, DEscapes::SPL_DISCRIMINATOR_SLICE),
        ("DRaw", "raw \"string\" \\n not an escape", DRaw::SPL_DISCRIMINATOR, DRaw::SPL_DISCRIMINATOR_SLICE),
        ("DLong", "0123456789012345678901234567890123456789012345678901234567890123456789", DLong::SPL_DISCRIMINATOR, DLong::SPL_DISCRIMINATOR_SLICE),
        ("DWhere", "verif::where", DWhere::<u8>::SPL_DISCRIMINATOR, DWhere::<u8>::SPL_DISCRIMINATOR_SLICE),
        ("DAttrs", "verif::extra_attrs", DAttrs::SPL_DISCRIMINATOR, DAttrs::SPL_DISCRIMINATOR_SLICE),
        #[cfg(feature = "generic-subjects")]
        ("DComma", "verif::trailing_comma", DComma::SPL_DISCRIMINATOR, DComma::SPL_DISCRIMINATOR_SLICE),
        #[cfg(feature = "generic-subjects")]
        ("DInline", "verif::inline_bound", DInline::<u8, 3>::SPL_DISCRIMINATOR, DInline::<u8, 3>::SPL_DISCRIMINATOR_SLICE),
    ];
    for (name, input, d, sl) in compiled {
        let macro_bytes: [u8; 8] = d.into();
        let rt: [u8; 8] = ArrayDiscriminator::new_with_hash_input(input).into();
        let indep = &Sha256::digest(input.as_bytes())[..8];
        rep.count("disc:compiled");
        if macro_bytes != rt || macro_bytes[..] != indep[..] || sl != &macro_bytes[..] {
            rep.violate("disc-mismatch:compiled", "compile-time, run-time and SHA-256 discriminators differ",
                serde_json::json!({"item": name, "input": input, "macro": emit::hex(&macro_bytes), "runtime": emit::hex(&rt), "sha256": emit::hex(indep)}).to_string());
        }
        rep.case(format!("CDisc {} {} {}", emit::blob(input.as_bytes()), emit::blob(&macro_bytes), emit::blob(&rt)), true);
    }
    // ---- the real builder at run time
    let n = ctx.scale(700, 8000);
    for _ in 0..n {
        let input = gen_text(&mut rng, true);
        let lit = string_literal(&mut rng, &input);
        if lit.starts_with('r') {
            rep.count("literal:raw");
        }
        if [55usize, 56, 63, 64, 119, 120].contains(&input.len()) {
            rep.count("literal:block-boundary");
        }
        let (gens, wh) = gen_generics(&mut rng);
        let is_enum = rng.chance(1, 3);
        // other attributes before the real one: derives, repr, docs, cfg_attr, and tool attributes whose
        // path merely ENDS in the helper's name or that carry string arguments of their own
        let extra = match rng.below(9) {
            0 | 1 => "#[derive(Clone)]\n#[repr(C)]\n",
            2 => { rep.count("attrs:tool-path-lookalike"); "#[rustfmt::discriminator_hash_input(\"other\")]\n" }
            3 => { rep.count("attrs:tool-path-lookalike"); "#[clippy::discriminator_hash_input(\"other\")]\n#[allow(dead_code)]\n" }
            4 => "/// a doc comment with \"quotes\"\n#[doc = \"discriminator_hash_input\"]\n#[cfg_attr(all(), allow(dead_code))]\n",
            5 => "#[deprecated(note = \"discriminator_hash_input(\\\"x\\\")\")]\n#[must_use = \"y\"]\n",
            _ => "",
        };
        let body = if is_enum { "{ A, B }".to_string() } else if rng.chance(1, 2) { "{ x: u8 }".to_string() } else { ";".to_string() };
        // the attribute also takes a trailing comma
        let lit = if rng.chance(1, 5) { rep.count("literal:trailing-comma"); format!("{},", lit) } else { lit };
        let src = if is_enum || body != ";" {
            format!("{}#[discriminator_hash_input({})]\npub {} Item{}{} {}", extra, lit, if is_enum { "enum" } else { "struct" }, gens, wh, body)
        } else {
            format!("{}#[discriminator_hash_input({})]\npub struct Item{}{};", extra, lit, gens, wh)
        };
        let item = match syn::parse_str::<syn::DeriveInput>(&src) {
            Ok(i) => i,
            Err(_) => continue, // generator produced something rustc would not accept either
        };
        let r = run_builder(&src);
        let rt: [u8; 8] = ArrayDiscriminator::new_with_hash_input(&input).into();
        let indep = &Sha256::digest(input.as_bytes())[..8];
        rep.count("disc:builder");
        rep.monitor_runs += 1;
        match &r {
            Res::Ok((mb, imp)) => {
                if *mb != rt || mb[..] != indep[..] {
                    rep.violate("disc-mismatch:builder", "compile-time (derive builder), run-time and SHA-256 discriminators differ",
                        serde_json::json!({"source": src, "input": input, "macro": emit::hex(mb), "runtime": emit::hex(&rt), "sha256": emit::hex(indep)}).to_string());
                }
                rep.case(format!("CDisc {} {} {}", emit::blob(input.as_bytes()), emit::blob(mb), emit::blob(&rt)), true);
                // header
                let (ps, w) = abstract_generics(&item.generics);
                let (ips, iw) = abstract_generics(&imp.generics);
                let args: Vec<String> = match &*imp.self_ty {
                    syn::Type::Path(tp) => match &tp.path.segments.last().unwrap().arguments {
                        syn::PathArguments::AngleBracketed(a) => a.args.iter().map(norm).collect(),
                        _ => vec![],
                    },
                    _ => vec!["?".into()],
                };
                rep.count(if ps.is_empty() { "header:plain" } else { "header:generic" });
                let want_impl: Vec<GP> = ps.iter().map(|p| match p {
                    GP::Type(n, b, _) => GP::Type(n.clone(), b.clone(), None),
                    GP::Const(n, t, _) => GP::Const(n.clone(), t.clone(), None),
                    l => l.clone(),
                }).collect();
                let want_args: Vec<String> = ps.iter().map(|p| match p { GP::Lifetime(n, _) | GP::Type(n, _, _) | GP::Const(n, _, _) => n.clone() }).collect();
                if ips != want_impl || args != want_args || iw != w {
                    rep.violate("impl-header", "the emitted impl header is not `impl<params with bounds, no defaults> Trait for Item<names> where ...`",
                        serde_json::json!({"source": src, "emitted": norm(imp)}).to_string());
                }
                let ob = |o: &Option<String>| emit::option(o.as_ref().map(|s| emit::blob(s.as_bytes())));
                rep.case(format!("CHeader {} {} {} {} {}",
                    emit::list(&ps.iter().map(emit_gp).collect::<Vec<_>>()), ob(&w),
                    emit::list(&ips.iter().map(emit_gp).collect::<Vec<_>>()),
                    emit::list(&args.iter().map(|a| emit::blob(a.as_bytes())).collect::<Vec<_>>()), ob(&iw)), !ps.is_empty());
            }
            other => {
                rep.violate("builder-failed", "the derive builder failed or emitted tokens that are not a well-formed impl",
                    serde_json::json!({"source": src, "result": format!("{:?}", other.kind()), "detail": match other { Res::Err(e) => e.clone(), Res::Panic(e) => e.clone(), _ => String::new() }}).to_string());
            }
        }
    }
    // ---- conversions
    let nconv = ctx.scale(300, 3000);
    for k in 0..nconv {
        let v: u64 = match k {
            0 => 0,
            1 => 1,
            2 => u64::MAX,
            3 => 0x0102030405060708,
            _ => if rng.chance(1, 4) { 1u64 << rng.below(64) } else { rng.next_u64() },
        };
        let d = ArrayDiscriminator::from(v);
        let bytes: [u8; 8] = d.into();
        let back: u64 = d.into();
        rep.count("conv:u64");
        rep.monitor_runs += 1;
        if bytes != v.to_le_bytes() || back != v || ArrayDiscriminator::from(bytes) != d || ArrayDiscriminator::new(bytes) != d
            || d.as_slice() != &bytes[..] || <ArrayDiscriminator as AsRef<[u8]>>::as_ref(&d) != &bytes[..] {
            rep.violate("conversion", "discriminator <-> u64 / array conversions are not lossless little-endian", serde_json::json!({"value": v}).to_string());
        }
        rep.case(format!("CDiscConv {} {} {}", v, emit::blob(&bytes), back), true);
    }
    for l in 0..=20usize {
        let s0 = rng.bytes(l);
        let shifted = emit::Shifted::new(&s0, l * 3 + 1); // not at an aligned address
        let s = shifted.bytes();
        let r = catch(|| ArrayDiscriminator::try_from(&s[..]).map(|d| <[u8; 8]>::from(d).to_vec()));
        rep.count(if r.is_ok() { "conv:slice:ok" } else { "conv:slice:err" });
        if r.is_ok() != (l == 8) || matches!(&r, Res::Ok(v) if v[..] != s[..]) {
            rep.violate("conversion-slice", "a slice converts only if it is exactly 8 bytes long (and then to the same bytes)", serde_json::json!({"len": l}).to_string());
        }
        rep.case(format!("CDiscSlice {} {}", emit::blob(&s), r.emit(|v| emit::blob(v))), r.is_ok());
        // the Borsh route (feature "borsh"): exactly 8 bytes, also from a reader that delivers one byte per call
        let b1 = borsh::from_slice::<ArrayDiscriminator>(&s[..]).ok().map(|d| <[u8; 8]>::from(d).to_vec());
        let b2 = crate::pod::borsh_untrickle::<ArrayDiscriminator>(&s[..]).map(|d| <[u8; 8]>::from(d).to_vec());
        let want = if l == 8 { Some(s.to_vec()) } else { None };
        let want_prefix = if l >= 8 { Some(s[..8].to_vec()) } else { None }; // a reader may hold more than one value
        if b1 != want || b2 != want_prefix {
            rep.violate("conversion-borsh", "Borsh decoding of a discriminator must take exactly its 8 bytes (and fail on fewer), whatever the reader's chunking", serde_json::json!({"len": l, "from_slice": format!("{:?}", b1), "from_reader": format!("{:?}", b2)}).to_string());
        }
        if l == 8 {
            let d = ArrayDiscriminator::try_from(&s[..]).unwrap();
            if borsh::to_vec(&d).ok() != Some(s.to_vec()) || crate::pod::borsh_trickle(&d) != Some(s.to_vec()) {
                rep.violate("conversion-borsh", "Borsh encoding of a discriminator must be its 8 bytes", serde_json::json!({"len": l}).to_string());
            }
        }
    }
    rep
}

// ===================================================================== C19
use spl_program_error::spl_program_error;

#[spl_program_error(hash_error_code_start = 3535231918)]
pub enum SubjHashed {
    #[error("first")]
    First,
    #[error("second \"quoted\" \\ and 'single'")]
    Second,
    #[error("third")]
    Third,
}
#[spl_program_error]
pub enum SubjPlain {
    #[error("zero")]
    Zero,
    #[error("one")]
    One,
    #[error("ten")]
    Ten = 10,
    #[error("eleven")]
    Eleven,
    #[error("five")]
    Five = 5,
    #[error("six")]
    Six,
}
#[spl_program_error(hash_error_code_start = 443768669, solana_program_error = "solana_program_error")]
pub enum SubjRenamed {
    #[error("only")]
    Only,
}
#[spl_program_error(hash_error_code_start = 2987786219)]
pub enum SubjUnicode {
    #[error("é中𝄞 → ß")]
    A,
    #[error("tab\there, newline\nthere")]
    B,
    #[error("  leading and trailing  ")]
    C,
    #[error(r#"raw "quoted" \n"#)]
    D,
}
#[derive(Clone, Debug, PartialEq, Eq, thiserror::Error, num_enum::TryFromPrimitive, spl_program_error::IntoProgramError, spl_program_error::ToStr)]
#[repr(u32)]
pub enum SubjDerives {
    #[error("a")]
    A = 7,
    #[error("b")]
    B,
    #[error("c")]
    C = 100,
}

type Row = (u32, String, String, bool);
macro_rules! rows {
    ($E:ident, [$($v:ident),*]) => {
        vec![$({
            let code = match ProgramError::from($E::$v) { ProgramError::Custom(c) => c, _ => u32::MAX };
            let back = <$E as TryFrom<u32>>::try_from(code).map(|x| x == $E::$v).unwrap_or(false) && ($E::$v as u32) == code;
            (code, $E::$v.to_str().to_string(), $E::$v.to_string(), back)
        }),*]
    };
}
fn emit_variant(name: &str, disc: Option<u64>, msg: Option<&str>) -> String {
    format!("{{| v_name := {}; v_disc := {}; v_msg := {} |}}", emit::blob(name.as_bytes()),
        emit::option(disc.map(|d| d.to_string())), emit::option(msg.map(|m| emit::blob(m.as_bytes()))))
}
fn emit_rows(rows: &[Row]) -> String {
    emit::list(&rows.iter().map(|(c, t, d, b)| format!("({}, {}, {}, {})", c, emit::blob(t.as_bytes()), emit::blob(d.as_bytes()), emit::boolean(*b))).collect::<Vec<_>>())
}

const BOUNDARY_NAMES: &[(&str, u32)] = &[
    ("Err90396A79", 1),
    ("ErrACD21B17", 1),
    ("Err12B9987C5", 255),
    ("Err119E021B", 256),
    ("Err14B473140", 256),
    ("Err1246D227E", 6992),
    ("Err128A4C2FF", 6992),
    ("Err11B31E415", 6993),
    ("Err1C21AF22", 6993),
    ("Err1AEF74821", 6994),
    ("Err122B1EB74", 6995),
    ("Err17FBE8E9E", 6995),
    ("Err13C169035", 6998),
    ("Err157814846", 6999),
    ("Err1A6D8CF9B", 6999),
    ("Err5B13B05", 7000),
    ("Err17E3F6B59", 7001),
    ("ErrF2E13A85", 7001),
    ("Err131C2349", 7002),
    ("Err18FC0DB9C", 7002),
    ("Err11C5844B6", 65535),
    ("Err1C04F348B", 65535),
    ("Err163F49CBC", 65536),
    ("Err19CC78CF6", 2147483647),
    ("Err8A97BEC4", 2147483648),
    ("Err12349DE90", 2147483649),
    ("Err555C9DC1", 2147483649),
    ("Err15363BC8C", 4294966266),
    ("Err1A57E9D18", 4294966266),
    ("Err4B2790EB", 4294966267),
    ("Err1492549A9", 4294966268),
    ("Err15FB80096", 4294966268),
    ("Err363930BB", 4294966269),
    ("Err1BEA4E54F", 4294966270),
    ("Err220687A1", 4294966270),
    ("Err11816F685", 4294966271),
    ("Err317F3489", 4294966271),
    ("Err1C223C7E9", 4294966272),
    ("Err8FF0004B", 4294966272),
    ("Err18351E9A", 4294966273),
    ("ErrA0356540", 4294966273),
    ("ErrDDFF0D1B", 4294966275),
    ("Err1A2B68B2E", 4294967292),
    ("Err1E368BE9E", 4294967292),
    ("Err152BDF8CD", 4294967293),
    ("Err1D04A6C43", 4294967293),
    ("Err11A954919", 4294967295),
    ("Err1296F2A95", 4294967295),
];
fn independent_start(name: &str) -> (u32, u32) {
    let mut nonce: u32 = 0;
    loop {
        let mut h = Sha256::new();
        h.update(b"spl_program_error:");
        h.update(name.as_bytes());
        h.update(nonce.to_le_bytes());
        let dg = h.finalize();
        let d = u32::from_le_bytes([dg[13], dg[14], dg[15], dg[16]]);
        if d >= 7000 {
            return (d, nonce);
        }
        nonce += 1;
    }
}

struct ArmCollector {
    in_to_str: bool,
    msgs: Vec<String>,
    custom_cast: bool,
}
impl<'ast> syn::visit::Visit<'ast> for ArmCollector {
    fn visit_impl_item_fn(&mut self, f: &'ast syn::ImplItemFn) {
        let was = self.in_to_str;
        if f.sig.ident == "to_str" {
            self.in_to_str = true;
        }
        if f.sig.ident == "from" && norm(&f.block).contains("ProgramError :: Custom (e as u32)") {
            self.custom_cast = true;
        }
        syn::visit::visit_impl_item_fn(self, f);
        self.in_to_str = was;
    }
    fn visit_arm(&mut self, a: &'ast syn::Arm) {
        if self.in_to_str {
            if let syn::Expr::Lit(syn::ExprLit { lit: syn::Lit::Str(s), .. }) = &*a.body {
                self.msgs.push(s.value());
            } else {
                self.msgs.push(format!("<non-literal arm: {}>", norm(&a.body)));
            }
        }
        syn::visit::visit_arm(self, a);
    }
}

pub fn run_c19(ctx: &Ctx) -> Report {
    let mut rep = Report::new("C19");
    rep.corr_module = "Macros".into();
    rep.expect_classes(&["gen:hashed", "gen:plain", "gen:wrong-start", "gen:missing-message", "gen:nonzero-nonce", "compiled", "table", "gen:boundary-start:exactly-7000", "gen:boundary-start:below-7000", "gen:boundary-start:near-u32-max", "gen:last-code-at-u32-max"]);
    let mut rng = Rng::new(ctx.seed.wrapping_mul(199).wrapping_add(19));

    // ---- (c) the three library enums, scanned over their code range
    macro_rules! scan {
        ($E:ty, $name:expr, $start:expr) => {{
            let start: u32 = $start;
            let lo = start.saturating_sub(2);
            let mut rows: Vec<Row> = Vec::new();
            let mut first: Option<u32> = None;
            for c in lo..=start.saturating_add(64) {
                if let Ok(v) = <$E as TryFrom<u32>>::try_from(c) {
                    if first.is_none() {
                        first = Some(c);
                    }
                    let code = match ProgramError::from(v.clone()) { ProgramError::Custom(x) => x, _ => u32::MAX };
                    let fp = <$E as num_traits::FromPrimitive>::from_u32(c).map(|w| w == v).unwrap_or(false);
                    let ts = v.to_str().to_string();
                    let disp = v.to_string();
                    if code != c || !fp {
                        rep.violate("table-code", "a library error enum maps a variant to a code other than its discriminant (or lookup is not the inverse)",
                            serde_json::json!({"enum": $name, "code": c, "into": code}).to_string());
                    }
                    if ts != disp {
                        rep.violate(&format!("table-message:{}:{}", $name, c - start), "to_str differs from the declared error text / Display",
                            serde_json::json!({"enum": $name, "code": c, "to_str": ts, "display": disp}).to_string());
                    }
                    rows.push((code, ts, disp, fp));
                }
            }
            let contiguous = rows.iter().enumerate().all(|(i, r)| r.0 == start + i as u32);
            if first != Some(start) || !contiguous || rows.is_empty() {
                rep.violate("table-contiguity", "library error codes are not distinct and contiguous from the declared start",
                    serde_json::json!({"enum": $name, "start": start, "codes": rows.iter().map(|r| r.0).collect::<Vec<_>>()}).to_string());
            }
            rep.count("table");
            rep.monitor_runs += 67;
            rep.case(format!("CTable {} {}", start, emit_rows(&rows)), true);
        }};
    }
    scan!(spl_type_length_value::error::TlvError, "TlvError", 1_202_666_432);
    scan!(spl_list_view::ListViewError, "ListViewError", 0);
    scan!(spl_tlv_account_resolution::error::AccountResolutionError, "AccountResolutionError", 2_724_315_840);

    // ---- (b) compiled enums through the real macros
    let subjects: Vec<(&str, Vec<(&str, Option<u64>, &str)>, Option<u64>, Vec<Row>)> = vec![
        ("SubjHashed", vec![("First", None, "first"), ("Second", None, "second \"quoted\" \\ and 'single'"), ("Third", None, "third")], Some(3535231918), rows!(SubjHashed, [First, Second, Third])),
        ("SubjPlain", vec![("Zero", None, "zero"), ("One", None, "one"), ("Ten", Some(10), "ten"), ("Eleven", None, "eleven"), ("Five", Some(5), "five"), ("Six", None, "six")], None, rows!(SubjPlain, [Zero, One, Ten, Eleven, Five, Six])),
        ("SubjRenamed", vec![("Only", None, "only")], Some(443768669), rows!(SubjRenamed, [Only])),
        ("SubjUnicode", vec![("A", None, "é中𝄞 → ß"), ("B", None, "tab\there, newline\nthere"), ("C", None, "  leading and trailing  "), ("D", None, "raw \"quoted\" \\n")], Some(2987786219), rows!(SubjUnicode, [A, B, C, D])),
        ("SubjDerives", vec![("A", Some(7), "a"), ("B", None, "b"), ("C", Some(100), "c")], None, rows!(SubjDerives, [A, B, C])),
    ];
    for (name, decl, start, rows) in &subjects {
        rep.count("compiled");
        // monitor: Rust's discriminant rule, messages, inverse lookup
        let mut next: u64 = start.unwrap_or(0);
        for (i, ((vn, d, msg), row)) in decl.iter().zip(rows.iter()).enumerate() {
            let want = if i == 0 && start.is_some() { start.unwrap() } else { d.unwrap_or(next) };
            next = want + 1;
            if row.0 as u64 != want || row.1 != *msg || row.2 != *msg || !row.3 {
                rep.violate("compiled-enum", "a compiled enum's code / to_str / Display / lookup differ from its declaration",
                    serde_json::json!({"enum": name, "variant": vn, "row": format!("{:?}", row), "expected_code": want, "expected_message": msg}).to_string());
            }
        }
        if let Some(s) = start {
            if independent_start(name).0 as u64 != *s {
                rep.violate("compiled-start", "hashed start of a compiled enum differs from SHA-256", serde_json::json!({"enum": name}).to_string());
            }
        }
        rep.monitor_runs += rows.len() as u64;
        rep.case(format!("CEnum {} {} {}",
            emit::list(&decl.iter().map(|(n, d, m)| emit_variant(n, *d, Some(m))).collect::<Vec<_>>()),
            emit::option(start.map(|s| s.to_string())), emit_rows(rows)), true);
    }

    // ---- (a) the real token generators at run time
    // names whose nonce-0 value sits on a boundary (found once by a 2^33-name search, tools/hunt):
    // exactly 7000 and its neighbours, 6990..6999 (nonce must advance), 1, 255/256, 65535/65536,
    // 2^31 and neighbours, u32::MAX-1029..u32::MAX-1020, the top four values.  The value recorded
    // here is re-derived with sha2 on every run before it is used.
    let mut special: Vec<String> = Vec::new();
    for (name, v0) in BOUNDARY_NAMES {
        let mut h = Sha256::new();
        h.update(b"spl_program_error:");
        h.update(name.as_bytes());
        h.update(0u32.to_le_bytes());
        let dg = h.finalize();
        if u32::from_le_bytes([dg[13], dg[14], dg[15], dg[16]]) != *v0 {
            rep.violate("boundary-corpus", "harness corpus entry does not hash to its recorded value", serde_json::json!({"name": name}).to_string());
        }
        rep.count(&format!("gen:boundary-start:{}", if *v0 < 7000 { "below-7000" } else if *v0 == 7000 { "exactly-7000" } else if *v0 > u32::MAX - 2000 { "near-u32-max" } else { "other" }));
        special.push(name.to_string());
    }
    // a name whose hash needs a non-zero nonce (probability 1.6e-6 per name)
    let scan_limit = ctx.scale(3_000_000, 12_000_000);
    for k in 0..scan_limit {
        let name = format!("E{}", k);
        let mut h = Sha256::new();
        h.update(b"spl_program_error:");
        h.update(name.as_bytes());
        h.update(0u32.to_le_bytes());
        let dg = h.finalize();
        if u32::from_le_bytes([dg[13], dg[14], dg[15], dg[16]]) < 7000 {
            special.push(name);
            if special.len() >= ctx.scale(1, 4) {
                break;
            }
        }
    }
    rep.monitor_runs += scan_limit as u64 / 1000;
    let n_gen = ctx.scale(500, 5000);
    for k in 0..n_gen + special.len() {
        let name = if k < special.len() {
            rep.count("gen:nonzero-nonce");
            special[k].clone()
        } else {
            let l = rng.range(1, 30) as usize;
            let mut s = String::from(*rng.pick(&["Err", "My", "X", "Token", "Q"]));
            // identifier characters, a few of them outside ASCII (XID_Continue)
            let alpha: Vec<char> = "abcdefghijklmnopqrstuvwxyzABCDEFGHIJKLMNOPQRSTUVWXYZ0123456789_éßΩ中".chars().collect();
            while s.len() < l {
                s.push(*rng.pick(&alpha));
            }
            s
        };
        let mut nvar = rng.range(1, 12) as usize;
        let hashed = k < special.len() || rng.chance(1, 2);
        if hashed && independent_start(&name).0 > u32::MAX - 40 {
            // as many variants as fit: the last code is exactly u32::MAX (or one below); more would not fit a u32
            let room = (u32::MAX - independent_start(&name).0) as usize + 1;
            nvar = if rng.chance(1, 3) && room > 1 { room - 1 } else { room };
            rep.count("gen:last-code-at-u32-max");
        }
        let mut decl: Vec<(String, Option<u64>, Option<String>)> = Vec::new();
        let mut src = String::new();
        src.push_str(&format!("pub enum {} {{\n", name));
        for i in 0..nvar {
            let vn = match rng.below(8) {
                0 => format!("Värde{}", i),
                1 if i == 0 => (*rng.pick(&["r#type", "r#match", "r#async"])).to_string(),
                2 => format!("a_snake_case_variant_{}", i),
                _ => format!("V{}", i),
            };
            let msg = if rng.chance(1, 8) { None } else { Some(gen_text(&mut rng, false)) };
            // (with a hashed start an explicit discriminant left on the first variant is overridden)
            let disc = if !hashed && rng.chance(1, 5) { Some(rng.below(1000) + 1000 * i as u64) } else if hashed && i == 0 && rng.chance(1, 6) { Some(rng.below(3)) } else { None };
            if rng.chance(1, 6) {
                src.push_str("    /// a doc comment\n    #[allow(dead_code)]\n");
            }
            if let Some(m) = &msg {
                src.push_str(&format!("    #[error({})]\n", string_literal(&mut rng, m)));
            } else {
                rep.count("gen:missing-message");
            }
            match disc {
                Some(d) => src.push_str(&format!("    {} = {},\n", vn, d)),
                None => src.push_str(&format!("    {},\n", vn)),
            }
            decl.push((vn, disc, msg));
        }
        src.push_str("}\n");
        let (want_start, want_nonce) = independent_start(&name);
        let renamed = rng.chance(1, 4);
        let wrong = hashed && rng.chance(1, 5);
        let declared = if wrong { want_start.wrapping_add(rng.range(1, 5) as u32) } else { want_start };
        let mut args = Vec::new();
        if hashed {
            args.push(format!("hash_error_code_start = {}", declared));
        }
        if renamed {
            args.push("solana_program_error = \"my_error_crate\"".to_string());
        }
        let args_src = args.join(", ");
        let r = catch(|| -> Result<proc_macro2::TokenStream, String> {
            let a = syn::parse_str::<crate::parser::SplProgramErrorArgs>(&args_src).map_err(|e| format!("args: {}", e))?;
            let mut item = syn::parse_str::<syn::ItemEnum>(&src).map_err(|e| format!("enum: {}", e))?;
            Ok(crate::macro_impl::spl_program_error(&a, &mut item))
        });
        rep.monitor_runs += 1;
        let det = |extra: String| serde_json::json!({"enum_source": src, "macro_args": args_src, "detail": extra}).to_string();
        if wrong {
            rep.count("gen:wrong-start");
            // must fail, naming the right value
            let named = match &r {
                Res::Panic(m) => m.split("must be ").nth(1).and_then(|t| t.split('.').next()).and_then(|t| t.trim().parse::<u32>().ok()),
                _ => None,
            };
            if named != Some(want_start) || !matches!(&r, Res::Panic(m) if m.contains(&format!("hash_error_code_start = {}", want_start))) {
                rep.violate("wrong-start-diagnostic", "a wrong declared start must fail to compile naming the right value", det(format!("{:?}", r.kind())));
            }
            if let Some(v) = named {
                rep.case(format!("CHashWrong {} {}", emit::blob(name.as_bytes()), v), true);
            }
            continue;
        }
        let ts = match r {
            Res::Ok(ts) => ts,
            other => {
                rep.violate("generator-failed", "the spl_program_error generator failed on a valid enum", det(format!("{:?}", other)));
                continue;
            }
        };
        let file = match syn::parse2::<syn::File>(ts.clone()) {
            Ok(f) => f,
            Err(e) => {
                rep.violate("generator-output", "generated tokens do not parse", det(e.to_string()));
                continue;
            }
        };
        rep.count(if hashed { "gen:hashed" } else { "gen:plain" });
        // first discriminant
        let emitted_enum = file.items.iter().find_map(|i| if let syn::Item::Enum(e) = i { Some(e) } else { None });
        let first_disc = emitted_enum.and_then(|e| e.variants.first()).and_then(|v| v.discriminant.as_ref()).and_then(|(_, e)| norm(e).parse::<u64>().ok());
        if hashed {
            if first_disc != Some(want_start as u64) || want_start < 7000 {
                rep.violate("hashed-start", "the first variant's code is not bytes 13..17 of SHA-256(\"spl_program_error:\" + name + nonce) with the smallest nonce giving >= 7000",
                    det(format!("emitted {:?}, expected {} (nonce {})", first_disc, want_start, want_nonce)));
            }
            if let Some(d) = first_disc {
                rep.case(format!("CHash {} {}", emit::blob(name.as_bytes()), d), true);
            }
            // later variants must not get discriminants from the macro
            if emitted_enum.map(|e| e.variants.iter().skip(1).any(|v| v.discriminant.is_some())).unwrap_or(true) {
                rep.violate("hashed-later-variants", "later variants must increase by one (no explicit discriminant emitted)", det(String::new()));
            }
        } else if emitted_enum.map(|e| e.variants.iter().zip(decl.iter()).any(|(v, d)| v.discriminant.as_ref().map(|(_, e)| norm(e)) != d.1.map(|x| x.to_string()))).unwrap_or(true) {
            rep.violate("explicit-discriminants", "explicit discriminants were changed by the macro", det(String::new()));
        }
        // to_str arms and the Custom(e as u32) conversion
        let mut col = ArmCollector { in_to_str: false, msgs: vec![], custom_cast: false };
        syn::visit::Visit::visit_file(&mut col, &file);
        let want_msgs: Vec<String> = decl.iter().map(|d| d.2.clone().unwrap_or_else(|| "Unknown custom program error".to_string())).collect();
        if col.msgs != want_msgs {
            rep.violate("to-str-messages", "the static message of a variant differs from its declared error text", det(format!("emitted {:?}", col.msgs)));
        }
        if !col.custom_cast {
            rep.violate("into-program-error", "conversion into a program error is not Custom(discriminant)", det(String::new()));
        }
        let want_crate = if renamed { "my_error_crate" } else { "_solana_program_error" };
        if !norm(&ts).contains(&format!("for {} :: ProgramError", want_crate)) {
            rep.violate("error-crate", "the generated impls do not use the configured error crate", det(String::new()));
        }
        rep.case(format!("CToStr {} {}",
            emit::list(&decl.iter().map(|(n, d, m)| emit_variant(n, *d, m.as_deref())).collect::<Vec<_>>()),
            emit::list(&col.msgs.iter().map(|m| emit::blob(m.as_bytes())).collect::<Vec<_>>())), true);
        // the two derive forms
        let item = syn::parse_str::<syn::ItemEnum>(&src).unwrap();
        let imp = syn::parse_str::<crate::parser::SplProgramErrorArgs>("").unwrap().program_error_import;
        let t2 = catch_plain(|| crate::macro_impl::to_str(&item.ident, &item.variants, &imp));
        if let Res::Ok(t2) = t2 {
            if let Ok(f2) = syn::parse2::<syn::File>(t2) {
                let mut c2 = ArmCollector { in_to_str: false, msgs: vec![], custom_cast: false };
                syn::visit::Visit::visit_file(&mut c2, &f2);
                if c2.msgs != want_msgs {
                    rep.violate("to-str-messages", "derive(ToStr): message differs from the declared error text", det(format!("emitted {:?}", c2.msgs)));
                }
            }
        } else {
            rep.violate("generator-failed", "derive(ToStr) generator panicked", det(String::new()));
        }
        // derive(IntoProgramError) on its own
        let t3 = catch_plain(|| crate::macro_impl::into_program_error(&item.ident, &imp));
        match t3 {
            Res::Ok(t3) => {
                let txt = norm(&t3);
                if !txt.contains(&format!("impl From < {} > for _solana_program_error :: ProgramError", name)) || !txt.contains("ProgramError :: Custom (e as u32)") {
                    rep.violate("into-program-error", "derive(IntoProgramError) does not convert a variant into Custom(discriminant)", det(txt));
                }
            }
            _ => rep.violate("generator-failed", "derive(IntoProgramError) generator panicked", det(String::new())),
        }
    }
    rep
}
