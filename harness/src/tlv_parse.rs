//! C02 — TLV decoding on arbitrary bytes: totality, exact acceptance set, lookups.
use crate::emit::{self, Report, Res};
use crate::prng::Rng;
use crate::tlv::{
    cksum, discs_view, emit_raw_tag, emit_tag, get_bytes_view, get_typed_view, open_view, View, NTAGS, TAGS, TYPED_SIZES,
};
use crate::Ctx;

/// independent parser written from the README's format description
/// Some(entries as (tag, value offset, value length)) iff the bytes must be accepted
pub fn oracle_parse(b: &[u8]) -> Option<Vec<([u8; 8], usize, usize)>> {
    let mut es = Vec::new();
    let mut i = 0usize;
    loop {
        let rest = &b[i..];
        if rest.is_empty() {
            return Some(es);
        }
        if rest.len() < 8 {
            return if rest.iter().all(|&x| x == 0) { Some(es) } else { None };
        }
        if rest[..8] == [0u8; 8] {
            return Some(es);
        }
        if rest.len() < 12 {
            return None;
        }
        let l = u32::from_le_bytes([rest[8], rest[9], rest[10], rest[11]]) as usize;
        if rest.len() - 12 < l {
            return None;
        }
        let mut t = [0u8; 8];
        t.copy_from_slice(&rest[..8]);
        es.push((t, i + 12, l));
        i += 12 + l;
    }
}

fn gen_valid(rng: &mut Rng, max_entries: usize) -> Vec<u8> {
    let mut out = Vec::new();
    let k = rng.below(max_entries as u64 + 1) as usize;
    for _ in 0..k {
        let t: [u8; 8] = if rng.chance(5, 6) {
            TAGS[rng.below(NTAGS as u64) as usize]
        } else {
            let mut t = [0u8; 8];
            for x in t.iter_mut() {
                *x = rng.edge_byte();
            }
            if t == [0u8; 8] {
                t[3] = 1;
            }
            t
        };
        let l = match rng.below(4) {
            0 => *rng.pick(&TYPED_SIZES),
            1 => 0,
            _ => rng.below(20) as usize,
        };
        out.extend_from_slice(&t);
        out.extend_from_slice(&(l as u32).to_le_bytes());
        out.extend(rng.bytes(l));
    }
    out
}

pub fn gen_bytes(rng: &mut Rng) -> Vec<u8> {
    match rng.below(10) {
        0 => {
            let n = rng.below(65) as usize;
            rng.bytes(n)
        }
        1 => {
            let n = rng.below(40) as usize;
            (0..n).map(|_| if rng.chance(3, 4) { 0 } else { rng.byte() }).collect()
        }
        _ => {
            let mut b = gen_valid(rng, 4);
            // terminator shape
            match rng.below(11) {
                9 | 10 => {
                    // stale entries behind a terminator: a zero tag whose "length" bytes are not zero,
                    // that many bytes, then well-formed entries of the table tags
                    b.extend([0u8; 8]);
                    let k = rng.range(1, 6) as usize;
                    b.extend((k as u32).to_le_bytes());
                    b.extend(rng.bytes(k));
                    b.extend(gen_valid(rng, 3));
                    if rng.chance(1, 2) {
                        b.extend(vec![0u8; rng.below(12) as usize]);
                    }
                }
                0 => {}
                1 => b.extend(vec![0u8; rng.range(1, 7) as usize]),
                2 => b.extend(vec![0u8; rng.range(8, 11) as usize]),
                3 => {
                    b.extend([0u8; 8]);
                    let g = rng.below(20) as usize;
                    b.extend(rng.bytes(g));
                }
                4 => {
                    let g = rng.range(1, 11) as usize;
                    b.extend(rng.bytes(g));
                }
                5 => b.extend(vec![0u8; rng.range(12, 40) as usize]),
                6 => {
                    // zeros then a non-zero byte within the last 1..7
                    let g = rng.range(1, 7) as usize;
                    let mut z = vec![0u8; g];
                    z[rng.below(g as u64) as usize] = 1 + rng.below(255) as u8;
                    b.extend(z);
                }
                _ => b.extend(vec![0u8; rng.below(30) as usize]),
            }
            // mutation
            if !b.is_empty() {
                match rng.below(8) {
                    0 => {
                        let i = rng.below(b.len() as u64) as usize;
                        b[i] = rng.edge_byte();
                    }
                    1 => {
                        // truncate at any offset
                        let i = rng.below(b.len() as u64 + 1) as usize;
                        b.truncate(i);
                    }
                    2 => {
                        // make a length field reach exactly / one past / far past the end
                        if let Some(es) = oracle_parse(&b) {
                            if let Some(&(_, off, _)) = es.last() {
                                let room = b.len() - off;
                                let l: u32 = match rng.below(4) {
                                    0 => room as u32,
                                    1 => room as u32 + 1,
                                    2 => 0xffff_ffff,
                                    _ => room.saturating_sub(1) as u32,
                                };
                                b[off - 4..off].copy_from_slice(&l.to_le_bytes());
                            }
                        }
                    }
                    _ => {}
                }
            }
            b
        }
    }
}

pub fn run_one(rep: &mut Report, rng: &mut Rng, bytes: &[u8], to_coq: bool) {
    static SHIFT: std::sync::atomic::AtomicUsize = std::sync::atomic::AtomicUsize::new(0);
    let shift = SHIFT.fetch_add(1, std::sync::atomic::Ordering::Relaxed) % 8;
    let mut shifted = emit::Shifted::new(bytes, shift);
    let buf: &mut [u8] = shifted.bytes_mut();
    rep.count(&format!("address-offset:{}", shift));
    let want = oracle_parse(bytes);
    let mut items: Vec<String> = Vec::new();
    let mut nontrivial = false;
    // open through the three views
    let mut opened = Vec::new();
    for view in [View::Mut, View::Borrowed, View::Owned] {
        let r = open_view(buf, view);
        if r.is_panic() {
            rep.violate("open-panic", "opening arbitrary bytes as TLV state panicked",
                serde_json::json!({"bytes": emit::hex(bytes), "view": format!("{:?}", view)}).to_string());
        }
        if r.is_ok() != want.is_some() && !r.is_panic() {
            rep.violate("accept-mismatch", "acceptance differs from the format (entries then end | <8 zero bytes | zero tag)",
                serde_json::json!({"bytes": emit::hex(bytes), "view": format!("{:?}", view), "opened": r.is_ok(), "format_says": want.is_some()}).to_string());
        }
        opened.push(r.clone());
        if to_coq && (view == View::Mut || rng.chance(1, 4)) {
            items.push(format!("IOpen {}", r.emit(|_| "tt".to_string())));
        }
    }
    rep.count(if want.is_some() { "parse:accepted" } else { "parse:rejected" });
    if &buf[..] != bytes {
        rep.violate("open-mutates", "opening changed the bytes", serde_json::json!({"bytes": emit::hex(bytes)}).to_string());
    }
    if let Some(es) = &want {
        if !es.is_empty() {
            nontrivial = true;
            rep.count("parse:accepted-nonempty");
        }
        let view = *rng.pick(&[View::Mut, View::Borrowed, View::Owned]);
        let ds = discs_view(buf, view);
        let wd: Vec<[u8; 8]> = es.iter().map(|e| e.0).collect();
        if ds != Res::Ok(wd) {
            rep.violate("discs-mismatch", "listed types are not exactly the entries in order",
                serde_json::json!({"bytes": emit::hex(bytes), "listed": format!("{:?}", ds)}).to_string());
        }
        if to_coq {
            items.push(format!("IDiscs {}", ds.emit(|d| emit::list(&d.iter().map(emit_raw_tag).collect::<Vec<_>>()))));
        }
        // every (tag, repetition) query, through a view
        for t in 0..NTAGS {
            let mine: Vec<&([u8; 8], usize, usize)> = es.iter().filter(|e| e.0 == TAGS[t]).collect();
            // repetition numbers that wrap to an existing entry in a narrower counter must fail
            for base in 0..mine.len().min(3) {
                for wrap in [256usize, 65_536, 1usize << 32, (1usize << 32) + 256] {
                    let view = *rng.pick(&[View::Mut, View::Borrowed, View::Owned]);
                    let r = base + wrap;
                    let g = get_bytes_view(buf, t, r, view);
                    if !g.is_err() {
                        rep.violate("lookup-mismatch", "a lookup with a repetition number beyond the entries of the type succeeded (counter wrapped?)",
                            serde_json::json!({"bytes": emit::hex(bytes), "tag": t, "rep": r, "view": format!("{:?}", view), "observed": format!("{:?}", g)}).to_string());
                    }
                    if to_coq && wrap >= 65_536 {
                        items.push(format!("IGet {} {} {}", emit_tag(t), r, g.emit(|(off, v)| format!("({}, {}, {})", off, v.len(), cksum(v)))));
                    }
                }
            }
            let _ = usize::MAX;
            for r in 0..=mine.len() + 1 {
                let view = *rng.pick(&[View::Mut, View::Borrowed, View::Owned]);
                let g = get_bytes_view(buf, t, r, view);
                let ok = match (mine.get(r), &g) {
                    (Some(e), Res::Ok((off, v))) => *off == e.1 && v[..] == bytes[e.1..e.1 + e.2],
                    (None, Res::Err(_)) => true,
                    _ => false,
                };
                if !ok {
                    rep.violate("lookup-mismatch", "lookup does not return the n-th entry of the type at its true offset (or fails to fail)",
                        serde_json::json!({"bytes": emit::hex(bytes), "tag": t, "rep": r, "view": format!("{:?}", view), "observed": format!("{:?}", g)}).to_string());
                }
                if to_coq && (r <= mine.len() || rng.chance(1, 3)) {
                    items.push(format!("IGet {} {} {}", emit_tag(t), r, g.emit(|(off, v)| format!("({}, {}, {})", off, v.len(), cksum(v)))));
                }
                // fixed-size lookups: sizes around the entry's length
                let cur = mine.get(r).map(|e| e.2).unwrap_or(1);
                for size in TYPED_SIZES {
                    if size == cur || rng.chance(1, 6) {
                        let gt = get_typed_view(buf, t, r, size, view);
                        let ok = match (mine.get(r), &gt) {
                            (Some(e), Res::Ok((off, v))) => e.2 == size && *off == e.1 && v[..] == bytes[e.1..e.1 + e.2],
                            (Some(e), Res::Err(_)) => e.2 != size,
                            (None, Res::Err(_)) => true,
                            _ => false,
                        };
                        if !ok {
                            rep.violate("typed-lookup-mismatch", "fixed-size lookup succeeds iff the entry exists and its size equals the type's",
                                serde_json::json!({"bytes": emit::hex(bytes), "tag": t, "rep": r, "size": size, "observed": format!("{:?}", gt)}).to_string());
                        }
                        if to_coq {
                            items.push(format!("IGetT {} {} {} {}", emit_tag(t), r, size, gt.emit(|(off, _)| format!("{}", off))));
                        }
                    }
                }
            }
        }
    } else if to_coq {
        // rejected buffers cannot be opened, so lookups are unreachable through the API
    }
    if to_coq {
        let term = format!("CHist {} [\n  {}\n ] {}", emit::blob(bytes), items.join(";\n  "), emit::blob(&buf));
        rep.case(term, nontrivial);
    } else {
        use std::hash::{Hash, Hasher};
        let mut h = std::collections::hash_map::DefaultHasher::new();
        bytes.hash(&mut h);
        rep.monitor_case(h.finish(), nontrivial);
    }
}

/// large inputs (monitor only, linear checks): thousands of entries, entries longer than 2^16 / 2^24
/// bytes, every terminator shape behind them
pub fn run_big(rep: &mut Report, rng: &mut Rng) {
    let mut cases: Vec<Vec<(usize, usize)>> = Vec::new(); // (tag index, value length) lists
    for count in [257usize, 1100, 4200, 66_000] {
        cases.push((0..count).map(|i| (if i % 89 == 3 { 1 } else { 0 }, i % 2)).collect());
    }
    for l in [65_535usize, 65_536, 65_537, (1 << 24) - 1, 1 << 24, (1 << 24) + 1, 10 * 1024 * 1024 + 1] {
        cases.push(vec![(2, 3), (0, l), (1, 1), (0, 2)]);
    }
    for es in cases {
        let mut bytes: Vec<u8> = Vec::new();
        let mut offs: Vec<usize> = Vec::new();
        for (t, l) in &es {
            bytes.extend_from_slice(&TAGS[*t]);
            bytes.extend_from_slice(&(*l as u32).to_le_bytes());
            offs.push(bytes.len());
            let start = bytes.len();
            bytes.resize(start + l, 0);
            for (j, b) in bytes[start..].iter_mut().enumerate().take(64) {
                *b = (j as u8) ^ 0x5c;
            }
        }
        for tail in 0..4usize {
            let mut b = bytes.clone();
            let (accept, nlisted) = match tail {
                0 => (true, es.len()),
                1 => { b.extend_from_slice(&[0u8; 5]); (true, es.len()) }
                2 => { b.extend_from_slice(&[0u8; 8]); b.extend_from_slice(&[7u8; 9]); (true, es.len()) }
                _ => { b.extend_from_slice(&[0, 0, 0, 9, 0]); (false, 0) }
            };
            let shifted_store = emit::Shifted::new(&b, rng.below(8) as usize);
            let mut copy = shifted_store;
            let buf = copy.bytes_mut();
            rep.count("parse:large");
            rep.monitor_runs += 1;
            let det = |what: &str| serde_json::json!({"what": what, "entries": es.len(), "first_entries": format!("{:?}", &es[..es.len().min(6)]), "tail_shape": tail, "total_len": b.len()}).to_string();
            for view in [View::Mut, View::Borrowed, View::Owned] {
                let r = open_view(buf, view);
                if r.is_panic() || (r.is_ok() != accept) {
                    rep.violate("accept-mismatch:large", "acceptance of a large input differs from the format", det(&format!("open {:?}: {:?}", view, r.kind())));
                }
                if !accept {
                    continue;
                }
                let ds = discs_view(buf, view);
                if !matches!(&ds, Res::Ok(d) if d.len() == nlisted && d.iter().zip(es.iter()).all(|(x, (t, _))| *x == TAGS[*t])) {
                    rep.violate("listing:large", "listed types of a large input are not the entries in order", det(&format!("{:?}", view)));
                }
                // sampled lookups: offset and length of the n-th entry of its type; one past the last repetition fails
                let mut cnt = [0usize; 8];
                let mut reps = Vec::with_capacity(es.len());
                for (t, _) in &es {
                    reps.push(cnt[*t]);
                    cnt[*t] += 1;
                }
                let ne = es.len();
                let mut sample = vec![0usize, 1, 2, 3, 254, 255, 256, 257, 1023, 1024, 1025, 4095, 4096, 65_535, 65_536, ne - 1];
                sample.retain(|i| *i < ne);
                for i in sample {
                    let (t, l) = es[i];
                    let g = get_bytes_view(buf, t, reps[i], view);
                    if !matches!(&g, Res::Ok((o, v)) if *o == offs[i] && v.len() == l && v.iter().take(64).enumerate().all(|(j, x)| *x == (j as u8) ^ 0x5c)) {
                        rep.violate("lookup:large", "lookup in a large input does not return the n-th entry of the type at its true offset", det(&format!("{:?} entry {} tag {} rep {}", view, i, t, reps[i])));
                    }
                }
                for t in 0..3usize {
                    if !get_bytes_view(buf, t, cnt[t], view).is_err() {
                        rep.violate("lookup:large", "a lookup one past the last repetition succeeded", det(&format!("{:?} tag {}", view, t)));
                    }
                }
            }
        }
    }
}

pub fn run(ctx: &Ctx) -> Report {
    let mut rep = Report::new("C02");
    rep.corr_module = "Tlv".into();
    rep.expect_classes(&["parse:accepted", "parse:rejected", "parse:accepted-nonempty", "parse:large", "address-offset:5", "override-slice-constant", "same-object:refilled-hole"]);
    let mut rng = Rng::new(ctx.seed.wrapping_mul(77).wrapping_add(2));
    // corpus: the shapes named by the property
    let e1: Vec<u8> = [&TAGS[0][..], &[3, 0, 0, 0], &[9, 8, 7]].concat();
    let mut corpus: Vec<Vec<u8>> = vec![vec![], e1.clone()];
    for k in 1..=12 {
        corpus.push([&e1[..], &vec![0u8; k][..]].concat());
        let mut g = [&e1[..], &vec![0u8; k][..]].concat();
        *g.last_mut().unwrap() = 5;
        corpus.push(g);
    }
    for cut in 0..e1.len() {
        corpus.push(e1[..cut].to_vec());
    }
    corpus.push([&TAGS[0][..], &[0xff, 0xff, 0xff, 0xff], &[0u8; 4]].concat());
    corpus.push([&e1[..], &[0u8; 8], &[1, 2, 3, 4, 5, 6, 7, 8, 9, 10, 11, 12, 13]].concat());
    corpus.push([&e1[..], &e1[..], &TAGS[1][..], &[0, 0, 0, 0], &e1[..]].concat());
    for b in &corpus {
        run_one(&mut rep, &mut rng, b, true);
    }
    run_big(&mut rep, &mut rng);
    // lookups must use the type's 8-byte tag even if the type overrides the defaulted slice constant;
    // lookups through a state object that has just re-created a header in front of stale entries
    crate::tlv::override_slice_scenario(&mut rep);
    for k in 0..ctx.scale(600, 6000) {
        crate::tlv::same_object_scenario(&mut rep, "C02", &mut rng, k % 2 == 0, false);
    }
    if ctx.tier_thorough {
        // all strings of length <= 2 and all single-byte mutations of a 3-entry slab
        for a in 0..=255u8 {
            run_one(&mut rep, &mut rng, &[a], false);
            for b in 0..=255u8 {
                run_one(&mut rep, &mut rng, &[a, b], false);
            }
        }
        let slab: Vec<u8> = [&e1[..], &TAGS[1][..], &[1, 0, 0, 0, 42], &TAGS[0][..], &[0, 0, 0, 0], &[0u8; 5]].concat();
        for i in 0..slab.len() {
            for v in 0..=255u8 {
                let mut m = slab.clone();
                m[i] = v;
                run_one(&mut rep, &mut rng, &m, false);
            }
        }
        rep.exhaustive.push("all byte strings of length <= 2 and all single-byte mutations of a 3-entry slab (implementation vs independent parser)".into());
    }
    let n_coq = ctx.scale(1500, 20000);
    for _ in 0..n_coq {
        let b = gen_bytes(&mut rng);
        run_one(&mut rep, &mut rng, &b, true);
    }
    let n_mon = ctx.scale(100_000, 1_500_000);
    for _ in 0..n_mon {
        let b = gen_bytes(&mut rng);
        run_one(&mut rep, &mut rng, &b, false);
    }
    rep
}
