//! C11 — seed and key-data address configs round-trip canonically within 32 bytes.
use crate::emit::{self, catch, Report, Res};
use crate::prng::Rng;
use crate::Ctx;
use spl_tlv_account_resolution::{pubkey_data::PubkeyData, seeds::Seed};

pub fn emit_seed(s: &Seed) -> String {
    match s {
        Seed::Uninitialized => "SUninit".into(),
        Seed::Literal { bytes } => format!("(SLiteral {})", emit::blob(bytes)),
        Seed::InstructionData { index, length } => {
            format!("(SIxData {} {})", emit::byte(*index), emit::byte(*length))
        }
        Seed::AccountKey { index } => format!("(SAcctKey {})", emit::byte(*index)),
        Seed::AccountData {
            account_index,
            data_index,
            length,
        } => format!(
            "(SAcctData {} {} {})",
            emit::byte(*account_index),
            emit::byte(*data_index),
            emit::byte(*length)
        ),
    }
}
pub fn emit_seeds(ss: &[Seed]) -> String {
    emit::list(&ss.iter().map(emit_seed).collect::<Vec<_>>())
}
fn emit_kd(k: &PubkeyData) -> String {
    match k {
        PubkeyData::Uninitialized => "KUninit".into(),
        PubkeyData::InstructionData { index } => format!("(KIxData {})", emit::byte(*index)),
        PubkeyData::AccountData {
            account_index,
            data_index,
        } => format!(
            "(KAcctData {} {})",
            emit::byte(*account_index),
            emit::byte(*data_index)
        ),
    }
}

/// mathematical packed size (the property's table), independent of `tlv_size`
fn math_size(s: &Seed) -> usize {
    match s {
        Seed::Uninitialized => 0,
        Seed::Literal { bytes } => 2 + bytes.len(),
        Seed::InstructionData { .. } => 3,
        Seed::AccountKey { .. } => 2,
        Seed::AccountData { .. } => 4,
    }
}
/// independent encoder: None when the property says packing must fail
fn oracle_pack(ss: &[Seed]) -> Option<[u8; 32]> {
    let mut out = Vec::new();
    for s in ss {
        match s {
            Seed::Uninitialized => return None,
            Seed::Literal { bytes } => {
                if bytes.len() > 30 {
                    return None;
                }
                out.push(1);
                out.push(bytes.len() as u8);
                out.extend_from_slice(bytes);
            }
            Seed::InstructionData { index, length } => out.extend_from_slice(&[2, *index, *length]),
            Seed::AccountKey { index } => out.extend_from_slice(&[3, *index]),
            Seed::AccountData {
                account_index,
                data_index,
                length,
            } => out.extend_from_slice(&[4, *account_index, *data_index, *length]),
        }
        if out.len() > 32 {
            return None;
        }
    }
    let mut a = [0u8; 32];
    a[..out.len()].copy_from_slice(&out);
    Some(a)
}

fn gen_literal_len(rng: &mut Rng) -> usize {
    match rng.below(20) {
        0..=7 => rng.below(7) as usize,
        8..=10 => rng.range(7, 33) as usize,
        11 => *rng.pick(&[28usize, 29, 30, 31, 32, 33]),
        12..=14 => rng.range(250, 290) as usize,
        15 => *rng.pick(&[253usize, 254, 255, 256, 257, 258, 286, 287]),
        16 => rng.range(34, 300) as usize,
        17 => rng.range(510, 520) as usize,
        _ => rng.below(31) as usize,
    }
}
pub fn gen_seed(rng: &mut Rng, allow_uninit: bool) -> Seed {
    match rng.below(if allow_uninit { 21 } else { 20 }) {
        0..=5 => {
            let n = gen_literal_len(rng);
            Seed::Literal {
                bytes: if rng.chance(1, 8) {
                    vec![0; n]
                } else if rng.chance(1, 4) {
                    // literal content that looks like seed configs itself (kind bytes 0..4, small operands)
                    (0..n).map(|_| rng.below(5) as u8).collect()
                } else {
                    rng.bytes(n)
                },
            }
        }
        6..=10 => Seed::InstructionData {
            index: rng.edge_byte(),
            length: rng.edge_byte(),
        },
        11..=15 => Seed::AccountKey {
            index: rng.edge_byte(),
        },
        16..=19 => Seed::AccountData {
            account_index: rng.edge_byte(),
            data_index: rng.edge_byte(),
            length: rng.edge_byte(),
        },
        _ => Seed::Uninitialized,
    }
}
/// a list whose mathematical total is steered to `target` when possible
fn gen_list_total(rng: &mut Rng, target: usize) -> Vec<Seed> {
    let mut ss = Vec::new();
    let mut total = 0usize;
    loop {
        let rem = target.saturating_sub(total);
        if rem < 2 {
            break;
        }
        let s = match rng.below(4) {
            0 if rem >= 3 => Seed::InstructionData {
                index: rng.byte(),
                length: rng.byte(),
            },
            1 => Seed::AccountKey { index: rng.byte() },
            2 if rem >= 4 => Seed::AccountData {
                account_index: rng.byte(),
                data_index: rng.byte(),
                length: rng.byte(),
            },
            _ => {
                let n = if rem == 3 || rng.chance(1, 3) {
                    rem - 2
                } else {
                    rng.below((rem - 1) as u64) as usize
                };
                Seed::Literal {
                    bytes: if rng.chance(1, 4) { (0..n.min(rem - 2)).map(|_| rng.below(5) as u8).collect() } else { rng.bytes(n.min(rem - 2)) },
                }
            }
        };
        total += math_size(&s);
        ss.push(s);
        if total == target || total + 1 == target {
            break;
        }
    }
    ss
}
pub fn gen_seed_list(rng: &mut Rng) -> Vec<Seed> {
    match rng.below(12) {
        0 => vec![],
        1..=3 => {
            let t = *rng.pick(&[30usize, 31, 32, 33, 34, 35]);
            gen_list_total(rng, t)
        }
        4 => {
            // 16 or 15 or 17 account-key seeds (16 pack into exactly 32 bytes)
            let k = *rng.pick(&[15usize, 16, 17]);
            (0..k).map(|_| Seed::AccountKey { index: rng.byte() }).collect()
        }
        5 => {
            let t = rng.range(2, 40) as usize;
            gen_list_total(rng, t)
        }
        _ => {
            let k = rng.range(1, 6) as usize;
            (0..k).map(|_| gen_seed(rng, true)).collect()
        }
    }
}

fn monitor_pack(rep: &mut Report, ss: &[Seed], r: &Res<[u8; 32]>) {
    let want = oracle_pack(ss);
    let detail = || {
        serde_json::json!({"op":"pack_into_address_config","seeds":format!("{:?}", ss),
            "observed": format!("{:?}", r), "expected": format!("{:?}", want)})
        .to_string()
    };
    match (r, &want) {
        (Res::Panic(_), _) => rep.violate("pack-panic", "Seed::pack_into_address_config panicked", detail()),
        (Res::Ok(a), Some(w)) if a == w => {
            let back = catch(|| Seed::unpack_address_config(a));
            if back != Res::Ok(ss.to_vec()) {
                rep.violate(
                    "roundtrip",
                    "unpack(pack(seeds)) != seeds",
                    serde_json::json!({"seeds":format!("{:?}", ss),"packed":emit::hex(a),"unpacked":format!("{:?}",back)}).to_string(),
                );
            }
        }
        (Res::Err(_), None) => {}
        _ => rep.violate("pack-wrong", "pack result differs from the size rule / canonical encoding", detail()),
    }
}

fn monitor_unpack(rep: &mut Report, cfg: &[u8; 32], r: &Res<Vec<Seed>>) {
    match r {
        Res::Panic(_) => rep.violate(
            "unpack-panic",
            "Seed::unpack_address_config panicked",
            serde_json::json!({"config":emit::hex(cfg)}).to_string(),
        ),
        Res::Ok(ss) => {
            let k: usize = ss.iter().map(math_size).sum();
            let re = catch(|| Seed::pack_into_address_config(ss));
            let mut want = [0u8; 32];
            if k <= 32 {
                want[..k].copy_from_slice(&cfg[..k]);
            }
            if k > 32 || re != Res::Ok(want) {
                rep.violate(
                    "repack",
                    "pack(unpack(config)) != consumed prefix ++ zeros",
                    serde_json::json!({"config":emit::hex(cfg),"unpacked":format!("{:?}",ss),"repacked":format!("{:?}",re)}).to_string(),
                );
            }
        }
        Res::Err(_) => {}
    }
}

fn run_pack(rep: &mut Report, ss: &[Seed], to_coq: bool) {
    let r = catch(|| Seed::pack_into_address_config(ss));
    rep.count(&format!("pack:{}", r.kind()));
    if ss.iter().any(|s| matches!(s, Seed::Literal{bytes} if bytes.len() >= 254)) {
        rep.count("pack:literal>=254");
    }
    let total: usize = ss.iter().map(math_size).sum();
    if total == 32 {
        rep.count("pack:total=32");
    }
    if total == 33 {
        rep.count("pack:total=33");
    }
    monitor_pack(rep, ss, &r);
    if to_coq {
        rep.case(
            format!("CPack {} {}", emit_seeds(ss), r.emit(|a| emit::blob(a))),
            !ss.is_empty(),
        );
    } else {
        rep.monitor_case(0, false);
    }
}

fn run_pack_one(rep: &mut Report, s: &Seed, dst_len: usize, fill: u8) {
    let mut dst = vec![fill; dst_len];
    let before = dst.clone();
    let r = catch(|| s.pack(&mut dst)).map(|_| dst.clone());
    rep.count(&format!("pack_one:{}", r.kind()));
    if r.is_panic() {
        rep.violate(
            "pack-panic",
            "Seed::pack panicked",
            serde_json::json!({"seed":format!("{:?}",s),"dst_len":dst_len}).to_string(),
        );
    }
    rep.case(
        format!("CPackOne {} {} {}", emit_seed(s), emit::blob(&before), r.emit(|d| emit::blob(d))),
        r.is_ok(),
    );
}

fn run_unpack(rep: &mut Report, cfg: &[u8; 32], to_coq: bool) {
    // the config is read from a varying offset from an aligned address
    static SHIFT: std::sync::atomic::AtomicUsize = std::sync::atomic::AtomicUsize::new(0);
    let shifted = emit::Shifted::new(cfg, SHIFT.fetch_add(1, std::sync::atomic::Ordering::Relaxed));
    let cfg: &[u8; 32] = shifted.bytes().try_into().unwrap();
    let r = catch(|| Seed::unpack_address_config(cfg));
    rep.count(&format!("unpack:{}", r.kind()));
    monitor_unpack(rep, cfg, &r);
    if to_coq {
        let nt = matches!(&r, Res::Ok(v) if !v.is_empty());
        rep.case(format!("CUnpack {} {}", emit::blob(cfg), r.emit(|v| emit_seeds(v))), nt);
    } else {
        rep.monitor_case(0, false);
    }
}

fn structured_config(rng: &mut Rng) -> [u8; 32] {
    let mut cfg = [0u8; 32];
    match rng.below(6) {
        0 => {
            cfg.copy_from_slice(&rng.bytes(32));
        }
        1 => {
            // small discriminators everywhere
            for b in cfg.iter_mut() {
                *b = rng.below(6) as u8;
            }
        }
        _ => {
            let t = rng.range(0, 34) as usize;
            let ss = gen_list_total(rng, t);
            if let Some(a) = oracle_pack(&ss) {
                cfg = a;
            }
            let used: usize = ss.iter().map(math_size).sum::<usize>().min(32);
            match rng.below(5) {
                0 => {
                    // garbage after the terminator
                    if used + 1 < 32 {
                        for b in cfg[used + 1..].iter_mut() {
                            *b = rng.byte();
                        }
                    }
                }
                1 => {
                    // one mutated byte
                    let i = rng.below(32) as usize;
                    cfg[i] = rng.edge_byte();
                }
                2 => {
                    // a literal whose length reaches exactly / one past the end
                    if used + 2 <= 32 {
                        cfg[used] = 1;
                        let room = 32 - used - 2;
                        cfg[used + 1] = (room as u8).wrapping_add(rng.below(3) as u8).wrapping_sub(1);
                        for b in cfg[used + 2..].iter_mut() {
                            *b = rng.byte();
                        }
                    }
                }
                3 => {
                    // truncated seed at the very end
                    let i = 32 - 1 - rng.below(3) as usize;
                    cfg[i] = rng.range(1, 5) as u8;
                }
                _ => {}
            }
        }
    }
    cfg
}

pub fn run(ctx: &Ctx) -> Report {
    let mut rep = Report::new("C11");
    rep.expect_classes(&[
        "pack:ok", "pack:err", "pack:literal>=254", "pack:total=32", "pack:total=33",
        "unpack:ok", "unpack:err", "pack_one:ok", "pack_one:err", "kd_pack:ok", "kd_pack:err",
        "kd_unpack:ok", "kd_unpack:err", "unpack_one:ok", "unpack_one:err",
    ]);
    let mut rng = Rng::new(ctx.seed);

    // corpus: boundary cases named by the property
    for n in [0usize, 1, 29, 30, 31, 32, 33, 36, 253, 254, 255, 256, 257, 258, 285, 286, 287, 300, 510, 512] {
        run_pack(&mut rep, &[Seed::Literal { bytes: vec![7; n] }], true);
        run_pack(
            &mut rep,
            &[Seed::AccountKey { index: 1 }, Seed::Literal { bytes: vec![9; n] }],
            true,
        );
        let s = Seed::Literal { bytes: vec![3; n] };
        for dl in [n + 2, (n + 2) & 0xff, ((n as u8).wrapping_add(2)) as usize, 255, 0, 1, 2] {
            run_pack_one(&mut rep, &s, dl, 0xaa);
        }
    }
    run_pack(&mut rep, &[Seed::Uninitialized], true);
    run_pack(&mut rep, &[Seed::AccountKey { index: 0 }, Seed::Uninitialized], true);
    run_pack(&mut rep, &(0..16).map(|i| Seed::AccountKey { index: i }).collect::<Vec<_>>(), true);
    run_pack(&mut rep, &(0..17).map(|i| Seed::AccountKey { index: i }).collect::<Vec<_>>(), true);
    run_unpack(&mut rep, &[0u8; 32], true);
    run_unpack(&mut rep, &[3u8; 32], true);
    run_unpack(&mut rep, &[1u8; 32], true);

    // every literal length 0..=300 through the monitor (impl only); 250..=290 also to Coq
    for n in 0..=300usize {
        run_pack(&mut rep, &[Seed::Literal { bytes: vec![n as u8; n] }], (250..=290).contains(&n));
    }

    let n_pack = ctx.scale(1200, 12000);
    for _ in 0..n_pack {
        let ss = gen_seed_list(&mut rng);
        run_pack(&mut rep, &ss, true);
    }
    let n_one = ctx.scale(500, 5000);
    for _ in 0..n_one {
        let s = gen_seed(&mut rng, true);
        let sz = math_size(&s);
        let dl = match rng.below(6) {
            0 => sz + 1,
            1 => sz.saturating_sub(1),
            2 => rng.below(40) as usize,
            3 => sz & 0xff,
            _ => sz,
        };
        run_pack_one(&mut rep, &s, dl, rng.byte());
    }
    let n_unpack = ctx.scale(1500, 15000);
    for _ in 0..n_unpack {
        let cfg = structured_config(&mut rng);
        run_unpack(&mut rep, &cfg, true);
    }
    // a config cut off by the end of the 32 bytes: seeds filling exactly 31 / 30 / 29 bytes followed by a
    // lone kind byte (1..4) or a header without room for its operands
    for _ in 0..ctx.scale(300, 3000) {
        let used = *rng.pick(&[31usize, 31, 30, 29, 28]);
        let ss = gen_list_total(&mut rng, used);
        if let Ok(mut cfg) = Seed::pack_into_address_config(&ss) {
            let total: usize = ss.iter().map(|s| math_size(s)).sum();
            if total <= 31 {
                for (k, x) in cfg[total..].iter_mut().enumerate() {
                    *x = if k == 0 { rng.range(1, 4) as u8 } else { *rng.pick(&[0u8, 1, 2, 40]) };
                }
                rep.count("unpack:cut-off-at-the-end");
                run_unpack(&mut rep, &cfg, true);
            }
        }
    }
    // Seed::unpack on arbitrary short slices
    let n_uone = ctx.scale(400, 4000);
    for _ in 0..n_uone {
        let l = rng.below(8) as usize;
        let mut b = rng.bytes(l);
        if l > 0 {
            b[0] = rng.below(7) as u8;
        }
        if l > 1 && rng.chance(1, 2) {
            b[1] = rng.below(8) as u8;
        }
        let r = catch(|| Seed::unpack(&b));
        rep.count(&format!("unpack_one:{}", r.kind()));
        if r.is_panic() {
            rep.violate("unpack-panic", "Seed::unpack panicked", serde_json::json!({"bytes":emit::hex(&b)}).to_string());
        }
        rep.case(format!("CUnpackOne {} {}", emit::blob(&b), r.emit(emit_seed)), r.is_ok());
    }
    // monitor-only volume
    let n_mon = ctx.scale(100_000, 1_500_000);
    for _ in 0..n_mon {
        if rng.chance(1, 2) {
            let ss = gen_seed_list(&mut rng);
            run_pack(&mut rep, &ss, false);
        } else {
            let cfg = structured_config(&mut rng);
            run_unpack(&mut rep, &cfg, false);
        }
    }

    // key-data configs: exhaustive on the implementation (2*256 + 256*256 configs and
    // all their byte prefixes), a sample of them through the model
    let mut kd_all: Vec<PubkeyData> = vec![PubkeyData::Uninitialized];
    for i in 0..=255u8 {
        kd_all.push(PubkeyData::InstructionData { index: i });
    }
    for a in 0..=255u8 {
        for d in 0..=255u8 {
            kd_all.push(PubkeyData::AccountData {
                account_index: a,
                data_index: d,
            });
        }
    }
    let stride = ctx.scale(173, 17);
    for (idx, k) in kd_all.iter().enumerate() {
        let r = catch(|| PubkeyData::pack_into_address_config(k));
        rep.count(&format!("kd_pack:{}", r.kind()));
        // monitor: Ok iff initialised; bytes canonical; unpack inverse; prefixes total
        let want: Option<[u8; 32]> = match k {
            PubkeyData::Uninitialized => None,
            PubkeyData::InstructionData { index } => {
                let mut a = [0u8; 32];
                a[0] = 1;
                a[1] = *index;
                Some(a)
            }
            PubkeyData::AccountData {
                account_index,
                data_index,
            } => {
                let mut a = [0u8; 32];
                a[0] = 2;
                a[1] = *account_index;
                a[2] = *data_index;
                Some(a)
            }
        };
        let ok = match (&r, &want) {
            (Res::Ok(a), Some(w)) => a == w,
            (Res::Err(_), None) => true,
            _ => false,
        };
        if !ok {
            rep.violate(
                "kd-pack",
                "PubkeyData::pack_into_address_config differs from the canonical encoding",
                serde_json::json!({"config":format!("{:?}",k),"observed":format!("{:?}",r)}).to_string(),
            );
        }
        if let Res::Ok(a) = &r {
            for plen in 0..=4usize {
                let u = catch(|| PubkeyData::unpack(&a[..plen]));
                let sz = match k {
                    PubkeyData::InstructionData { .. } => 2,
                    _ => 3,
                };
                let good = if plen >= sz {
                    u == Res::Ok(k.clone())
                } else if plen == 0 {
                    u.is_err()
                } else {
                    u.is_err()
                };
                if !good {
                    rep.violate(
                        "kd-unpack",
                        "PubkeyData::unpack of a prefix of a packed config is wrong",
                        serde_json::json!({"config":format!("{:?}",k),"prefix_len":plen,"observed":format!("{:?}",u)}).to_string(),
                    );
                }
            }
            let u = catch(|| PubkeyData::unpack(a));
            if u != Res::Ok(k.clone()) {
                rep.violate("kd-roundtrip", "unpack(pack(k)) != k", serde_json::json!({"config":format!("{:?}",k)}).to_string());
            }
        }
        rep.monitor_case(idx as u64, true);
        if idx % stride == 0 || idx < 3 {
            rep.case(format!("CKdPack {} {}", emit_kd(k), r.emit(|a| emit::blob(a))), r.is_ok());
        }
    }
    rep.exhaustive.push("key-data configs: all 1+256+65536 configs packed, unpacked and unpacked from prefixes 0..4 on the implementation".into());
    let n_kd = ctx.scale(400, 4000);
    for _ in 0..n_kd {
        let l = rng.below(6) as usize;
        let mut b = rng.bytes(l);
        if l > 0 {
            b[0] = rng.below(4) as u8;
        }
        let r = catch(|| PubkeyData::unpack(&b));
        rep.count(&format!("kd_unpack:{}", r.kind()));
        if r.is_panic() {
            rep.violate("kd-unpack-panic", "PubkeyData::unpack panicked", serde_json::json!({"bytes":emit::hex(&b)}).to_string());
        }
        // re-pack law for initialised configs
        if let Res::Ok(k) = &r {
            if *k != PubkeyData::Uninitialized {
                let p = catch(|| PubkeyData::pack_into_address_config(k));
                let sz = k.tlv_size() as usize;
                let mut want = [0u8; 32];
                want[..sz].copy_from_slice(&b[..sz]);
                if p != Res::Ok(want) {
                    rep.violate("kd-repack", "pack(unpack(b)) != prefix ++ zeros", serde_json::json!({"bytes":emit::hex(&b)}).to_string());
                }
            }
        }
        rep.case(format!("CKdUnpack {} {}", emit::blob(&b), r.emit(emit_kd)), r.is_ok());
        // pack into a destination of arbitrary length
        let k = match rng.below(3) {
            0 => PubkeyData::Uninitialized,
            1 => PubkeyData::InstructionData { index: rng.byte() },
            _ => PubkeyData::AccountData {
                account_index: rng.byte(),
                data_index: rng.byte(),
            },
        };
        let dl = rng.below(5) as usize;
        let mut dst = vec![0x55u8; dl];
        let before = dst.clone();
        let r = catch(|| k.pack(&mut dst)).map(|_| dst.clone());
        if r.is_panic() {
            rep.violate("kd-pack-panic", "PubkeyData::pack panicked", serde_json::json!({"config":format!("{:?}",k),"dst_len":dl}).to_string());
        }
        rep.case(
            format!("CKdPackOne {} {} {}", emit_kd(&k), emit::blob(&before), r.emit(|d| emit::blob(d))),
            r.is_ok(),
        );
    }
    rep
}
