//! C13 — Pod integers / bool / byte casts; C14 — PodOption.
use crate::emit::{self, catch, catch_plain, Report, Res};
use crate::prng::Rng;
use crate::Ctx;
use solana_address::Address;
use solana_program_error::ProgramError;
use solana_program_option::COption;
use spl_pod::{
    bytemuck::{pod_bytes_of, pod_from_bytes, pod_from_bytes_mut, pod_get_packed_len, pod_maybe_from_bytes, pod_slice_from_bytes, pod_slice_from_bytes_mut, pod_slice_to_bytes},
    option::{Nullable, PodOption},
    primitives::{PodBool, PodI16, PodI64, PodU128, PodU16, PodU32, PodU64},
};

fn bytes_of<T: bytemuck::Pod>(t: &T) -> Vec<u8> {
    bytemuck::bytes_of(t).to_vec()
}

/// a writer / reader that legally moves one byte per call (a pipe, a socket, a chained reader)
pub struct Trickle(pub Vec<u8>, pub usize);
impl std::io::Write for Trickle {
    fn write(&mut self, buf: &[u8]) -> std::io::Result<usize> {
        if buf.is_empty() {
            return Ok(0);
        }
        self.0.push(buf[0]);
        Ok(1)
    }
    fn flush(&mut self) -> std::io::Result<()> {
        Ok(())
    }
}
impl std::io::Read for Trickle {
    fn read(&mut self, buf: &mut [u8]) -> std::io::Result<usize> {
        if buf.is_empty() || self.1 >= self.0.len() {
            return Ok(0);
        }
        buf[0] = self.0[self.1];
        self.1 += 1;
        Ok(1)
    }
}
pub fn borsh_trickle<T: borsh::BorshSerialize>(v: &T) -> Option<Vec<u8>> {
    let mut w = Trickle(Vec::new(), 0);
    v.serialize(&mut w).ok()?;
    Some(w.0)
}
pub fn borsh_untrickle<T: borsh::BorshDeserialize>(b: &[u8]) -> Option<T> {
    let mut r = Trickle(b.to_vec(), 0);
    T::deserialize_reader(&mut r).ok()
}
/// binary Serde formats whose integer encoding differs from a byte array's: bincode big-endian
/// fixed-width and little-endian varint
pub fn bincode_variants<T: serde::Serialize>(v: &T) -> (Vec<u8>, Vec<u8>) {
    use bincode::Options;
    (bincode::options().with_big_endian().with_fixint_encoding().serialize(v).unwrap(),
     bincode::options().with_little_endian().with_varint_encoding().serialize(v).unwrap())
}
pub fn bincode_be_back<T: serde::de::DeserializeOwned>(b: &[u8]) -> Option<T> {
    use bincode::Options;
    bincode::options().with_big_endian().with_fixint_encoding().deserialize(b).ok()
}

/// Serde deserialisation from sources that hand the integer over through another callback than the
/// type's own (an all-i64 or all-u64 format, `value.into_deserializer()`): the Pod type must accept
/// exactly what the primitive accepts
macro_rules! serde_callbacks {
    ($rep:expr, $pod:expr, $prim:expr, $P:ty, $X:ty, $name:expr) => {{
        use serde::de::{value::Error as VE, IntoDeserializer};
        use serde::Deserialize;
        macro_rules! via {
            ($W:ty) => {
                if let Ok(w) = <$W>::try_from($prim) {
                    let a: Result<$X, VE> = <$X>::deserialize(IntoDeserializer::<VE>::into_deserializer(w));
                    let b: Result<$P, VE> = <$P>::deserialize(IntoDeserializer::<VE>::into_deserializer(w));
                    if a.is_ok() != b.is_ok() || matches!((&a, &b), (Ok(x), Ok(y)) if <$P>::from(*x) != *y) {
                        $rep.violate("serde-callback", "Serde deserialisation through another integer callback differs from the primitive's",
                            serde_json::json!({"type": $name, "delivered_as": stringify!($W), "value": format!("{}", $prim), "primitive": format!("{:?}", a.is_ok()), "pod": format!("{:?}", b.is_ok())}).to_string());
                    }
                }
            };
        }
        via!(i64);
        via!(u64);
        via!(i32);
        via!(u32);
        via!(u8);
        via!(i8);
        via!(u16);
        via!(i16);
        let _ = &$pod;
    }};
}
/// Borsh containers of Pod values equal the containers of primitives (sequence fast paths)
macro_rules! borsh_containers {
    ($rep:expr, $pod:expr, $prim:expr, $P:ty, $X:ty, $name:expr) => {{
        let vp: Vec<$P> = vec![$pod, <$P>::from(0 as $X), $pod];
        let vx: Vec<$X> = vec![$prim, 0 as $X, $prim];
        let ap: [$P; 2] = [$pod, $pod];
        let ax: [$X; 2] = [$prim, $prim];
        let ok = borsh::to_vec(&vp).unwrap() == borsh::to_vec(&vx).unwrap()
            && borsh::to_vec(&ap).unwrap() == borsh::to_vec(&ax).unwrap()
            && borsh::to_vec(&vp[..]).unwrap() == borsh::to_vec(&vx[..]).unwrap()
            && borsh::from_slice::<Vec<$P>>(&borsh::to_vec(&vx).unwrap()).ok() == Some(vp.clone())
            && borsh::from_slice::<[$P; 2]>(&borsh::to_vec(&ax).unwrap()).ok() == Some(ap)
            && borsh_trickle(&vp) == Some(borsh::to_vec(&vx).unwrap());
        if !ok {
            $rep.violate("borsh-container", "a Borsh container (Vec, slice, array) of Pod values differs from the container of primitives",
                serde_json::json!({"type": $name, "value": format!("{}", $prim), "vec_of_pod": emit::hex(&borsh::to_vec(&vp).unwrap()), "vec_of_prim": emit::hex(&borsh::to_vec(&vx).unwrap())}).to_string());
        }
    }};
}

macro_rules! encodings_equal {
    ($rep:expr, $pod:expr, $prim:expr, $name:expr, borsh) => {{
        let a = borsh::to_vec(&$pod).unwrap();
        let b = borsh::to_vec(&$prim).unwrap();
        if borsh_trickle(&$pod) != Some(b.clone()) || borsh_untrickle(&b) != Some($pod) {
            $rep.violate("borsh-short-io", "Borsh through a writer / reader that moves one byte per call differs from the primitive's encoding",
                serde_json::json!({"type": $name, "prim": emit::hex(&b), "pod_written": borsh_trickle(&$pod).map(|x| emit::hex(&x))}).to_string());
        }
        if a != b {
            $rep.violate("borsh-encoding", "Borsh encoding of the Pod value differs from the primitive's",
                serde_json::json!({"type": $name, "pod": emit::hex(&a), "prim": emit::hex(&b)}).to_string());
        }
        let back = borsh::from_slice(&b).unwrap();
        if $pod != back {
            $rep.violate("borsh-decoding", "Borsh decoding of the primitive's encoding differs", serde_json::json!({"type": $name}).to_string());
        }
    }};
    ($rep:expr, $pod:expr, $prim:expr, $name:expr, serde) => {{
        let a = serde_json::to_string(&$pod).unwrap();
        let b = serde_json::to_string(&$prim).unwrap();
        if a != b {
            $rep.violate("serde-encoding", "Serde encoding of the Pod value differs from the primitive's",
                serde_json::json!({"type": $name, "pod": a, "prim": b}).to_string());
        }
        let back = serde_json::from_str(&b).unwrap();
        if $pod != back {
            $rep.violate("serde-decoding", "Serde decoding differs", serde_json::json!({"type": $name}).to_string());
        }
        // binary (non-human-readable) formats
        let (pa, pb) = (bincode_variants(&$pod), bincode_variants(&$prim));
        if pa != pb || bincode::serialize(&$pod).unwrap() != bincode::serialize(&$prim).unwrap() || bincode_be_back(&pb.0) != Some($pod) {
            $rep.violate("serde-binary-encoding", "Serde encoding in a binary format (bincode big-endian / varint / default) differs from the primitive's",
                serde_json::json!({"type": $name, "pod_be": emit::hex(&pa.0), "prim_be": emit::hex(&pb.0), "pod_varint": emit::hex(&pa.1), "prim_varint": emit::hex(&pb.1)}).to_string());
        }
    }};
    ($rep:expr, $pod:expr, $prim:expr, $name:expr, wincode) => {{
        let a = wincode::serialize(&$pod).unwrap();
        let b = wincode::serialize(&$prim).unwrap();
        if a != b {
            $rep.violate("wincode-encoding", "Wincode encoding of the Pod value differs from the primitive's",
                serde_json::json!({"type": $name, "pod": emit::hex(&a), "prim": emit::hex(&b)}).to_string());
        }
        let back = wincode::deserialize(&b).unwrap();
        if $pod != back {
            $rep.violate("wincode-decoding", "Wincode decoding differs", serde_json::json!({"type": $name}).to_string());
        }
    }};
}

fn interesting_u128(rng: &mut Rng, bits: u32) -> u128 {
    let max: u128 = if bits == 128 { u128::MAX } else { (1u128 << bits) - 1 };
    let v = match rng.below(10) {
        0 => 0,
        1 => 1,
        2 => max,
        3 => max - 1,
        4 => 1u128 << (bits - 1),
        5 => (1u128 << (bits - 1)) - 1,
        6 => 0x0102_0304_0506_0708_090a_0b0c_0d0e_0f10u128,
        7 => 1u128 << rng.below(bits as u64),
        _ => ((rng.next_u64() as u128) << 64) | rng.next_u64() as u128,
    };
    v & max
}

pub fn run_c13(ctx: &Ctx) -> Report {
    let mut rep = Report::new("C13");
    rep.corr_module = "Pod".into();
    rep.expect_classes(&["u16:exhaustive", "i16:exhaustive", "bool:exhaustive", "wide:u", "wide:i", "usize:fits", "usize:too-big", "cast:ok", "cast:err", "slice:ok", "slice:err"]);
    let mut rng = Rng::new(ctx.seed.wrapping_mul(173).wrapping_add(13));

    // ---- exhaustive 16-bit and bool
    let mut all_u16 = Vec::with_capacity(131072);
    let mut all_i16 = Vec::with_capacity(131072);
    let mut inv_i16 = Vec::with_capacity(131072);
    for x in 0..=u16::MAX {
        let p = PodU16::from(x);
        all_u16.extend_from_slice(&p.0);
        if u16::from(p) != x || bytes_of(&p) != x.to_le_bytes() || PodU16::from_primitive(x) != p {
            rep.violate("u16-roundtrip", "PodU16 conversion or memory bytes wrong", serde_json::json!({"x": x}).to_string());
        }
        encodings_equal!(rep, p, x, "PodU16", serde);
        if x % 97 == 0 || x > 65500 || x < 300 { serde_callbacks!(rep, p, x, PodU16, u16, "PodU16"); }
        encodings_equal!(rep, p, x, "PodU16", wincode);
        let i = (x as i32 - 32768) as i16;
        let pi = PodI16::from(i);
        all_i16.extend_from_slice(&pi.0);
        if i16::from(pi) != i || bytes_of(&pi) != i.to_le_bytes() {
            rep.violate("i16-roundtrip", "PodI16 conversion or memory bytes wrong", serde_json::json!({"x": i}).to_string());
        }
        encodings_equal!(rep, pi, i, "PodI16", serde);
        if i % 97 == 0 || i > 32700 || i < -32700 || (i > -300 && i < 300) { serde_callbacks!(rep, pi, i, PodI16, i16, "PodI16"); }
        encodings_equal!(rep, pi, i, "PodI16", wincode);
        let v = i16::from(PodI16(x.to_le_bytes()));
        inv_i16.extend_from_slice(&((v as i32 + 32768) as u16).to_le_bytes());
        rep.monitor_case(x as u64, true);
    }
    rep.count("u16:exhaustive");
    rep.count("i16:exhaustive");
    rep.case(format!("CU16All {}", emit::blob(&all_u16)), true);
    rep.case(format!("CI16All {}", emit::blob(&all_i16)), true);
    rep.case(format!("CI16Inv {}", emit::blob(&inv_i16)), true);
    let mut all_bool = Vec::new();
    for b in 0..=255u8 {
        let r = bool::from(PodBool(b));
        let r2: bool = (&PodBool(b)).into();
        let w = PodBool::from(r);
        let w2 = PodBool::from(&r);
        all_bool.push(w.0);
        if r != (b != 0) || r2 != r || w.0 > 1 || w2 != w || PodBool::from_bool(r) != w {
            rep.violate("bool", "PodBool: non-zero must read as true and booleans are written as 0/1", serde_json::json!({"byte": b}).to_string());
        }
        if let Res::Ok(p) = catch(|| pod_from_bytes::<PodBool>(&[b]).map(|p| *p)) {
            if bool::from(p) != (b != 0) {
                rep.violate("bool", "pod_from_bytes::<PodBool> reads the wrong truth value", serde_json::json!({"byte": b}).to_string());
            }
        } else {
            rep.violate("bool", "pod_from_bytes::<PodBool> failed on one byte", serde_json::json!({"byte": b}).to_string());
        }
        encodings_equal!(rep, w, r, "PodBool", serde);
        encodings_equal!(rep, w, r, "PodBool", wincode);
    }
    rep.count("bool:exhaustive");
    rep.case(format!("CBoolAll {}", emit::blob(&all_bool)), true);
    rep.exhaustive.push("all 65536 values of u16 and i16 in both directions, all 256 PodBool bytes".into());

    // ---- wider widths: boundary + random
    let nwide = ctx.scale(600, 6000);
    for _ in 0..nwide {
        let x32 = interesting_u128(&mut rng, 32) as u32;
        let p = PodU32::from(x32);
        if u32::from(p) != x32 || bytes_of(&p) != x32.to_le_bytes() {
            rep.violate("u32-roundtrip", "PodU32", serde_json::json!({"x": x32}).to_string());
        }
        encodings_equal!(rep, p, x32, "PodU32", borsh);
        encodings_equal!(rep, p, x32, "PodU32", serde);
        serde_callbacks!(rep, p, x32, PodU32, u32, "PodU32");
        borsh_containers!(rep, p, x32, PodU32, u32, "PodU32");
        encodings_equal!(rep, p, x32, "PodU32", wincode);
        rep.case(format!("CU 4 {} {}", x32, emit::blob(&p.0)), true);
        let x64 = interesting_u128(&mut rng, 64) as u64;
        let p = PodU64::from(x64);
        if u64::from(p) != x64 || bytes_of(&p) != x64.to_le_bytes() {
            rep.violate("u64-roundtrip", "PodU64", serde_json::json!({"x": x64}).to_string());
        }
        encodings_equal!(rep, p, x64, "PodU64", borsh);
        encodings_equal!(rep, p, x64, "PodU64", serde);
        serde_callbacks!(rep, p, x64, PodU64, u64, "PodU64");
        borsh_containers!(rep, p, x64, PodU64, u64, "PodU64");
        encodings_equal!(rep, p, x64, "PodU64", wincode);
        rep.case(format!("CU 8 {} {}", x64, emit::blob(&p.0)), true);
        let x128 = interesting_u128(&mut rng, 128);
        let p = PodU128::from(x128);
        if u128::from(p) != x128 || bytes_of(&p) != x128.to_le_bytes() {
            rep.violate("u128-roundtrip", "PodU128", serde_json::json!({"x": x128.to_string()}).to_string());
        }
        encodings_equal!(rep, p, x128, "PodU128", borsh);
        encodings_equal!(rep, p, x128, "PodU128", serde);
        serde_callbacks!(rep, p, x128, PodU128, u128, "PodU128");
        borsh_containers!(rep, p, x128, PodU128, u128, "PodU128");
        encodings_equal!(rep, p, x128, "PodU128", wincode);
        rep.case(format!("CU 16 {} {}", x128, emit::blob(&p.0)), true);
        rep.count("wide:u");
        let i64v = interesting_u128(&mut rng, 64) as u64 as i64;
        let p = PodI64::from(i64v);
        if i64::from(p) != i64v || bytes_of(&p) != i64v.to_le_bytes() {
            rep.violate("i64-roundtrip", "PodI64", serde_json::json!({"x": i64v}).to_string());
        }
        encodings_equal!(rep, p, i64v, "PodI64", serde);
        serde_callbacks!(rep, p, i64v, PodI64, i64, "PodI64");
        encodings_equal!(rep, p, i64v, "PodI64", wincode);
        rep.case(format!("CI 8 ({})%Z {}", i64v, emit::blob(&bytes_of(&p))), true);
        rep.count("wide:i");
    }
    // ---- usize conversions
    let candidates: Vec<usize> = vec![0, 1, 65534, 65535, 65536, 65537, (1usize << 32) - 1, 1usize << 32, (1usize << 32) + 1, usize::MAX - 1, usize::MAX, 1usize << 63];
    let nus = ctx.scale(200, 2000);
    for k in 0..(candidates.len() + nus) {
        let n = if k < candidates.len() { candidates[k] } else { interesting_u128(&mut rng, 64) as usize };
        macro_rules! one {
            ($P:ty, $w:expr, $max:expr) => {{
                let r = <$P>::try_from(n);
                let fits = (n as u128) <= ($max as u128);
                rep.count(if fits { "usize:fits" } else { "usize:too-big" });
                match &r {
                    Ok(p) => {
                        let back = catch_plain(|| usize::from(*p));
                        if !fits || back != Res::Ok(n) {
                            rep.violate("usize-conversion", "conversion from usize must succeed exactly when the value fits and then round-trip",
                                serde_json::json!({"type": stringify!($P), "n": n}).to_string());
                        }
                    }
                    Err(_) => {
                        if fits {
                            rep.violate("usize-conversion", "a value that fits was rejected", serde_json::json!({"type": stringify!($P), "n": n}).to_string());
                        }
                    }
                }
                rep.case(format!("CUsize {} {} {}", $w, n, emit::option(r.ok().map(|p| emit::blob(&bytes_of(&p))))), true);
            }};
        }
        one!(PodU16, 2, u16::MAX);
        one!(PodU32, 4, u32::MAX);
        one!(PodU64, 8, u64::MAX);
        one!(PodU128, 16, u128::MAX);
        let x128 = interesting_u128(&mut rng, 128);
        let r = catch_plain(|| usize::from(PodU128::from(x128)));
        rep.case(format!("CToUsize {} {}", emit::blob(&x128.to_le_bytes()), r.emit(|v| format!("{}", v))), true);
    }
    // ---- byte casts: all slice lengths 0..=64
    let mut arena = vec![0u8; 96];
    for b in arena.iter_mut() {
        *b = rng.byte();
    }
    for l in 0..=64usize {
        // the slice starts at a varying offset from the (aligned) start of the arena
        let off = (l * 5 + 1) % 8;
        let s = &arena[off..off + l];
        macro_rules! casts {
            ($P:ty, $sz:expr) => {{
                let r = catch(|| pod_from_bytes::<$P>(s).map(|p| (p as *const $P as usize - s.as_ptr() as usize, core::mem::size_of::<$P>(), bytes_of(p))));
                rep.count(if r.is_ok() { "cast:ok" } else { "cast:err" });
                if r.is_ok() != (l == $sz) || matches!(&r, Res::Ok((o, z, b)) if *o != 0 || *z != l || b[..] != s[..]) {
                    rep.violate("cast", "pod_from_bytes must succeed exactly when the length matches and alias the same bytes", serde_json::json!({"type": stringify!($P), "len": l}).to_string());
                }
                rep.case(format!("CCast {} {} {}", $sz, emit::blob(s), r.emit(|(o, z, _)| format!("({}, {})", o, z))), r.is_ok());
                let m = catch(|| pod_maybe_from_bytes::<$P>(s).map(|o| o.map(|p| (p as *const $P as usize - s.as_ptr() as usize, core::mem::size_of::<$P>()))));
                let want_ok = l == 0 || l == $sz;
                if m.is_ok() != want_ok || matches!(&m, Res::Ok(Some(_)) if l == 0) || matches!(&m, Res::Ok(None) if l != 0) {
                    rep.violate("cast-maybe", "pod_maybe_from_bytes: None for empty, value for exact length, error otherwise", serde_json::json!({"type": stringify!($P), "len": l}).to_string());
                }
                rep.case(format!("CMaybe {} {} {}", $sz, emit::blob(s), m.emit(|o| emit::option(o.map(|(a, b)| format!("({}, {})", a, b))))), m.is_ok());
                let sl = catch(|| pod_slice_from_bytes::<$P>(s).map(|x| (x.len(), x.as_ptr() as usize - s.as_ptr() as usize, pod_slice_to_bytes(x).to_vec())));
                rep.count(if sl.is_ok() { "slice:ok" } else { "slice:err" });
                if sl.is_ok() != (l % $sz == 0) || matches!(&sl, Res::Ok((k, o, b)) if *k != l / $sz || (*o != 0 && l != 0) || b[..] != s[..]) {
                    rep.violate("cast-slice", "pod_slice_from_bytes must succeed exactly for whole multiples and alias the same bytes", serde_json::json!({"type": stringify!($P), "len": l}).to_string());
                }
                rep.case(format!("CSlice {} {} {}", $sz, emit::blob(s), sl.emit(|(k, _, _)| format!("{}", k))), sl.is_ok());
                // the `_mut` variants and the packed length must agree with the shared ones
                let mut copy = s.to_vec();
                let base = copy.as_ptr() as usize;
                let rm = catch(|| pod_from_bytes_mut::<$P>(&mut copy).map(|p| p as *mut $P as usize - base));
                if rm.is_ok() != r.is_ok() || matches!(&rm, Res::Ok(o) if *o != 0) {
                    rep.violate("cast-mut", "pod_from_bytes_mut disagrees with pod_from_bytes", serde_json::json!({"type": stringify!($P), "len": l}).to_string());
                }
                let mut copy2 = s.to_vec();
                let rsm = catch(|| pod_slice_from_bytes_mut::<$P>(&mut copy2).map(|x| x.len()));
                if rsm.is_ok() != sl.is_ok() || matches!((&rsm, &sl), (Res::Ok(a), Res::Ok((b, _, _))) if a != b) {
                    rep.violate("cast-slice-mut", "pod_slice_from_bytes_mut disagrees with pod_slice_from_bytes", serde_json::json!({"type": stringify!($P), "len": l}).to_string());
                }
                if pod_get_packed_len::<$P>() != $sz {
                    rep.violate("packed-len", "pod_get_packed_len differs from the type's size", serde_json::json!({"type": stringify!($P)}).to_string());
                }
            }};
        }
        casts!(PodBool, 1);
        casts!(PodU16, 2);
        casts!(PodI16, 2);
        casts!(PodU32, 4);
        casts!(PodU64, 8);
        casts!(PodI64, 8);
        casts!(PodU128, 16);
    }
    let p = PodU64::from(0x0102030405060708u64);
    if pod_bytes_of(&p) != [8, 7, 6, 5, 4, 3, 2, 1] || pod_bytes_of(&p).as_ptr() as usize != &p as *const PodU64 as usize {
        rep.violate("bytes-of", "pod_bytes_of must alias the value's little-endian bytes", "{}".into());
    }
    if ctx.tier_thorough {
        // exhaustive u32 on the implementation against shift/mask arithmetic
        let mut bad = 0u64;
        for x in 0..=u32::MAX {
            let p = PodU32::from(x);
            let b = p.0;
            let ok = b[0] as u32 == x & 0xff && b[1] as u32 == (x >> 8) & 0xff && b[2] as u32 == (x >> 16) & 0xff && b[3] as u32 == x >> 24 && u32::from(p) == x;
            if !ok {
                bad += 1;
                if bad < 3 {
                    rep.violate("u32-roundtrip", "PodU32 (exhaustive loop)", serde_json::json!({"x": x}).to_string());
                }
            }
        }
        rep.monitor_runs += 1u64 << 32;
        rep.exhaustive.push("all 2^32 values of u32 on the implementation (conversion both ways, bytes against shift/mask arithmetic)".into());
    }
    rep
}

// ------------------------------------------------------------------ C14
#[derive(Clone, Copy, Debug, Default, PartialEq, bytemuck::Pod, bytemuck::Zeroable, borsh::BorshSerialize, borsh::BorshDeserialize, serde::Serialize, serde::Deserialize)]
#[repr(transparent)]
pub struct N64(pub u64);
impl Nullable for N64 {
    const NONE: Self = N64(0);
}

/// carriers whose none value differs from their Default value
#[derive(Clone, Copy, Debug, Default, PartialEq, bytemuck::Pod, bytemuck::Zeroable, borsh::BorshSerialize, borsh::BorshDeserialize, serde::Serialize, serde::Deserialize)]
#[repr(transparent)]
pub struct M64(pub u64);
impl Nullable for M64 {
    const NONE: Self = M64(u64::MAX);
}
#[derive(Clone, Copy, Debug, Default, PartialEq, bytemuck::Pod, bytemuck::Zeroable, borsh::BorshSerialize, borsh::BorshDeserialize, serde::Serialize, serde::Deserialize)]
#[repr(transparent)]
pub struct K64(pub u64);
impl Nullable for K64 {
    const NONE: Self = K64(0x0100_0000_0000_0001);
}
trait Carrier: Nullable + bytemuck::Pod + Copy + Default + std::fmt::Debug + serde::Serialize + serde::de::DeserializeOwned + borsh::BorshSerialize + borsh::BorshDeserialize + std::panic::RefUnwindSafe + std::panic::UnwindSafe {
    fn mk(v: u64) -> Self;
    fn val(&self) -> u64;
}
impl Carrier for M64 { fn mk(v: u64) -> Self { M64(v) } fn val(&self) -> u64 { self.0 } }
impl Carrier for K64 { fn mk(v: u64) -> Self { K64(v) } fn val(&self) -> u64 { self.0 } }
impl Carrier for N64 { fn mk(v: u64) -> Self { N64(v) } fn val(&self) -> u64 { self.0 } }

/// the PodOption laws for a u64 carrier with an arbitrary none value
fn carrier_laws<T: Carrier>(rep: &mut Report, rng: &mut Rng, n: usize, name: &str) {
    let none = T::NONE.val();
    let bad = |rep: &mut Report, what: &str, v: u64| {
        rep.violate(&format!("podoption-{}", name), what, serde_json::json!({"carrier": name, "none": none, "v": v}).to_string());
    };
    // default is none, whatever T::default() is
    let d = PodOption::<T>::default();
    rep.count(&format!("{}:default", name));
    if d.get().is_some() || bytes_of(&d) != none.to_le_bytes() || PodOption::<T>::try_from(None).ok().map(|p| p.get().is_none()) != Some(true) {
        bad(rep, "the default / the image of None must be none (the designated none value, not T::default())", none);
    }
    rep.case(format!("CDefG {} {}", none, u64::from_le_bytes(bytes_of(&d).try_into().unwrap())), true);
    let tn = catch(|| PodOption::<T>::try_from(None));
    rep.case(format!("CTryG {} None {}", none, tn.emit(|q| format!("{}", u64::from_le_bytes(bytes_of(q).try_into().unwrap())))), true);
    let mut vals: Vec<u64> = vec![0, 1, u64::MAX, u64::MAX - 1, none, none ^ 1, none.wrapping_add(1), none.wrapping_sub(1), T::default().val()];
    for b in 0..64 {
        vals.push(none ^ (1u64 << b));
    }
    for _ in 0..n {
        vals.push(if rng.chance(1, 8) { none } else { rng.next_u64() });
    }
    for v in vals {
        let is_none = v == none;
        rep.count(&format!("{}:{}", name, if is_none { "none" } else { "some" }));
        let p = PodOption::from(T::mk(v));
        let want = if is_none { None } else { Some(T::mk(v)) };
        let mut pm = p;
        if p.get() != want || p.copied() != want || p.cloned() != want || p.as_ref() != want.as_ref() || pm.as_mut().map(|x| *x) != want
            || Option::<T>::from(p) != want || COption::<T>::from(p) != (match want { Some(x) => COption::Some(x), None => COption::None }) {
            bad(rep, "reads as none exactly when the value equals the none value", v);
        }
        if bytes_of(&p) != v.to_le_bytes() || borsh::to_vec(&p).unwrap() != v.to_le_bytes() {
            bad(rep, "memory / Borsh encoding differs from the wrapped value's", v);
        }
        let t = catch(|| PodOption::try_from(Some(T::mk(v))));
        let tc = catch(|| PodOption::try_from(COption::Some(T::mk(v))));
        if t.is_ok() == is_none || tc.is_ok() == is_none || (!is_none && (t != Res::Ok(p) || tc != Res::Ok(p))) {
            bad(rep, "Some(none-value) is the only rejected input of TryFrom<Option/COption>", v);
        }
        let js = serde_json::to_string(&p).unwrap();
        if js != if is_none { "null".to_string() } else { v.to_string() } {
            bad(rep, "Serde encoding", v);
        }
        if serde_json::from_str::<PodOption<T>>(&v.to_string()).is_ok() == is_none
            || bincode::deserialize::<PodOption<T>>(&bincode::serialize(&Some(T::mk(v))).unwrap()).is_ok() == is_none {
            bad(rep, "Serde deserialisers must reject exactly Some(none-value)", v);
        }
        if serde_json::from_str::<PodOption<T>>("null").ok().map(|q| q.get().is_none()) != Some(true) {
            bad(rep, "Serde null must deserialise to none", v);
        }
        rep.monitor_case(0, false);
        rep.case(format!("COptG {} {} {}", none, v, emit::option(p.get().map(|x| format!("{}", x.val())))), !is_none);
        rep.case(format!("CTryG {} (Some {}) {}", none, v, t.emit(|q| format!("{}", u64::from_le_bytes(bytes_of(q).try_into().unwrap())))), true);
    }
}

// Serde containers that replay buffered content (flatten / untagged / internally tagged): a none
// inside them reaches the deserialiser as a unit, not as `none`
#[derive(Clone, Debug, PartialEq, serde::Serialize, serde::Deserialize)]
struct InnerP { v: PodOption<N64>, w: PodOption<M64> }
#[derive(Clone, Debug, PartialEq, serde::Serialize, serde::Deserialize)]
struct InnerO { v: Option<N64>, w: Option<M64> }
#[derive(Clone, Debug, PartialEq, serde::Serialize, serde::Deserialize)]
struct FlatP { a: u8, #[serde(flatten)] inner: InnerP }
#[derive(Clone, Debug, PartialEq, serde::Serialize, serde::Deserialize)]
struct FlatO { a: u8, #[serde(flatten)] inner: InnerO }
#[derive(Clone, Debug, PartialEq, serde::Serialize, serde::Deserialize)]
#[serde(untagged)]
enum UntaggedP { A { v: PodOption<N64>, x: u8 }, B(u8) }
#[derive(Clone, Debug, PartialEq, serde::Serialize, serde::Deserialize)]
#[serde(untagged)]
enum UntaggedO { A { v: Option<N64>, x: u8 }, B(u8) }
#[derive(Clone, Debug, PartialEq, serde::Serialize, serde::Deserialize)]
#[serde(tag = "kind")]
enum TaggedP { A { v: PodOption<N64> }, B { z: u8 } }
#[derive(Clone, Debug, PartialEq, serde::Serialize, serde::Deserialize)]
#[serde(tag = "kind")]
enum TaggedO { A { v: Option<N64> }, B { z: u8 } }

fn serde_containers(rep: &mut Report, v: u64) {
    let po: PodOption<N64> = PodOption::from(N64(v));
    let pw: PodOption<M64> = PodOption::from(M64(v));
    let (ov, ow) = (po.get(), pw.get());
    rep.count("serde:containers");
    rep.monitor_runs += 1;
    let bad = |rep: &mut Report, what: &str, detail: String| {
        rep.violate("podoption-serde-container", "inside a flatten / untagged / internally tagged Serde container a PodOption must behave like the Option it stands for", serde_json::json!({"v": v, "what": what, "detail": detail}).to_string());
    };
    macro_rules! same {
        ($p:expr, $o:expr, $P:ty, $O:ty, $name:expr) => {{
            let (jp, jo) = (serde_json::to_string(&$p).unwrap(), serde_json::to_string(&$o).unwrap());
            if jp != jo {
                bad(rep, $name, format!("written {} instead of {}", jp, jo));
            }
            let back_p = serde_json::from_str::<$P>(&jo).map_err(|e| e.to_string());
            let back_o = serde_json::from_str::<$O>(&jo).map_err(|e| e.to_string());
            if back_o.is_ok() && back_p != Ok($p.clone()) {
                bad(rep, $name, format!("reading {} gives {:?}", jo, back_p));
            }
        }};
    }
    same!(FlatP { a: 3, inner: InnerP { v: po, w: pw } }, FlatO { a: 3, inner: InnerO { v: ov, w: ow } }, FlatP, FlatO, "flatten");
    same!(UntaggedP::A { v: po, x: 9 }, UntaggedO::A { v: ov, x: 9 }, UntaggedP, UntaggedO, "untagged");
    same!(TaggedP::A { v: po }, TaggedO::A { v: ov }, TaggedP, TaggedO, "internally tagged");
}

fn addr_values(rng: &mut Rng, n: usize) -> Vec<[u8; 32]> {
    let mut v: Vec<[u8; 32]> = vec![[0u8; 32], [0xff; 32]];
    for bit in 0..256 {
        let mut a = [0u8; 32];
        a[bit / 8] = 1 << (bit % 8);
        v.push(a);
    }
    for k in 0..32 {
        // differs from none only in one byte at position k
        let mut a = [0u8; 32];
        a[k] = rng.range(1, 255) as u8;
        v.push(a);
    }
    for _ in 0..n {
        let mut a = [0u8; 32];
        for x in a.iter_mut() {
            *x = if rng.chance(1, 3) { 0 } else { rng.byte() };
        }
        v.push(a);
    }
    // non-zero values whose words cancel under a fold (+, ^, wrapping over any word size):
    // what a "compare a word at a time" shortcut would misread as none
    for &w in &[1usize, 2, 4, 8, 16] {
        let words = 32 / w;
        for _ in 0..(n / 10 + 12) {
            let i = rng.below(words as u64) as usize;
            let mut j = rng.below(words as u64) as usize;
            if j == i {
                j = (i + 1) % words;
            }
            let mut x = vec![0u8; w];
            for b in x.iter_mut() {
                *b = rng.byte();
            }
            if x.iter().all(|&b| b == 0) {
                x[0] = 1;
            }
            // two's complement of x over w bytes
            let mut neg = vec![0u8; w];
            let mut carry = 1u16;
            for k in 0..w {
                let t = (!x[k]) as u16 + carry;
                neg[k] = t as u8;
                carry = t >> 8;
            }
            let mut a = [0u8; 32];
            a[i * w..(i + 1) * w].copy_from_slice(&x);
            a[j * w..(j + 1) * w].copy_from_slice(&neg); // x + (-x) = 0
            v.push(a);
            let mut a = [0u8; 32];
            a[i * w..(i + 1) * w].copy_from_slice(&x);
            a[j * w..(j + 1) * w].copy_from_slice(&x); // x ^ x = 0
            v.push(a);
            // big-endian flavour of the same
            let mut a = [0u8; 32];
            let xr: Vec<u8> = x.iter().rev().cloned().collect();
            let nr: Vec<u8> = neg.iter().rev().cloned().collect();
            a[i * w..(i + 1) * w].copy_from_slice(&xr);
            a[j * w..(j + 1) * w].copy_from_slice(&nr);
            v.push(a);
        }
    }
    v.push({ let mut a = [0u8; 32]; a[0] = 1; a[8..16].copy_from_slice(&u64::MAX.to_le_bytes()); a });
    v
}

pub fn run_c14(ctx: &Ctx) -> Report {
    let mut rep = Report::new("C14");
    rep.corr_module = "Pod".into();
    rep.expect_classes(&["addr:none", "addr:some", "u64:none", "u64:some", "try:rejected", "max-none:none", "max-none:some", "max-none:default", "odd-none:none", "odd-none:some", "serde:containers"]);
    let mut rng = Rng::new(ctx.seed.wrapping_mul(179).wrapping_add(14));
    let vals = addr_values(&mut rng, ctx.scale(300, 5000));
    for a in &vals {
        let addr = Address::new_from_array(*a);
        let is_none = *a == [0u8; 32];
        rep.count(if is_none { "addr:none" } else { "addr:some" });
        let p = PodOption::from(addr);
        let want = if is_none { None } else { Some(addr) };
        let bad = |rep: &mut Report, what: &str| {
            rep.violate("podoption-addr", what, serde_json::json!({"value": emit::hex(a)}).to_string());
        };
        // the same value read in place at every offset 0..7 from an aligned address (alignment of the type is 1)
        for shift in 0..8usize {
            let mut sh = emit::Shifted::new(a, shift);
            let ok_ref = match pod_from_bytes::<PodOption<Address>>(sh.bytes()) {
                Ok(q) => q.get() == want && q.as_ref() == want.as_ref() && q.copied() == want && q.cloned() == want && Option::<Address>::from(*q) == want,
                Err(_) => false,
            };
            let ok_mut = match spl_pod::bytemuck::pod_from_bytes_mut::<PodOption<Address>>(sh.bytes_mut()) {
                Ok(q) => q.as_mut().map(|x| *x) == want,
                Err(_) => false,
            };
            if !ok_ref || !ok_mut {
                rep.violate("podoption-addr-in-place", "a PodOption<Address> read in place at an unaligned address reads differently from the same bytes elsewhere",
                    serde_json::json!({"value": emit::hex(a), "address_offset": shift}).to_string());
            }
        }
        if p.get() != want || p.as_ref() != want.as_ref() || p.copied() != want || p.cloned() != want || Option::<Address>::from(p) != want {
            bad(&mut rep, "reads as none exactly when the bytes equal the none value (get/as_ref/copied/cloned/into Option)");
        }
        let mut pm = p;
        if pm.as_mut().map(|x| *x) != want {
            bad(&mut rep, "as_mut disagrees");
        }
        let c: COption<Address> = p.into();
        if c != (match want { Some(v) => COption::Some(v), None => COption::None }) {
            bad(&mut rep, "into COption disagrees");
        }
        // Option -> PodOption -> Option
        let t = catch(|| PodOption::try_from(Some(addr)));
        if is_none {
            rep.count("try:rejected");
            if !t.is_err() {
                bad(&mut rep, "Some(none-value) must be rejected by TryFrom<Option>");
            }
            if !catch(|| PodOption::try_from(COption::Some(addr))).is_err() {
                bad(&mut rep, "Some(none-value) must be rejected by TryFrom<COption>");
            }
        } else {
            if t != Res::Ok(p) || catch(|| PodOption::try_from(COption::Some(addr))) != Res::Ok(p) {
                bad(&mut rep, "TryFrom<Option/COption>(Some(v)) must be the wrapper of v");
            }
            if PodOption::try_from(p.get()).map(|q| q.get()) != Ok(want) {
                bad(&mut rep, "Option round trip");
            }
        }
        // memory and Borsh encodings are those of the wrapped value
        if bytes_of(&p) != a.to_vec() {
            bad(&mut rep, "memory bytes differ from the wrapped value's");
        }
        match catch(|| pod_from_bytes::<PodOption<Address>>(a).map(|q| *q)) {
            Res::Ok(q) if q == p => {}
            _ => bad(&mut rep, "pod_from_bytes::<PodOption<Address>> differs"),
        }
        if borsh::to_vec(&p).unwrap() != borsh::to_vec(&addr).unwrap() {
            bad(&mut rep, "Borsh encoding differs from the wrapped value's");
        }
        match borsh::from_slice::<PodOption<Address>>(a) {
            Ok(q) if q == p => {}
            _ => bad(&mut rep, "Borsh decoding differs"),
        }
        // Serde: none <-> null; Some(none) rejected
        let js = serde_json::to_string(&p).unwrap();
        let want_js = if is_none { "null".to_string() } else { serde_json::to_string(&addr).unwrap() };
        if js != want_js {
            bad(&mut rep, "Serde must write none as null and some(v) as v");
        }
        let back = serde_json::from_str::<PodOption<Address>>(&serde_json::to_string(&addr).unwrap());
        if is_none {
            if back.is_ok() {
                bad(&mut rep, "Serde deserialiser accepted Some(none-value)");
            }
        } else if back.ok() != Some(p) {
            bad(&mut rep, "Serde round trip");
        }
        // a binary (non-human-readable) Serde format: option tag + payload
        let bin = bincode::serialize(&p).unwrap();
        if bin != bincode::serialize(&want).unwrap() {
            bad(&mut rep, "Serde (bincode): none must be written as a none tag, some(v) as some tag + v");
        }
        let some_bytes = bincode::serialize(&Some(addr)).unwrap();
        let back = bincode::deserialize::<PodOption<Address>>(&some_bytes);
        if is_none {
            if back.is_ok() {
                bad(&mut rep, "Serde (bincode) deserialiser accepted Some(none-value)");
            }
        } else if back.ok() != Some(p) {
            bad(&mut rep, "Serde (bincode) round trip");
        }
        rep.monitor_case(0, false);
        rep.case(format!("COpt32 {} {}", emit::blob(a), emit::option(p.get().map(|v| emit::blob(v.as_ref())))), !is_none);
        rep.case(format!("CTry32 (Some {}) {}", emit::blob(a), t.emit(|q| emit::blob(&bytes_of(q)))), true);
    }
    let tn = catch(|| PodOption::<Address>::try_from(None));
    if tn != Res::Ok(PodOption::default()) || PodOption::<Address>::default().get().is_some() {
        rep.violate("podoption-default", "None converts to the default, which is none", "{}".into());
    }
    if serde_json::from_str::<PodOption<Address>>("null").ok() != Some(PodOption::default()) {
        rep.violate("podoption-default", "Serde null must deserialise to none", "{}".into());
    }
    rep.case(format!("CTry32 None {}", tn.emit(|q| emit::blob(&bytes_of(q)))), true);
    // u64 carrier
    let mut u64s: Vec<u64> = vec![0, 1, u64::MAX, 1 << 63, 255, 256];
    for b in 0..64 {
        u64s.push(1u64 << b);
    }
    for _ in 0..ctx.scale(200, 3000) {
        u64s.push(if rng.chance(1, 10) { 0 } else { rng.next_u64() });
    }
    for v in u64s {
        serde_containers(&mut rep, v);
        if v % 3 == 0 {
            serde_containers(&mut rep, u64::MAX);
        }
        let is_none = v == 0;
        rep.count(if is_none { "u64:none" } else { "u64:some" });
        let p = PodOption::from(N64(v));
        let want = if is_none { None } else { Some(N64(v)) };
        if p.get() != want || p.copied() != want || bytes_of(&p) != v.to_le_bytes() {
            rep.violate("podoption-u64", "u64 carrier: none exactly for 0, memory = the value's bytes", serde_json::json!({"v": v}).to_string());
        }
        let t = catch(|| PodOption::try_from(Some(N64(v))));
        if t.is_ok() == is_none {
            rep.violate("podoption-u64", "Some(0) is the only rejected input", serde_json::json!({"v": v}).to_string());
        }
        if borsh::to_vec(&p).unwrap() != v.to_le_bytes() {
            rep.violate("podoption-u64", "Borsh encoding differs from the wrapped value's", serde_json::json!({"v": v}).to_string());
        }
        let js = serde_json::to_string(&p).unwrap();
        if js != if is_none { "null".to_string() } else { v.to_string() } {
            rep.violate("podoption-u64", "Serde encoding", serde_json::json!({"v": v, "json": js}).to_string());
        }
        if serde_json::from_str::<PodOption<N64>>(&v.to_string()).is_ok() == is_none {
            rep.violate("podoption-u64", "Serde deserialiser must reject exactly Some(none-value)", serde_json::json!({"v": v}).to_string());
        }
        let some_bytes = bincode::serialize(&Some(N64(v))).unwrap();
        if bincode::deserialize::<PodOption<N64>>(&some_bytes).is_ok() == is_none {
            rep.violate("podoption-u64", "Serde (bincode) deserialiser must reject exactly Some(none-value)", serde_json::json!({"v": v}).to_string());
        }
        rep.monitor_case(0, false);
        rep.case(format!("COpt64 {} {}", v, emit::option(p.get().map(|x| format!("{}", x.0)))), !is_none);
        rep.case(format!("CTry64 (Some {}) {}", v, t.emit(|q| format!("{}", q.get().map(|x| x.0).unwrap_or(0)))), true);
    }
    // carriers whose none value is not the Default value (and one with none = 0 through the same generic path)
    let k = ctx.scale(200, 3000);
    carrier_laws::<M64>(&mut rep, &mut rng, k, "max-none");
    carrier_laws::<K64>(&mut rep, &mut rng, k, "odd-none");
    carrier_laws::<N64>(&mut rep, &mut rng, k / 4, "zero-none");
    let _ = ProgramError::InvalidArgument;
    rep
}
