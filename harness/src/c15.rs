//! C15 — realloc_and_pack_variable_len on runtime-layout accounts; the derived Borsh packer.
use crate::emit::{self, catch, Report, Res};
use crate::prng::Rng;
use crate::tlv::{self, cksum, var_enc, Oracle, TAGS};
use crate::Ctx;
use borsh::{BorshDeserialize, BorshSerialize};
use solana_account_info::AccountInfo;
use solana_program_error::ProgramError;
use spl_discriminator::{ArrayDiscriminator, SplDiscriminate};
use spl_type_length_value::{
    state::{realloc_and_pack_variable_len_with_repetition, TlvState, TlvStateBorrowed, TlvStateMut},
    variable_len_pack::VariableLenPack,
    SplBorshVariableLenPack,
};

/// One account in the runtime's serialized input layout, opened with the real
/// `solana_program_entrypoint::deserialize`.
pub struct RuntimeAccount {
    buf: Vec<u64>,
    data_off: usize,
}
impl RuntimeAccount {
    pub fn new(data: &[u8]) -> Self {
        let total = 8 + 8 + 32 + 32 + 8 + 8 + data.len() + 10240 + 8 + 16 + 8 + 8 + 32 + 64;
        let mut buf = vec![0u64; total / 8 + 2];
        let p = buf.as_mut_ptr() as *mut u8;
        unsafe {
            let b = std::slice::from_raw_parts_mut(p, buf.len() * 8);
            b[0..8].copy_from_slice(&1u64.to_le_bytes()); // one account
            let mut o = 8;
            b[o] = 0xff; // not a duplicate
            b[o + 1] = 0; // signer
            b[o + 2] = 1; // writable
            b[o + 3] = 0; // executable
            o += 8; // 4 flag bytes + original_data_len (written by deserialize)
            for i in 0..32 {
                b[o + i] = 0xa0 + (i as u8 % 7);
            }
            o += 32;
            for i in 0..32 {
                b[o + i] = 0x50;
            }
            o += 32;
            b[o..o + 8].copy_from_slice(&1_000_000u64.to_le_bytes());
            o += 8;
            b[o..o + 8].copy_from_slice(&(data.len() as u64).to_le_bytes());
            o += 8;
            b[o..o + data.len()].copy_from_slice(data);
            let data_off = o;
            // instruction data length (0) and program id follow the padded account; all zero is fine
            RuntimeAccount { buf, data_off }
        }
    }
    fn bytes(&self) -> &[u8] {
        unsafe { std::slice::from_raw_parts(self.buf.as_ptr() as *const u8, self.buf.len() * 8) }
    }
    /// the data length the runtime would read back
    pub fn serialized_len(&self) -> usize {
        u64::from_le_bytes(self.bytes()[self.data_off - 8..self.data_off].try_into().unwrap()) as usize
    }
    pub fn data(&self) -> Vec<u8> {
        let l = self.serialized_len();
        self.bytes()[self.data_off..self.data_off + l].to_vec()
    }
    pub fn with_info<R>(&mut self, f: impl FnOnce(&AccountInfo) -> R) -> R {
        let (_pid, infos, _ix) = unsafe { solana_program_entrypoint::deserialize(self.buf.as_mut_ptr() as *mut u8) };
        f(&infos[0])
    }
}

/// run several realloc-and-pack operations on ONE AccountInfo (the original length stays
/// the length at deserialisation)
#[derive(Clone, Debug)]
pub struct RPOp {
    pub t: usize,
    pub rep: usize,
    pub data: Vec<u8>,
    pub borsh: bool,
    /// Some(cap): a packer with a fixed-capacity layout -- it reports `cap` bytes and writes only `data` at the front
    pub pad: Option<usize>,
}
macro_rules! defpadded {
    ($D:ident, $k:expr) => {
        #[derive(Clone, Debug, PartialEq)]
        pub struct $D { pub data: Vec<u8>, pub cap: usize }
        impl SplDiscriminate for $D {
            const SPL_DISCRIMINATOR: ArrayDiscriminator = ArrayDiscriminator::new(TAGS[$k]);
        }
        impl VariableLenPack for $D {
            fn pack_into_slice(&self, dst: &mut [u8]) -> Result<(), ProgramError> {
                if dst.len() < self.data.len() {
                    return Err(ProgramError::AccountDataTooSmall);
                }
                dst[..self.data.len()].copy_from_slice(&self.data);
                Ok(())
            }
            fn unpack_from_slice(src: &[u8]) -> Result<Self, ProgramError> {
                Ok($D { data: src.to_vec(), cap: src.len() })
            }
            fn get_packed_len(&self) -> Result<usize, ProgramError> {
                Ok(self.cap)
            }
        }
    };
}
defpadded!(Pd0, 0);
defpadded!(Pd1, 1);
defpadded!(Pd2, 2);
defpadded!(Pd3, 3);
defpadded!(Pd4, 4);
fn apply(info: &AccountInfo, op: &RPOp) -> Res<()> {
    macro_rules! go {
        ($B:ty, $H:ty) => {
            match (op.borsh, op.rep == 0 && op.data.len() % 2 == 0) {
                (true, true) => catch(|| spl_type_length_value::state::realloc_and_pack_first_variable_len::<$B>(info, &<$B>::new(op.data.clone()))),
                (true, false) => catch(|| realloc_and_pack_variable_len_with_repetition::<$B>(info, &<$B>::new(op.data.clone()), op.rep)),
                (false, true) => catch(|| spl_type_length_value::state::realloc_and_pack_first_variable_len::<$H>(info, &<$H>::new(op.data.clone()))),
                (false, false) => catch(|| realloc_and_pack_variable_len_with_repetition::<$H>(info, &<$H>::new(op.data.clone()), op.rep)),
            }
        };
    }
    if let Some(cap) = op.pad {
        macro_rules! gop {
            ($D:ident) => {
                if op.rep == 0 && cap % 2 == 0 {
                    catch(|| spl_type_length_value::state::realloc_and_pack_first_variable_len::<$D>(info, &$D { data: op.data.clone(), cap }))
                } else {
                    catch(|| realloc_and_pack_variable_len_with_repetition::<$D>(info, &$D { data: op.data.clone(), cap }, op.rep))
                }
            };
        }
        return match op.t { 0 => gop!(Pd0), 1 => gop!(Pd1), 2 => gop!(Pd2), 3 => gop!(Pd3), _ => gop!(Pd4) };
    }
    match op.t {
        0 => go!(tlv::B0, tlv::H0),
        1 => go!(tlv::B1, tlv::H1),
        2 => go!(tlv::B2, tlv::H2),
        3 => go!(tlv::B3, tlv::H3),
        _ => go!(tlv::B4, tlv::H4),
    }
}

// ---- items for the derived packer (incl. generic ones: D9)
#[derive(Clone, Debug, PartialEq, BorshSerialize, BorshDeserialize, SplBorshVariableLenPack)]
pub struct S1 {
    pub a: u8,
    pub s: String,
    pub o: Option<u32>,
}
#[derive(Clone, Debug, PartialEq, BorshSerialize, BorshDeserialize, SplBorshVariableLenPack)]
pub struct S2 {
    pub v: Vec<u8>,
    pub n: u64,
    pub f: bool,
}
#[derive(Clone, Debug, PartialEq, BorshSerialize, BorshDeserialize, SplBorshVariableLenPack)]
pub enum E1 {
    A(u16),
    B { s: String },
}
#[derive(Clone, Debug, PartialEq, BorshSerialize, BorshDeserialize, SplBorshVariableLenPack)]
pub struct S3 {
    pub inner: S1,
    pub e: E1,
    pub oo: Option<Option<u8>>,
    pub unit: (),
}
#[derive(Clone, Debug, PartialEq, BorshSerialize, BorshDeserialize, SplBorshVariableLenPack)]
pub struct GWhere<T>
where
    T: BorshSerialize + BorshDeserialize,
{
    pub t: T,
    pub s: String,
}
#[cfg(feature = "generic-subjects")]
#[derive(Clone, Debug, PartialEq, BorshSerialize, BorshDeserialize, SplBorshVariableLenPack)]
pub struct GInline<T: BorshSerialize + BorshDeserialize, U: BorshSerialize + BorshDeserialize = u8> {
    pub t: T,
    pub u: Option<U>,
}
#[cfg(feature = "generic-subjects")]
#[derive(Clone, Debug, PartialEq, BorshSerialize, BorshDeserialize, SplBorshVariableLenPack)]
pub struct GConst<const N: usize> {
    pub a: [u8; N],
    pub s: String,
}

// zero-sized in memory, not in Borsh (a single-variant enum still writes its tag byte); unit-like items
#[derive(Clone, Debug, PartialEq, BorshSerialize, BorshDeserialize, SplBorshVariableLenPack)]
pub enum OneVariant {
    Only,
}
#[derive(Clone, Debug, PartialEq, BorshSerialize, BorshDeserialize, SplBorshVariableLenPack)]
pub enum OnePhantom<T> {
    Only(std::marker::PhantomData<T>),
}
#[derive(Clone, Debug, PartialEq, BorshSerialize, BorshDeserialize, SplBorshVariableLenPack)]
pub struct OfMarkers {
    pub a: OneVariant,
    pub b: (),
    pub c: OneVariant,
}
#[derive(Clone, Debug, PartialEq, BorshSerialize, BorshDeserialize, SplBorshVariableLenPack)]
pub struct UnitLike;
#[derive(Clone, Debug, PartialEq, BorshSerialize, BorshDeserialize, SplBorshVariableLenPack)]
pub enum ManyVariants {
    A,
    B(u8),
    C { x: u16, s: String },
    D,
}

fn gen_string(rng: &mut Rng) -> String {
    let n = match rng.below(6) { 0 => 0, 1 => rng.range(100, 200) as usize, _ => rng.below(20) as usize };
    let alpha: Vec<char> = "abc xyz019é中𝄞\"\\\n".chars().collect();
    (0..n).map(|_| *rng.pick(&alpha)).collect()
}
fn e_str(s: &str) -> String {
    emit::blob(s.as_bytes())
}
fn e_opt(o: Option<String>) -> String {
    emit::option(o)
}

fn check_packer<V: VariableLenPack + BorshSerialize + PartialEq + std::fmt::Debug>(rep: &mut Report, name: &str, v: &V, rng: &mut Rng, ty: &str, val: &str, to_coq: bool) {
    let want = borsh::to_vec(v).unwrap();
    rep.count("packer:item");
    rep.monitor_runs += 1;
    let det = |what: &str| serde_json::json!({"item": name, "value": format!("{:?}", v), "what": what}).to_string();
    if v.get_packed_len() != Ok(want.len()) {
        rep.violate("packed-len", "the derived packer reports a length different from the Borsh encoding's", det("get_packed_len"));
    }
    // exact slot
    let mut slot = vec![0xeeu8; want.len()];
    if v.pack_into_slice(&mut slot) != Ok(()) || slot != want {
        rep.violate("pack-bytes", "the derived packer does not write exactly the Borsh bytes", det("pack exact"));
    }
    // larger slot: writes the prefix, leaves the rest, and decodes back
    let extra = rng.range(1, 40) as usize;
    let fill = rng.byte();
    let mut big = vec![fill; want.len() + extra];
    let r = v.pack_into_slice(&mut big);
    if r != Ok(()) || big[..want.len()] != want[..] || big[want.len()..].iter().any(|&x| x != fill) {
        rep.violate("pack-larger-slot", "packing into a larger slot must write exactly the Borsh bytes at the start and nothing else", det("pack larger"));
    }
    match catch(|| V::unpack_from_slice(&big)) {
        Res::Ok(back) if back == *v => {}
        other => rep.violate("unpack-larger-slot", "a value packed into a larger slot does not decode back", det(&format!("{:?}", other.kind()))),
    }
    // too small slot: error (never a panic)
    if !want.is_empty() {
        let mut small = vec![0u8; want.len() - 1];
        if !catch(|| v.pack_into_slice(&mut small)).is_err() {
            rep.violate("pack-small-slot", "packing into a slot that is too small must fail", det("pack small"));
        }
    }
    if to_coq {
        rep.case(format!("CBorsh ({}) ({}) {} {}", ty, val, emit::blob(&want), emit::blob(&big[want.len()..])), true);
    }
}

fn hexcap(b: &[u8]) -> String {
    if b.len() > 20_000 { format!("{}... ({} bytes in all)", emit::hex(&b[..20_000]), b.len()) } else { emit::hex(b) }
}

thread_local! { static MINED: Vec<usize> = crate::mined_ints("type-length-value/src", 300, 200_000).into_iter().rev().take(4).collect(); }
pub fn run(ctx: &Ctx) -> Report {
    let mut rep = Report::new("C15");
    rep.corr_module = "AccountRealloc".into();
    rep.expect_classes(&["rp:grow:ok", "rp:shrink:ok", "rp:same:ok", "rp:err:missing", "rp:err:limit", "packer:item", "position:first", "position:middle", "position:last", "rp:fixed-capacity-packer", "account:value>10KiB", "account:10MiB", "account:slot-larger-than-value"]);
    let mut rng = Rng::new(ctx.seed.wrapping_mul(233).wrapping_add(15));
    // ---------------- derived packer on items
    let n_items = ctx.scale(300, 3000);
    for k in 0..n_items {
        let to_coq = k < ctx.scale(200, 1500);
        let s1 = S1 { a: rng.edge_byte(), s: gen_string(&mut rng), o: if rng.chance(1, 2) { Some(rng.next_u64() as u32) } else { None } };
        let s1_ty = "TPair TU8 (TPair TBytes (TOption TU32))";
        let s1_val = format!("({}, ({}, {}))", s1.a, e_str(&s1.s), e_opt(s1.o.map(|x| x.to_string())));
        check_packer(&mut rep, "S1", &s1, &mut rng, s1_ty, &s1_val, to_coq);
        let vlen = rng.below(40) as usize;
        let s2 = S2 { v: rng.bytes(vlen), n: rng.next_u64(), f: rng.chance(1, 2) };
        check_packer(&mut rep, "S2", &s2, &mut rng, "TPair TBytes (TPair TU64 TBool)", &format!("({}, ({}, {}))", emit::blob(&s2.v), s2.n, emit::boolean(s2.f)), to_coq);
        let e1 = if rng.chance(1, 2) { E1::A(rng.next_u64() as u16) } else { E1::B { s: gen_string(&mut rng) } };
        let e1_val = match &e1 { E1::A(x) => format!("inl {}", x), E1::B { s } => format!("inr {}", e_str(s)) };
        check_packer(&mut rep, "E1", &e1, &mut rng, "TSum TU16 TBytes", &e1_val, to_coq);
        let oo = match rng.below(3) { 0 => None, 1 => Some(None), _ => Some(Some(rng.byte())) };
        let s3 = S3 { inner: s1.clone(), e: e1.clone(), oo, unit: () };
        let oo_val = match oo { None => "None".to_string(), Some(None) => "(Some None)".to_string(), Some(Some(x)) => format!("(Some (Some {}))", x) };
        check_packer(&mut rep, "S3", &s3, &mut rng, &format!("TPair ({}) (TPair (TSum TU16 TBytes) (TPair (TOption (TOption TU8)) TUnit))", s1_ty),
            &format!("({}, ({}, ({}, tt)))", s1_val, e1_val, oo_val), to_coq);
        let gw = GWhere::<u32> { t: rng.next_u64() as u32, s: gen_string(&mut rng) };
        check_packer(&mut rep, "GWhere<u32>", &gw, &mut rng, "TPair TU32 TBytes", &format!("({}, {})", gw.t, e_str(&gw.s)), to_coq);
        #[cfg(feature = "generic-subjects")]
        {
        let gi = GInline::<String> { t: gen_string(&mut rng), u: if rng.chance(1, 2) { Some(rng.byte()) } else { None } };
        check_packer(&mut rep, "GInline<String>", &gi, &mut rng, "TPair TBytes (TOption TU8)", &format!("({}, {})", e_str(&gi.t), e_opt(gi.u.map(|x| x.to_string()))), to_coq);
        }
        if k % 10 == 0 {
            check_packer(&mut rep, "OneVariant", &OneVariant::Only, &mut rng, "", "", false);
            check_packer(&mut rep, "OnePhantom<u64>", &OnePhantom::<u64>::Only(std::marker::PhantomData), &mut rng, "", "", false);
            check_packer(&mut rep, "OfMarkers", &OfMarkers { a: OneVariant::Only, b: (), c: OneVariant::Only }, &mut rng, "", "", false);
            check_packer(&mut rep, "UnitLike", &UnitLike, &mut rng, "", "", false);
        }
        let mv = match rng.below(4) { 0 => ManyVariants::A, 1 => ManyVariants::B(rng.byte()), 2 => ManyVariants::C { x: rng.next_u64() as u16, s: gen_string(&mut rng) }, _ => ManyVariants::D };
        check_packer(&mut rep, "ManyVariants", &mv, &mut rng, "", "", false);
        #[cfg(feature = "generic-subjects")]
        {
        let gc = GConst::<2> { a: [rng.byte(), rng.byte()], s: gen_string(&mut rng) };
        check_packer(&mut rep, "GConst<2>", &gc, &mut rng, "TPair TU8 (TPair TU8 TBytes)", &format!("({}, ({}, {}))", gc.a[0], gc.a[1], e_str(&gc.s)), to_coq);
        }
    }
    // ---------------- realloc_and_pack histories on runtime-layout accounts
    let n_coq = ctx.scale(250, 3000);
    let n_mon = ctx.scale(3000, 40000);
    for k in 0..(n_coq + n_mon) {
        let to_coq = k < n_coq;
        // build an account with several entries through the real TLV API
        let nent = rng.range(1, 5) as usize;
        // values above the runtime's 10 KiB growth budget (a shrink followed by a larger regrowth is legal
        // as long as the account stays within original size + 10 KiB), and an account at the 10 MiB mark
        // bounds the sources under test spell out, as value sizes (read at run time)
        let mined: Vec<usize> = MINED.with(|m| m.clone());
        let mode_big = !to_coq && k % 11 == 3;
        let mode_huge = !to_coq && (k == n_coq + 1 || k == n_coq + 12);
        if mode_big { rep.count("account:value>10KiB"); }
        if mode_huge { rep.count("account:10MiB"); }
        let mut o = Oracle { n: 0, es: vec![] };
        for j in 0..nent {
            let t = rng.below(tlv::NTAGS as u64) as usize;
            let l = if mode_big && j == nent / 2 { rng.range(10_300, 14_000) as usize } else { match rng.below(6) { 0 => 0, 1 => 4, _ => rng.below(40) as usize } };
            let borsh = rng.chance(1, 2);
            let payload = rng.bytes(l);
            let mut v = var_enc(&payload, borsh);
            // a slot larger than the value it holds (as after an in-slot pack of a shorter value, or a generous alloc)
            if !mode_huge && rng.chance(1, 4) {
                let slack = rng.range(1, 12) as usize;
                let fill = if rng.chance(1, 2) { 0 } else { rng.byte() };
                v.extend(std::iter::repeat(fill).take(slack));
                rep.count("account:slot-larger-than-value");
            }
            o.es.push((t, v));
        }
        let mut spare = match rng.below(4) { 0 => 0, 1 => rng.range(1, 11) as usize, _ => rng.below(60) as usize };
        if mode_huge {
            // one more entry filling the account up to 10 MiB - 50 bytes
            let fill = 10 * 1024 * 1024 - 50 - o.used() - 12;
            let mut v = vec![0x5au8; fill];
            v[..4].copy_from_slice(&((fill - 4) as u32).to_le_bytes());
            o.es.push((4, v));
            spare = 0;
        }
        o.n = o.used() + spare;
        let init = o.render();
        // sanity: the real library reads it
        let mut acct = RuntimeAccount::new(&init);
        let orig = init.len();
        let nops = rng.range(1, 6) as usize;
        let mut items: Vec<String> = Vec::new();
        let mut ops_done: Vec<String> = Vec::new();
        let mut successes = 0;
        // one AccountInfo for the whole history
        let (_pid, infos, _ix) = unsafe { solana_program_entrypoint::deserialize(acct.buf.as_mut_ptr() as *mut u8) };
        let info = &infos[0];
        for _ in 0..nops {
            let (t, r) = if rng.chance(1, 8) || o.es.is_empty() {
                let t = rng.below(tlv::NTAGS as u64) as usize;
                (t, o.count(t) + rng.below(2) as usize)
            } else {
                let i = rng.below(o.es.len() as u64) as usize;
                let t = o.es[i].0;
                (t, o.es[..i].iter().filter(|(x, _)| *x == t).count())
            };
            let borsh = rng.chance(1, 2);
            let cur = o.find(t, r).map(|i| o.es[i].1.len()).unwrap_or(8);
            let room = cur.saturating_sub(if borsh { 4 } else { 0 });
            let l = match rng.below(14) {
                _ if mode_huge && cur < 1000 => room + *rng.pick(&[50usize, 49, 51]),
                _ if mode_big && !mined.is_empty() && rng.chance(1, 4) => *rng.pick(&mined) + *rng.pick(&[0usize, 1, 2]),
                _ if mode_big && rng.chance(1, 2) => *rng.pick(&[100usize, 10_239, 10_240, 10_241, 11_000, 12_000, cur.saturating_sub(10_241), cur + 10_236]),
                0 => room,
                1 => room + 1,
                2 => room.saturating_sub(1),
                3 => 0,
                4 => room + rng.range(2, 60) as usize,
                5 => room / 2,
                6 if k % 7 == 0 => 10240 + rng.below(3) as usize,   // around the runtime's growth limit
                7 if k % 7 == 0 => 10241usize.saturating_sub(o.n - orig.min(o.n)) + room,
                _ => rng.below(50) as usize,
            };
            // every fifth monitor-only operation uses the fixed-capacity packer: what it does not write
            // keeps the old bytes, what the entry gains is zero
            let pad = if !to_coq && !mode_huge && rng.chance(1, 5) { Some(l) } else { None };
            let op = match pad {
                Some(cap) => { let dl = rng.below(cap as u64 + 1) as usize; RPOp { t, rep: r, data: rng.bytes(dl), borsh: false, pad } }
                None => RPOp { t, rep: r, data: rng.bytes(l), borsh, pad: None },
            };
            let borsh = borsh && pad.is_none();
            let enc = match pad {
                Some(cap) => {
                    let mut v = o.find(t, r).map(|i| o.es[i].1.clone()).unwrap_or_default();
                    if cap > v.len() { v.resize(cap, 0); }
                    v[..op.data.len()].copy_from_slice(&op.data);
                    v.truncate(cap);
                    rep.count("rp:fixed-capacity-packer");
                    v
                }
                None => var_enc(&op.data, borsh),
            };
            let before = info.try_borrow_data().unwrap().to_vec();
            let got = apply(info, &op);
            let after = info.try_borrow_data().unwrap().to_vec();
            ops_done.push(format!("tag {} rep {} new_len {} borsh {}", t, r, enc.len(), borsh));
            rep.monitor_runs += 1;
            // ---- oracle
            let idx = o.find(t, r);
            let want_ok = match idx {
                Some(i) => {
                    let old = o.es[i].1.len();
                    enc.len() <= old || (o.n + (enc.len() - old)).saturating_sub(orig) <= 10240
                }
                None => false,
            };
            let det = |what: &str| serde_json::json!({"initial_account": hexcap(&init), "ops": ops_done, "what": what, "observed": format!("{:?}", got),
                "before_len": before.len(), "after_len": after.len()}).to_string();
            if got.is_panic() {
                rep.violate("rp-panic", "realloc_and_pack panicked", det("panic"));
            }
            if got.is_ok() != want_ok && !got.is_panic() {
                rep.violate("rp-result", "realloc_and_pack must succeed iff the entry exists and the runtime allows the growth", det("result"));
            }
            if let (Res::Ok(()), Some(i)) = (&got, idx) {
                let old = o.es[i].1.len();
                rep.count(if enc.len() > old { "rp:grow:ok" } else if enc.len() < old { "rp:shrink:ok" } else { "rp:same:ok" });
                rep.count(if i == 0 { "position:first" } else if i + 1 == o.es.len() { "position:last" } else { "position:middle" });
                o.es[i].1 = enc.clone();
                o.n = o.n + enc.len() - old;
                successes += 1;
                let want = o.render();
                if after != want {
                    rep.violate("rp-layout", "after storing the value the account is not exactly (other entries byte-identical, size changed by the encoded-size difference, zero spare tail of the same size)",
                        serde_json::json!({"initial_account": hexcap(&init), "ops": ops_done, "observed": hexcap(&after), "expected": hexcap(&want)}).to_string());
                }
                if after.len() != before.len() + enc.len() - old {
                    rep.violate("rp-size", "the account did not grow/shrink by exactly the change in the encoded size", det("size"));
                }
                // decodes to the new value
                if borsh {
                    let mut copy = after.clone();
                    if tlv::get_var_borsh(&mut copy, t, r) != Res::Ok(op.data.clone()) {
                        rep.violate("rp-decode", "the entry does not decode to the new value", det("decode"));
                    }
                }
            } else if got.is_err() {
                rep.count(if idx.is_none() { "rp:err:missing" } else { "rp:err:limit" });
                if after != before {
                    rep.violate("rp-failed-changed", "a failed realloc_and_pack changed the account", det("failed changed"));
                }
            }
            if to_coq {
                items.push(format!("RP (tg {}) {} {} {} {} {} {}", t, r, emit::blob(&enc), emit::boolean(borsh), got.emit(|_| "tt".into()), cksum(&after), after.len()));
            }
        }
        drop(infos);
        // the length the runtime reads back is the data length
        if acct.serialized_len() != o.n && successes > 0 {
            rep.violate("rp-serialized-len", "the serialized length field does not match the new data length", serde_json::json!({"serialized": acct.serialized_len(), "expected": o.n}).to_string());
        }
        if to_coq {
            let fin = acct.data();
            rep.case(format!("CAcct {} {} [\n  {}\n ] {} {}", emit::blob(&init), orig, items.join(";\n  "), cksum(&fin), fin.len()), successes >= 1);
        } else {
            rep.monitor_case(k as u64, successes >= 1);
        }
    }
    let _ = (TAGS, TlvStateBorrowed::unpack(&[]).is_ok(), std::mem::size_of::<TlvStateMut>(), ArrayDiscriminator::LENGTH, ProgramError::InvalidRealloc);
    rep
}
