//! C09 / C10 — list view histories and opens on the real `ListView<T, L>` for 10 element
//! types x 4 prefix widths, at every start offset of a 16-aligned arena.
use crate::emit::{self, catch, Report, Res};
use crate::prng::Rng;
use crate::tlv::{cksum, pat};
use crate::Ctx;
use bytemuck::{Pod, Zeroable};
use solana_program_error::ProgramError;
use spl_list_view::{List, ListView};
use spl_pod::primitives::{PodU128, PodU16, PodU32, PodU64};

#[derive(Clone, Copy)]
#[repr(C)]
pub struct E35(pub [u8; 32], pub [u8; 3]);
unsafe impl Zeroable for E35 {}
unsafe impl Pod for E35 {}
#[derive(Clone, Copy)]
#[repr(C, align(8))]
pub struct A8(pub [u8; 16]);
unsafe impl Zeroable for A8 {}
unsafe impl Pod for A8 {}

/// user-defined length prefixes (`PodLength` is blanket-implemented): little-endian, N bytes wide
#[derive(Clone, Copy)]
#[repr(transparent)]
pub struct PodUN<const N: usize>(pub [u8; N]);
unsafe impl<const N: usize> Zeroable for PodUN<N> {}
unsafe impl<const N: usize> Pod for PodUN<N> {}
impl<const N: usize> TryFrom<usize> for PodUN<N> {
    type Error = core::num::TryFromIntError;
    fn try_from(v: usize) -> Result<Self, Self::Error> {
        if N < 8 && (v as u128) >= (1u128 << (8 * N)) {
            return Err(u8::try_from(256u16).unwrap_err());
        }
        let mut a = [0u8; N];
        a.copy_from_slice(&(v as u128).to_le_bytes()[..N]);
        Ok(PodUN(a))
    }
}
impl<const N: usize> From<PodUN<N>> for usize {
    fn from(p: PodUN<N>) -> usize {
        let mut b = [0u8; 16];
        b[..N].copy_from_slice(&p.0);
        usize::try_from(u128::from_le_bytes(b)).expect("value out of range for usize")
    }
}

/// a user-defined prefix whose byte encoding is big-endian (what a prefix means is its `Into<usize>`,
/// not its bytes): only used in the C10 sweep, the Coq model reads prefixes little-endian
#[derive(Clone, Copy)]
#[repr(transparent)]
pub struct PodBE32(pub [u8; 4]);
unsafe impl Zeroable for PodBE32 {}
unsafe impl Pod for PodBE32 {}
impl TryFrom<usize> for PodBE32 {
    type Error = core::num::TryFromIntError;
    fn try_from(v: usize) -> Result<Self, Self::Error> {
        Ok(PodBE32(u32::try_from(v)?.to_be_bytes()))
    }
}
impl From<PodBE32> for usize {
    fn from(p: PodBE32) -> usize {
        u32::from_be_bytes(p.0) as usize
    }
}

pub const NELEM: usize = 10;
pub const NPREF: usize = 7;
pub const NPREF_ALL: usize = 8;
pub const ELEM_NAMES: [&str; NELEM] = ["[u8;1]", "[u8;3]", "E35", "u16", "u32", "u64", "u128", "A8x16", "()", "[u64;0]"];
pub const PREF_NAMES: [&str; NPREF_ALL] = ["PodU16", "PodU32", "PodU64", "PodU128", "u8", "custom 24-bit", "custom 48-bit", "custom big-endian 32-bit"];
pub const PREF_SIZE: [usize; NPREF_ALL] = [2, 4, 8, 16, 1, 3, 6, 4];

/// Trait object-free dispatch: call the generic function `$f::<T, L>($args)`.
macro_rules! dispatch {
    ($ei:expr, $li:expr, $f:ident ( $($a:expr),* )) => {
        match $li {
            0 => dispatch!(@e $ei, PodU16, $f ( $($a),* )),
            1 => dispatch!(@e $ei, PodU32, $f ( $($a),* )),
            2 => dispatch!(@e $ei, PodU64, $f ( $($a),* )),
            3 => dispatch!(@e $ei, PodU128, $f ( $($a),* )),
            4 => dispatch!(@e $ei, u8, $f ( $($a),* )),
            5 => dispatch!(@e $ei, PodUN<3>, $f ( $($a),* )),
            6 => dispatch!(@e $ei, PodUN<6>, $f ( $($a),* )),
            _ => dispatch!(@e $ei, PodBE32, $f ( $($a),* )),
        }
    };
    (@e $ei:expr, $L:ty, $f:ident ( $($a:expr),* )) => {
        match $ei {
            0 => $f::<[u8; 1], $L>($($a),*),
            1 => $f::<[u8; 3], $L>($($a),*),
            2 => $f::<E35, $L>($($a),*),
            3 => $f::<u16, $L>($($a),*),
            4 => $f::<u32, $L>($($a),*),
            5 => $f::<u64, $L>($($a),*),
            6 => $f::<u128, $L>($($a),*),
            7 => $f::<A8, $L>($($a),*),
            8 => $f::<(), $L>($($a),*),
            _ => $f::<[u64; 0], $L>($($a),*),
        }
    };
}

pub trait PL: spl_list_view::PodLength {}
impl<T: spl_list_view::PodLength> PL for T {}

fn elem_dims<T: Pod, L: PL>() -> (usize, usize) {
    (core::mem::size_of::<T>(), core::mem::align_of::<T>())
}
pub fn dims(ei: usize) -> (usize, usize) {
    dispatch!(ei, 0usize, elem_dims())
}
fn from_bytes<T: Pod>(b: &[u8]) -> T {
    bytemuck::pod_read_unaligned::<T>(b)
}
fn to_bytes<T: Pod>(t: &T) -> Vec<u8> {
    bytemuck::bytes_of(t).to_vec()
}

fn g_open_ro<T: Pod, L: PL>(buf: &mut [u8]) -> Res<(usize, usize)> {
    catch(|| -> Result<(usize, usize), ProgramError> {
        let v = ListView::<T, L>::unpack(buf)?;
        Ok((v.len(), v.capacity()))
    })
}
fn g_open_mut<T: Pod, L: PL>(buf: &mut [u8]) -> Res<(usize, usize)> {
    catch(|| -> Result<(usize, usize), ProgramError> {
        let v = ListView::<T, L>::unpack_mut(buf)?;
        Ok((v.len(), v.capacity()))
    })
}
fn g_init<T: Pod, L: PL>(buf: &mut [u8]) -> Res<(usize, usize)> {
    catch(|| -> Result<(usize, usize), ProgramError> {
        let v = ListView::<T, L>::init(buf)?;
        Ok((v.len(), v.capacity()))
    })
}
fn g_push<T: Pod, L: PL>(buf: &mut [u8], item: &[u8]) -> Res<Vec<u8>> {
    catch(|| -> Result<Vec<u8>, ProgramError> {
        let mut v = ListView::<T, L>::unpack_mut(buf)?;
        v.push(from_bytes::<T>(item))?;
        Ok(vec![])
    })
}
fn g_remove<T: Pod, L: PL>(buf: &mut [u8], i: usize) -> Res<Vec<u8>> {
    catch(|| -> Result<Vec<u8>, ProgramError> {
        let mut v = ListView::<T, L>::unpack_mut(buf)?;
        let r = v.remove(i)?;
        Ok(to_bytes(&r))
    })
}
fn g_set<T: Pod, L: PL>(buf: &mut [u8], i: usize, item: &[u8]) -> Res<Vec<u8>> {
    catch(|| -> Result<Vec<u8>, ProgramError> {
        let mut v = ListView::<T, L>::unpack_mut(buf)?;
        match v.get_mut(i) {
            Some(slot) => {
                *slot = from_bytes::<T>(item);
                Ok(vec![])
            }
            None => Err(ProgramError::InvalidArgument),
        }
    })
}
fn g_sort<T: Pod, L: PL>(buf: &mut [u8]) -> Res<Vec<u8>> {
    catch(|| -> Result<Vec<u8>, ProgramError> {
        let mut v = ListView::<T, L>::unpack_mut(buf)?;
        v.sort_by(|a, b| bytemuck::bytes_of(a).cmp(bytemuck::bytes_of(b)));
        Ok(vec![])
    })
}
/// sort by a key on which many elements tie (first byte mod 4): the slice methods reached through
/// DerefMut are std's, so `sort_by` is stable; returns the visible bytes afterwards
fn g_sort_by_key<T: Pod, L: PL>(buf: &mut [u8]) -> Res<Vec<u8>> {
    catch(|| -> Result<Vec<u8>, ProgramError> {
        let mut v = ListView::<T, L>::unpack_mut(buf)?;
        v.sort_by(|a, b| (bytemuck::bytes_of(a)[0] % 4).cmp(&(bytemuck::bytes_of(b)[0] % 4)));
        let mut out = Vec::new();
        for x in v.iter() {
            out.extend_from_slice(bytemuck::bytes_of(x));
        }
        Ok(out)
    })
}
/// more than 20 elements with ties under the sort key: the visible slice must be what a Vec gives
/// (stable), also after re-opening read-only
fn stable_sort_scenarios(rep: &mut Report, rng: &mut Rng, count: usize, n_coq: usize) {
    for k in 0..count {
        let ei = [0usize, 1, 2][k % 3];
        let li = rng.below(NPREF as u64) as usize;
        let (szt, _) = dims(ei);
        let cap = rng.range(21, 60) as usize;
        let n = hdr(ei, li) + cap * szt;
        let mut big = vec![0u64; 600]; // 8-aligned backing
        let bytes: &mut [u8] = bytemuck::cast_slice_mut(&mut big);
        let buf = &mut bytes[..n];
        let init_bytes = buf.to_vec();
        if dispatch!(ei, li, g_init(buf)) != Res::Ok((0, cap)) {
            continue;
        }
        let mut items: Vec<String> = vec![format!("LOp LInit (ROk (blob 0 0)) {}", cksum(buf))];
        let len = rng.range(21, cap as u64) as usize;
        let mut model: Vec<Vec<u8>> = Vec::new();
        for _ in 0..len {
            let item = rng.bytes(szt);
            let _ = dispatch!(ei, li, g_push(buf, &item));
            items.push(format!("LOp (LPush {}) (ROk (blob 0 0)) {}", emit::blob(&item), cksum(buf)));
            model.push(item);
        }
        let got = dispatch!(ei, li, g_sort_by_key(buf));
        model.sort_by(|a, b| (a[0] % 4).cmp(&(b[0] % 4)));
        let want: Vec<u8> = model.concat();
        let reopened = dispatch!(ei, li, g_visible(buf, false)).map(|(_, b, _)| b);
        rep.count("sort:stable-with-ties");
        rep.monitor_runs += 1;
        if got != Res::Ok(want.clone()) || reopened != Res::Ok(want.clone()) {
            rep.violate("sort-with-ties", "after sort_by with a key on which elements tie, the visible slice is not what a vector holds (std's sort_by is stable)",
                serde_json::json!({"elem": ELEM_NAMES[ei], "prefix": PREF_NAMES[li], "elements": len, "observed": format!("{:?}", got.clone().map(|b| emit::hex(&b))), "expected": emit::hex(&want)}).to_string());
        }
        if k < n_coq {
            // the model sorts with its own stable insertion sort (proved stable: C09_sort_by_key_stable)
            items.push(format!("LOp LSortKey {} {}", got.clone().map(|_| Vec::<u8>::new()).emit(|v| emit::blob(v)), cksum(buf)));
            items.push(format!("QVisible {}", reopened.clone().map(|b| (b.len() / szt.max(1), b)).emit(|(c, b)| format!("({}, {})", c, cksum(b)))));
            rep.case(format!("CLv {} {} [\n  {}\n ] {} {}", emit_params(ei, li, 0), emit::blob(&init_bytes), items.join(";\n  "), cksum(buf), buf.len()), true);
        }
    }
}
/// (count, concatenated bytes, offset of the slice inside buf or usize::MAX when empty)
fn g_visible<T: Pod, L: PL>(buf: &mut [u8], mutable: bool) -> Res<(usize, Vec<u8>, usize)> {
    let base = buf.as_ptr() as usize;
    let blen = buf.len();
    catch(|| -> Result<(usize, Vec<u8>, usize), ProgramError> {
        let (n, bytes, ptr) = if mutable {
            let v = ListView::<T, L>::unpack_mut(buf)?;
            let s: &[T] = &v;
            (s.len(), bytemuck::cast_slice::<T, u8>(s).to_vec(), s.as_ptr() as usize)
        } else {
            let v = ListView::<T, L>::unpack(buf)?;
            let s: &[T] = &v;
            (s.len(), bytemuck::cast_slice::<T, u8>(s).to_vec(), s.as_ptr() as usize)
        };
        let off = ptr.wrapping_sub(base);
        assert!(off <= blen && off + bytes.len() <= blen, "visible slice outside the buffer");
        Ok((n, bytes, off))
    })
}
fn g_bytes<T: Pod, L: PL>(buf: &mut [u8]) -> Res<(usize, usize)> {
    catch(|| -> Result<(usize, usize), ProgramError> {
        let v = ListView::<T, L>::unpack(buf)?;
        Ok((v.bytes_used()?, v.bytes_allocated()?))
    })
}
fn g_size_of<T: Pod, L: PL>(n: usize) -> Res<usize> {
    catch(|| ListView::<T, L>::size_of(n))
}

#[repr(C, align(16))]
pub struct Arena(pub [u8; 1024]);

#[derive(Clone, Debug)]
pub enum Op {
    Init,
    Push(u8),
    Remove(usize),
    Set(usize, u8),
    Sort,
}
fn op_name(o: &Op) -> &'static str {
    match o {
        Op::Init => "init",
        Op::Push(_) => "push",
        Op::Remove(_) => "remove",
        Op::Set(..) => "set",
        Op::Sort => "sort",
    }
}

pub fn apply(ei: usize, li: usize, buf: &mut [u8], op: &Op) -> Res<Vec<u8>> {
    let szt = dims(ei).0;
    match op {
        Op::Init => dispatch!(ei, li, g_init(buf)).map(|_| vec![]),
        Op::Push(seed) => {
            let it = pat(*seed, szt);
            dispatch!(ei, li, g_push(buf, &it))
        }
        Op::Remove(i) => dispatch!(ei, li, g_remove(buf, *i)),
        Op::Set(i, seed) => {
            let it = pat(*seed, szt);
            dispatch!(ei, li, g_set(buf, *i, &it))
        }
        Op::Sort => dispatch!(ei, li, g_sort(buf)),
    }
}
fn emit_op(ei: usize, op: &Op) -> String {
    let szt = dims(ei).0;
    match op {
        Op::Init => "LInit".into(),
        Op::Push(s) => format!("(LPush (pat {} {}))", s, szt),
        Op::Remove(i) => format!("(LRemove {})", i),
        Op::Set(i, s) => format!("(LSet {} (pat {} {}))", i, s, szt),
        Op::Sort => "LSort".into(),
    }
}
pub fn emit_params(ei: usize, li: usize, off: usize) -> String {
    let (s, a) = dims(ei);
    format!("{{| szL := {}; szT := {}; alT := {}; base := {} |}}", PREF_SIZE[li], s, a, off)
}
fn hdr(ei: usize, li: usize) -> usize {
    let (_, a) = dims(ei);
    let l = PREF_SIZE[li];
    if a <= 1 || l % a == 0 {
        l
    } else {
        l + (a - l % a)
    }
}
fn pair(r: &Res<(usize, usize)>) -> String {
    r.emit(|(a, b)| format!("({}, {})", a, b))
}

/// One history on a buffer of `n` bytes at arena offset `off`.
pub fn run_history(rep: &mut Report, prop: &str, rng: &mut Rng, ei: usize, li: usize, off: usize, n: usize, nops: usize, to_coq: bool) {
    let mut arena = Arena([0u8; 1024]);
    let (szt, alt) = dims(ei);
    for b in arena.0.iter_mut() {
        *b = rng.byte();
    }
    let init_bytes = arena.0[off..off + n].to_vec();
    let h = hdr(ei, li);
    let mut items: Vec<String> = Vec::new();
    // oracle: a capacity-bounded vector; None until a successful init
    let mut oracle: Option<(usize, Vec<Vec<u8>>)> = None;
    let mut ops_done: Vec<String> = Vec::new();
    let mut successes = 0;
    for step in 0..nops {
        let cur_len = oracle.as_ref().map(|o| o.1.len()).unwrap_or(0);
        let op = if step == 0 && (li == 3 || rng.chance(9, 10)) {
            Op::Init
        } else {
            match rng.below(20) {
                0 => Op::Init,
                1..=9 => Op::Push(rng.byte()),
                10..=13 => Op::Remove(match rng.below(5) {
                    0 => cur_len,
                    1 => cur_len + 1 + rng.below(3) as usize,
                    2 => 0,
                    3 => cur_len.saturating_sub(1),
                    _ => rng.below(cur_len as u64 + 1) as usize,
                }),
                14..=16 => Op::Set(
                    if rng.chance(1, 5) { cur_len + rng.below(2) as usize } else { rng.below(cur_len as u64 + 1) as usize },
                    rng.byte(),
                ),
                _ => Op::Sort,
            }
        };
        let before = arena.0[off..off + n].to_vec();
        let got = apply(ei, li, &mut arena.0[off..off + n], &op);
        ops_done.push(format!("{:?}", op));
        rep.count(&format!("op:{}:{}", op_name(&op), got.kind()));
        if got.is_ok() {
            successes += 1;
        }
        let after = arena.0[off..off + n].to_vec();
        let ctx = |extra: serde_json::Value| {
            serde_json::json!({"elem": ELEM_NAMES[ei], "prefix": PREF_NAMES[li], "offset": off, "buffer_len": n,
                "initial": emit::hex(&init_bytes), "ops": ops_done, "observed": format!("{:?}", got), "extra": extra})
            .to_string()
        };
        if got.is_panic() && prop == "C09" {
            rep.violate("lv-op-panic", "a list-view operation panicked", ctx(serde_json::json!(null)));
        }
        // ---- monitor against the vector oracle (C09)
        if prop == "C09" {
            if got.is_err() && before != after {
                rep.violate(&format!("failed-op-changed-bytes:{}", op_name(&op)), "a failed list-view operation changed the buffer",
                    ctx(serde_json::json!({"before": emit::hex(&before), "after": emit::hex(&after)})));
            }
            // expected effect
            let opened_ok = n >= h && (if szt > 0 { (n - h) % szt == 0 } else { n == h }) && (alt <= 1 || (off + h) % alt == 0);
            let cap = if szt > 0 && n >= h { (n - h) / szt } else { 0 };
            let mut expect_ok: Option<bool> = None;
            match (&op, &mut oracle) {
                (Op::Init, _) => {
                    expect_ok = Some(opened_ok);
                    if opened_ok {
                        oracle = Some((cap, vec![]));
                    }
                }
                (_, None) => {}
                (Op::Push(s), Some((c, xs))) => {
                    let fits_prefix = (xs.len() as u128 + 1) < (1u128 << (8 * PREF_SIZE[li].min(15)));
                    let ok = xs.len() < *c && fits_prefix;
                    expect_ok = Some(ok);
                    if ok {
                        xs.push(pat(*s, szt));
                    }
                }
                (Op::Remove(i), Some((_, xs))) => {
                    let ok = *i < xs.len();
                    expect_ok = Some(ok);
                    if ok {
                        let r = xs.remove(*i);
                        if got != Res::Ok(r.clone()) {
                            rep.violate("remove-wrong-element", "remove returned a different element than the vector semantics", ctx(serde_json::json!({"expected": emit::hex(&r)})));
                        }
                    }
                }
                (Op::Set(i, s), Some((_, xs))) => {
                    let ok = *i < xs.len();
                    expect_ok = Some(ok);
                    if ok {
                        xs[*i] = pat(*s, szt);
                    }
                }
                (Op::Sort, Some((_, xs))) => {
                    expect_ok = Some(true);
                    xs.sort();
                }
            }
            if let Some(e) = expect_ok {
                if e != got.is_ok() && !got.is_panic() {
                    rep.violate(&format!("wrong-result:{}", op_name(&op)), "operation succeeded/failed contrary to the bounded-vector semantics",
                        ctx(serde_json::json!({"expected_ok": e})));
                    oracle = None;
                }
            }
            if let Some((c, xs)) = &oracle {
                for mutable in [false, true] {
                    let v = dispatch!(ei, li, g_visible(&mut arena.0[off..off + n], mutable));
                    let want: Vec<u8> = xs.concat();
                    let good = match &v {
                        Res::Ok((cnt, bytes, o)) => *cnt == xs.len() && *bytes == want && (*o == h || bytes.is_empty()),
                        _ => false,
                    };
                    if !good {
                        rep.violate(&format!("visible-mismatch:{}", op_name(&op)), "visible slice differs from what a vector with the same capacity would hold",
                            ctx(serde_json::json!({"mutable_view": mutable, "observed": format!("{:?}", v), "expected": emit::hex(&want), "expected_len": xs.len()})));
                    }
                }
                let o = dispatch!(ei, li, g_open_ro(&mut arena.0[off..off + n]));
                if o != Res::Ok((xs.len(), *c)) {
                    rep.violate("len-capacity", "length/capacity differ from the vector's (or length exceeds capacity)", ctx(serde_json::json!({"observed": format!("{:?}", o), "expected": (xs.len(), c)})));
                }
                // prefix bytes: little-endian element count; padding untouched
                let lbytes = &arena.0[off..off + PREF_SIZE[li]];
                let mut w2 = vec![0u8; PREF_SIZE[li]];
                for (k, b) in (xs.len() as u128).to_le_bytes().iter().enumerate() {
                    if k < PREF_SIZE[li] {
                        w2[k] = *b;
                    }
                }
                if lbytes != &w2[..] {
                    rep.violate("prefix-bytes", "the length prefix is not the little-endian element count", ctx(serde_json::json!({"prefix": emit::hex(lbytes)})));
                }
                if arena.0[off + PREF_SIZE[li]..off + h] != init_bytes[PREF_SIZE[li]..h] {
                    rep.violate("padding-touched", "alignment padding bytes were modified", ctx(serde_json::json!(null)));
                }
            }
        }
        if to_coq {
            let payload = match (&op, &got) {
                (Op::Remove(_), Res::Ok(v)) => Res::Ok(v.clone()),
                (_, Res::Ok(_)) => Res::Ok(vec![]),
                (_, Res::Err(e)) => Res::Err(e.clone()),
                (_, Res::Panic(e)) => Res::Panic(e.clone()),
            };
            items.push(format!("LOp {} {} {}", emit_op(ei, &op), payload.emit(|v| emit::blob(v)), cksum(&after)));
            if rng.chance(1, 2) {
                match rng.below(4) {
                    0 => {
                        let r = if rng.chance(1, 2) {
                            dispatch!(ei, li, g_open_ro(&mut arena.0[off..off + n]))
                        } else {
                            dispatch!(ei, li, g_open_mut(&mut arena.0[off..off + n]))
                        };
                        items.push(format!("QOpen {}", pair(&r)));
                    }
                    1 | 2 => {
                        let m = rng.chance(1, 2);
                        let r = dispatch!(ei, li, g_visible(&mut arena.0[off..off + n], m));
                        items.push(format!("QVisible {}", r.emit(|(c, b, _)| format!("({}, {})", c, cksum(b)))));
                    }
                    _ => {
                        let r = dispatch!(ei, li, g_bytes(&mut arena.0[off..off + n]));
                        items.push(format!("QBytes {}", pair(&r)));
                    }
                }
            }
        }
    }
    if successes >= 2 {
        rep.count("history:>=2-successful-ops");
    }
    let fin = arena.0[off..off + n].to_vec();
    if to_coq {
        let term = format!(
            "CLv {} {} [\n  {}\n ] {} {}",
            emit_params(ei, li, off),
            emit::blob(&init_bytes),
            items.join(";\n  "),
            cksum(&fin),
            fin.len()
        );
        rep.case(term, successes >= 2);
    } else {
        use std::hash::{Hash, Hasher};
        let mut hh = std::collections::hash_map::DefaultHasher::new();
        (ei, li, off, &fin, &ops_done).hash(&mut hh);
        rep.monitor_case(hh.finish(), successes >= 2);
    }
}

/// capacities above what the prefix can count (PodU16: 65536 and more, u8: 256 and more) are fine as long
/// as the stored length fits: read-only, mutable and init must all accept
fn boundary_capacity(rep: &mut Report) {
    for (li, cap) in [(0usize, 65_535usize), (0, 65_536), (0, 65_537), (0, 70_000), (4, 255), (4, 256), (4, 257), (4, 1000), (5, (1 << 24) + 1)] {
        let w = PREF_SIZE[li];
        for stored in [0usize, 1, cap.min((1usize << (8 * w)) - 1)] {
            let mut buf = vec![0u8; w + cap];
            buf[..w].copy_from_slice(&(stored as u64).to_le_bytes()[..w]);
            let ro = dispatch!(0usize, li, g_open_ro(&mut buf));
            let mu = dispatch!(0usize, li, g_open_mut(&mut buf));
            let mut fresh = vec![0u8; w + cap];
            let ini = dispatch!(0usize, li, g_init(&mut fresh));
            rep.count("boundary:capacity-above-prefix-max");
            rep.monitor_runs += 1;
            if ro != Res::Ok((stored, cap)) || mu != Res::Ok((stored, cap)) || ini != Res::Ok((0, cap)) {
                rep.violate("open-capacity-above-prefix-max", "a buffer whose capacity exceeds what the length prefix can count must open (read-only, mutably, init) as long as the stored length fits",
                    serde_json::json!({"prefix": PREF_NAMES[li], "capacity": cap, "stored": stored, "unpack": format!("{:?}", ro), "unpack_mut": format!("{:?}", mu), "init": format!("{:?}", ini)}).to_string());
            }
        }
    }
}

/// the PodU16 boundary: stored length 65534/65535 with capacity 65535/65536 (D2)
fn boundary_u16(rep: &mut Report, prop: &str) {
    for (cap, stored) in [(65536usize, 65535usize), (65535, 65534), (65535, 65535), (65536, 65534)] {
        let mut buf = vec![0u8; 2 + cap];
        buf[..2].copy_from_slice(&(stored as u16).to_le_bytes());
        let before = buf.clone();
        let r1 = g_push::<[u8; 1], PodU16>(&mut buf, &[0xab]);
        let ck1 = cksum(&buf);
        let changed = buf != before;
        if prop == "C09" {
            if r1.is_err() && changed {
                rep.violate("failed-op-changed-bytes:push", "a failed push changed the buffer (PodU16 prefix at its maximum)",
                    serde_json::json!({"capacity": cap, "stored_length": stored, "observed": format!("{:?}", r1)}).to_string());
            }
            let expect_ok = stored < cap && stored + 1 <= 65535;
            if expect_ok != r1.is_ok() {
                rep.violate("wrong-result:push", "push at the prefix maximum", serde_json::json!({"capacity": cap, "stored_length": stored, "observed": format!("{:?}", r1)}).to_string());
            }
        }
        rep.count(&format!("boundary:u16:{}", r1.kind()));
        let r2 = g_open_ro::<[u8; 1], PodU16>(&mut buf);
        let term = format!(
            "CLv {{| szL := 2; szT := 1; alT := 1; base := 0 |}} (le_enc 2 {} ++ zeros (N.to_nat {})) [LOp (LPush [xab]) {} {}; QOpen {}] {} {}",
            stored, cap, r1.emit(|v| emit::blob(v)), ck1, pair(&r2), cksum(&buf), buf.len()
        );
        rep.case(term, true);
    }
}

pub fn run_c09(ctx: &Ctx) -> Report {
    let mut rep = Report::new("C09");
    rep.corr_module = "ListView".into();
    rep.expect_classes(&[
        "op:init:ok", "op:init:err", "op:push:ok", "op:push:err", "op:remove:ok", "op:remove:err", "op:set:ok", "op:set:err",
        "op:sort:ok", "history:>=2-successful-ops", "boundary:u16:ok", "boundary:u16:err", "size_of:ok", "size_of:err",
        "sort:stable-with-ties", "boundary:capacity-above-prefix-max",
    ]);
    let mut rng = Rng::new(ctx.seed.wrapping_mul(131).wrapping_add(9));
    boundary_u16(&mut rep, "C09");
    boundary_capacity(&mut rep);
    stable_sort_scenarios(&mut rep, &mut rng, ctx.scale(150, 1500), ctx.scale(30, 300));
    // size_of: exactness and overflow
    for ei in 0..NELEM {
        for li in 0..NPREF {
            let (szt, _) = dims(ei);
            for nitems in [0usize, 1, 2, 7, 1000, usize::MAX / 35, usize::MAX / 35 + 1, usize::MAX / 2, usize::MAX] {
                let r = dispatch!(ei, li, g_size_of(nitems));
                rep.count(&format!("size_of:{}", r.kind()));
                rep.case(format!("CSize {} {} {}", emit_params(ei, li, 0), nitems, r.emit(|v| format!("{}", v))), r.is_ok());
                if let Res::Ok(sz) = r {
                    // a buffer of the reported size has capacity exactly n (non-zero-sized elements)
                    if szt > 0 && sz <= 600 {
                        let mut arena = Arena([0u8; 1024]);
                        let o = dispatch!(ei, li, g_init(&mut arena.0[..sz]));
                        if o != Res::Ok((0, nitems)) {
                            rep.violate("size-of-capacity", "a buffer of size_of(n) bytes does not have capacity n",
                                serde_json::json!({"elem": ELEM_NAMES[ei], "prefix": PREF_NAMES[li], "n": nitems, "size": sz, "observed": format!("{:?}", o)}).to_string());
                        }
                        if sz > 0 {
                            let o2 = dispatch!(ei, li, g_init(&mut arena.0[..sz - 1]));
                            if let Res::Ok((_, c)) = o2 {
                                if c >= nitems && nitems > 0 {
                                    rep.violate("size-of-capacity", "one byte less than size_of(n) still has capacity n",
                                        serde_json::json!({"elem": ELEM_NAMES[ei], "prefix": PREF_NAMES[li], "n": nitems}).to_string());
                                }
                            }
                        }
                    }
                }
            }
        }
    }
    let n_coq = ctx.scale(1500, 25000);
    let n_mon = ctx.scale(30_000, 500_000);
    for k in 0..(n_coq + n_mon) {
        let ei = rng.below(NELEM as u64) as usize;
        let li = rng.below(NPREF as u64) as usize;
        let (szt, alt) = dims(ei);
        let cap = rng.below(9) as usize;
        let h = hdr(ei, li);
        let slop = if rng.chance(1, 10) { rng.range(1, 3) as usize } else { 0 };
        let n = h + cap * szt + slop;
        let off = if rng.chance(1, 8) { rng.below(16) as usize } else { (rng.below(4) as usize * alt.max(1)) % 16 };
        let nops = rng.range(1, 16) as usize;
        run_history(&mut rep, "C09", &mut rng, ei, li, off, n.min(900), nops, k < n_coq);
    }
    rep
}

/// stored-length candidates for an open, truncated to the prefix width
fn stored_candidates(cap: usize, li: usize, szt: usize) -> Vec<u128> {
    let w = PREF_SIZE[li];
    let max: u128 = if w == 16 { u128::MAX } else { (1u128 << (8 * w)) - 1 };
    let mut v: Vec<u128> = vec![0, cap as u128, cap as u128 + 1, max, 1u128 << 63, (1u128 << 64) - 1, 1u128 << 64, u128::MAX, 1];
    // stored lengths whose byte count (length * element size) wraps around 2^64 or 2^32 to something that fits
    if szt > 0 {
        for modulus in [1u128 << 64, 1u128 << 32] {
            for j in 1..=2u128 {
                for b in 0..=(cap * szt + szt) as u128 {
                    if (modulus * j + b) % szt as u128 == 0 {
                        v.push((modulus * j + b) / szt as u128);
                    }
                }
            }
        }
    }
    for x in v.iter_mut() {
        *x &= max;
    }
    v
}

pub fn run_c10(ctx: &Ctx) -> Report {
    let mut rep = Report::new("C10");
    rep.corr_module = "ListView".into();
    rep.expect_classes(&["open:ok", "open:err", "open:known-panic", "open:misaligned", "open:not-multiple", "open:too-short", "open:len>cap", "boundary:capacity-above-prefix-max"]);
    let mut rng = Rng::new(ctx.seed.wrapping_mul(137).wrapping_add(10));
    let mut count = 0usize;
    boundary_capacity(&mut rep);
    let stride = ctx.scale(97, 11);
    for ei in 0..NELEM {
        for li in 0..NPREF_ALL {
            let (szt, alt) = dims(ei);
            let h = hdr(ei, li);
            let maxlen = h + 3 * szt + 2;
            for n in 0..=maxlen {
                for off in 0..16usize {
                    let cap = if n >= h && szt > 0 { (n - h) / szt } else { 0 };
                    for stored in stored_candidates(cap, li, szt) {
                        count += 1;
                        let mut arena = Arena([0u8; 1024]);
                        for b in arena.0[..off + n + 4].iter_mut() {
                            *b = rng.byte();
                        }
                        let w = PREF_SIZE[li];
                        if n >= w {
                            if li == 7 {
                                arena.0[off..off + w].copy_from_slice(&(stored as u32).to_be_bytes());
                            } else {
                                arena.0[off..off + w].copy_from_slice(&stored.to_le_bytes()[..w]);
                            }
                        }
                        let bytes = arena.0[off..off + n].to_vec();
                        let ro = dispatch!(ei, li, g_open_ro(&mut arena.0[off..off + n]));
                        let mu = dispatch!(ei, li, g_open_mut(&mut arena.0[off..off + n]));
                        let untouched = arena.0[off..off + n] == bytes[..];
                        // independent acceptance rule
                        let layout_ok = n >= h && (if szt > 0 { (n - h) % szt == 0 } else { n == h }) && (alt <= 1 || (off + h) % alt == 0);
                        let stored_eff: u128 = if n >= w { stored } else { 0 };
                        let known = layout_ok && w == 16 && stored_eff >= (1u128 << 64);
                        let accept = layout_ok && stored_eff <= cap as u128;
                        if n < h {
                            rep.count("open:too-short");
                        } else if alt > 1 && (off + h) % alt != 0 {
                            rep.count("open:misaligned");
                        } else if !layout_ok {
                            rep.count("open:not-multiple");
                        } else if !accept {
                            rep.count("open:len>cap");
                        }
                        let detail = || serde_json::json!({"elem": ELEM_NAMES[ei], "prefix": PREF_NAMES[li], "offset": off, "bytes": emit::hex(&bytes),
                            "unpack": format!("{:?}", ro), "unpack_mut": format!("{:?}", mu)}).to_string();
                        for (name, r) in [("unpack", &ro), ("unpack_mut", &mu)] {
                            match r {
                                Res::Panic(_) if known => {
                                    rep.violate("podu128-prefix-over-usize", "ListView::<_, PodU128>::unpack/unpack_mut panics when the stored length exceeds usize::MAX", detail());
                                    rep.count("open:known-panic");
                                }
                                Res::Panic(_) => rep.violate(&format!("open-panic:{}", name), "opening a list view panicked", detail()),
                                Res::Ok((l, c)) => {
                                    rep.count("open:ok");
                                    if !accept || *l as u128 != stored_eff || *c != cap || l > c {
                                        rep.violate(&format!("open-accepts-wrongly:{}", name), "a buffer that must be rejected was opened, or length/capacity are wrong", detail());
                                    }
                                }
                                Res::Err(_) => {
                                    rep.count("open:err");
                                    if accept {
                                        rep.violate(&format!("open-rejects-wrongly:{}", name), "a well-formed buffer was rejected", detail());
                                    }
                                }
                            }
                        }
                        if ro.kind() != mu.kind() || (ro.is_ok() && ro != mu) {
                            rep.violate("ro-mut-differ", "read-only and mutable opening disagree", detail());
                        }
                        if !untouched {
                            rep.violate("open-mutates", "opening changed the bytes", detail());
                        }
                        if ro.is_ok() {
                            let v1 = dispatch!(ei, li, g_visible(&mut arena.0[off..off + n], false));
                            let v2 = dispatch!(ei, li, g_visible(&mut arena.0[off..off + n], true));
                            if v1 != v2 || !v1.is_ok() {
                                rep.violate("ro-mut-elements-differ", "read-only and mutable views expose different elements (or one of them outside the buffer)", detail());
                            }
                        }
                        if count % stride == 0 && li != 7 {
                            let init_r = {
                                let mut copy = Arena([0u8; 1024]);
                                copy.0[off..off + n].copy_from_slice(&bytes);
                                dispatch!(ei, li, g_init(&mut copy.0[off..off + n]))
                            };
                            rep.case(
                                format!("CLv {} {} [QOpen {}; QOpen {}; QInitCopy {}] {} {}",
                                    emit_params(ei, li, off), emit::blob(&bytes), pair(&ro), pair(&mu), pair(&init_r), cksum(&bytes), n),
                                ro.is_ok(),
                            );
                        } else {
                            rep.monitor_case(count as u64, ro.is_ok());
                        }
                    }
                }
            }
        }
    }
    rep.exhaustive.push("every buffer length 0..header+3 elements+2 x every start offset 0..15 x 9 stored lengths x 10 element types x 4 prefix widths (remaining bytes random)".into());
    rep
}
