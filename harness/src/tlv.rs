//! C01, C03, C04 — TLV histories on the real `TlvStateMut`/`Borrowed`/`Owned`, observed
//! step by step for the in-Coq correspondence, with a `Vec<(tag, bytes)>` oracle and an
//! independent encoder as monitor.  (C02's arbitrary-bytes decoding is in tlv_parse.rs.)
use crate::emit::{self, catch, Report, Res};
use crate::prng::Rng;
use crate::Ctx;
use borsh::{BorshDeserialize, BorshSerialize};
use bytemuck::{Pod, Zeroable};
use solana_program_error::ProgramError;
use spl_discriminator::{ArrayDiscriminator, SplDiscriminate};
use spl_type_length_value::{
    state::{TlvState, TlvStateBorrowed, TlvStateMut, TlvStateOwned},
    variable_len_pack::VariableLenPack,
    SplBorshVariableLenPack,
};

pub const TAGS: [[u8; 8]; 5] = [
    [1, 1, 1, 1, 1, 1, 1, 1],
    [2, 2, 2, 2, 2, 2, 2, 2],
    [1, 1, 1, 1, 1, 1, 1, 9],
    [0, 0, 0, 0, 0, 0, 0, 5],
    [7, 0, 0, 0, 0, 0, 0, 0],
];
pub const NTAGS: usize = 5;
pub const TYPED_SIZES: [usize; 5] = [0, 1, 3, 5, 32];

pub fn cksum(b: &[u8]) -> u64 {
    let (mut a, mut s) = (1u64, 0u64);
    for &x in b {
        a = (a + x as u64) % 65521;
        s = (s + a) % 65521;
    }
    s * 65536 + a
}
pub fn pat(seed: u8, n: usize) -> Vec<u8> {
    (0..n).map(|i| seed.wrapping_add((7 * i) as u8)).collect()
}
/// what a write stores: a pattern, or (seeds 250..255) a payload that itself looks like a piece of
/// this very format -- zeros / a terminator followed by garbage / an encoded entry of a table tag /
/// the entry's own header again / all ones
pub fn wpat(seed: u8, n: usize) -> Vec<u8> {
    let mut v: Vec<u8> = match seed {
        250 => vec![0u8; n],
        251 => { let mut x = vec![0u8; 8]; x.extend((0..n).map(|i| 0x80 | i as u8)); x }
        252 => { let mut x = TAGS[1].to_vec(); x.extend_from_slice(&3u32.to_le_bytes()); x.extend_from_slice(&[9, 9, 9]); x.extend_from_slice(&TAGS[0]); x.extend_from_slice(&0u32.to_le_bytes()); x }
        253 => { let mut x = TAGS[0].to_vec(); x.extend_from_slice(&(n as u32).to_le_bytes()); x.extend_from_slice(&TAGS[0]); x.extend_from_slice(&0xffff_ffffu32.to_le_bytes()); x }
        254 => vec![0xffu8; n],
        255 => { let mut x = vec![0u8; 7]; x.push(1); x.extend_from_slice(&[0u8; 12]); x }
        _ => return pat(seed, n),
    };
    while v.len() < n {
        let k = v.len();
        v.push(v[k % 13] ^ 0x11);
    }
    v.truncate(n);
    v
}
fn emit_wpat(seed: u8, n: usize) -> String {
    if seed >= 250 { emit::blob(&wpat(seed, n)) } else { format!("(pat {} {})", seed, n) }
}

macro_rules! deftag {
    ($T:ident, $P:ident, $B:ident, $H:ident, $k:expr) => {
        pub struct $T;
        impl SplDiscriminate for $T {
            const SPL_DISCRIMINATOR: ArrayDiscriminator = ArrayDiscriminator::new(TAGS[$k]);
        }
        /// alignment-1 Pod value of SZ bytes with a non-zero default
        #[derive(Clone, Copy)]
        #[repr(transparent)]
        pub struct $P<const SZ: usize>(pub [u8; SZ]);
        unsafe impl<const SZ: usize> Zeroable for $P<SZ> {}
        unsafe impl<const SZ: usize> Pod for $P<SZ> {}
        impl<const SZ: usize> Default for $P<SZ> {
            fn default() -> Self {
                let mut a = [0u8; SZ];
                for (i, x) in a.iter_mut().enumerate() {
                    *x = 0xd0u8.wrapping_add(i as u8);
                }
                $P(a)
            }
        }
        impl<const SZ: usize> SplDiscriminate for $P<SZ> {
            const SPL_DISCRIMINATOR: ArrayDiscriminator = ArrayDiscriminator::new(TAGS[$k]);
        }
        /// Borsh value packed through the derived `VariableLenPack`
        #[derive(Clone, Debug, PartialEq, BorshSerialize, BorshDeserialize, SplBorshVariableLenPack)]
        pub struct $B {
            pub data: Vec<u8>,
        }
        impl SplDiscriminate for $B {
            const SPL_DISCRIMINATOR: ArrayDiscriminator = ArrayDiscriminator::new(TAGS[$k]);
        }
        impl $B {
            pub fn new(data: Vec<u8>) -> Self {
                $B { data }
            }
        }
        /// hand-written packer: checks the slot first, writes nothing on failure
        #[derive(Clone, Debug, PartialEq)]
        pub struct $H(pub Vec<u8>);
        impl $H {
            pub fn new(v: Vec<u8>) -> Self {
                $H(v)
            }
        }
        impl SplDiscriminate for $H {
            const SPL_DISCRIMINATOR: ArrayDiscriminator = ArrayDiscriminator::new(TAGS[$k]);
        }
        impl VariableLenPack for $H {
            fn pack_into_slice(&self, dst: &mut [u8]) -> Result<(), ProgramError> {
                if dst.len() < self.0.len() {
                    return Err(ProgramError::AccountDataTooSmall);
                }
                dst[..self.0.len()].copy_from_slice(&self.0);
                Ok(())
            }
            fn unpack_from_slice(src: &[u8]) -> Result<Self, ProgramError> {
                Ok($H(src.to_vec()))
            }
            fn get_packed_len(&self) -> Result<usize, ProgramError> {
                Ok(self.0.len())
            }
        }
    };
}
deftag!(T0, P0, B0, H0, 0);
deftag!(T1, P1, B1, H1, 1);
deftag!(T2, P2, B2, H2, 2);
deftag!(T3, P3, B3, H3, 3);
deftag!(T4, P4, B4, H4, 4);

/// a packer whose `unpack_from_slice` validates more than `pack_into_slice` does (validation on read):
/// it reads back only values whose first byte is below 0x80
macro_rules! defstrict {
    ($S:ident, $k:expr) => {
        #[derive(Clone, Debug, PartialEq)]
        pub struct $S(pub Vec<u8>);
        impl SplDiscriminate for $S {
            const SPL_DISCRIMINATOR: ArrayDiscriminator = ArrayDiscriminator::new(TAGS[$k]);
        }
        impl VariableLenPack for $S {
            fn pack_into_slice(&self, dst: &mut [u8]) -> Result<(), ProgramError> {
                if dst.len() < self.0.len() {
                    return Err(ProgramError::AccountDataTooSmall);
                }
                dst[..self.0.len()].copy_from_slice(&self.0);
                Ok(())
            }
            fn unpack_from_slice(src: &[u8]) -> Result<Self, ProgramError> {
                if src.first().map(|b| *b >= 0x80).unwrap_or(false) {
                    return Err(ProgramError::InvalidAccountData);
                }
                Ok($S(src.to_vec()))
            }
            fn get_packed_len(&self) -> Result<usize, ProgramError> {
                Ok(self.0.len())
            }
        }
    };
}
defstrict!(S0, 0);
defstrict!(S1, 1);
defstrict!(S2, 2);
defstrict!(S3, 3);
defstrict!(S4, 4);

/// dispatch on the tag index: binds `$T`, `$P`, `$B`, `$H` as type aliases inside `$body`
macro_rules! with_tag {
    ($k:expr, $T:ident, $P:ident, $B:ident, $H:ident, $body:block) => {
        match $k {
            0 => { type $T = T0; type $P<const S: usize> = P0<S>; type $B = B0; type $H = H0; $body }
            1 => { type $T = T1; type $P<const S: usize> = P1<S>; type $B = B1; type $H = H1; $body }
            2 => { type $T = T2; type $P<const S: usize> = P2<S>; type $B = B2; type $H = H2; $body }
            3 => { type $T = T3; type $P<const S: usize> = P3<S>; type $B = B3; type $H = H3; $body }
            _ => { type $T = T4; type $P<const S: usize> = P4<S>; type $B = B4; type $H = H4; $body }
        }
    };
}
macro_rules! with_size {
    ($sz:expr, $S:ident, $body:block) => {
        match $sz {
            0 => { const $S: usize = 0; $body }
            1 => { const $S: usize = 1; $body }
            3 => { const $S: usize = 3; $body }
            5 => { const $S: usize = 5; $body }
            _ => { const $S: usize = 32; $body }
        }
    };
}

#[derive(Clone, Debug)]
pub enum Op {
    Alloc { t: usize, len: usize, allow: bool },
    Init { t: usize, size: usize, allow: bool },
    Realloc { t: usize, len: usize, rep: usize },
    Write { t: usize, rep: usize, seed: u8 },
    WriteTyped { t: usize, rep: usize, size: usize, seed: u8 },
    PackVar { t: usize, rep: usize, data: Vec<u8>, borsh: bool },
    AllocPack { t: usize, data: Vec<u8>, borsh: bool, allow: bool },
}
#[derive(Clone, Debug)]
pub enum Query {
    Get { t: usize, rep: usize },
    GetTyped { t: usize, rep: usize, size: usize },
    Discs,
    Open,
}

fn offset_in(buf: &[u8], s: &[u8]) -> usize {
    (s.as_ptr() as usize).wrapping_sub(buf.as_ptr() as usize)
}
pub fn default_bytes(size: usize) -> Vec<u8> {
    (0..size).map(|i| 0xd0u8.wrapping_add(i as u8)).collect()
}
pub fn var_enc(data: &[u8], borsh: bool) -> Vec<u8> {
    if borsh {
        let mut v = (data.len() as u32).to_le_bytes().to_vec();
        v.extend_from_slice(data);
        v
    } else {
        data.to_vec()
    }
}

/// Run one mutation on the real implementation; result = (value offset, repetition or 0).
/// `length` for Write ops is discovered from the live entry.
pub fn apply_op(buf: &mut [u8], op: &Op) -> Res<(usize, usize)> {
    let base = buf.as_ptr() as usize;
    catch(|| -> Result<(usize, usize), ProgramError> {
        let mut st = TlvStateMut::unpack(buf)?;
        apply_on(&mut st, base, op)
    })
}
/// several operations on ONE `TlvStateMut` object (anything the object remembered between calls
/// would show), then every entry looked up through that same object, shared and mutable
pub fn apply_ops_one_state(buf: &mut [u8], ops: &[Op], lookups: &[(usize, usize)]) -> (Vec<Res<(usize, usize)>>, Vec<(Res<(usize, Vec<u8>)>, Res<(usize, Vec<u8>)>)>) {
    let base = buf.as_ptr() as usize;
    let mut results = Vec::new();
    let mut looked = Vec::new();
    let mut st = match catch(|| TlvStateMut::unpack(buf)) {
        Res::Ok(st) => st,
        Res::Err(e) => { results.push(Res::Err(e)); return (results, looked); }
        Res::Panic(e) => { results.push(Res::Panic(e)); return (results, looked); }
    };
    for op in ops {
        let r = catch(|| apply_on(&mut st, base, op));
        let stop = r.is_panic();
        results.push(r);
        if stop {
            return (results, looked);
        }
    }
    for (t, r) in lookups {
        let shared = catch(|| -> Result<(usize, Vec<u8>), ProgramError> {
            with_tag!(*t, T, P, B, H, { let s = st.get_bytes_with_repetition::<T>(*r)?; Ok((s.as_ptr() as usize - base, s.to_vec())) })
        });
        let mutable = catch(|| -> Result<(usize, Vec<u8>), ProgramError> {
            with_tag!(*t, T, P, B, H, { let s = st.get_bytes_with_repetition_mut::<T>(*r)?; Ok((s.as_ptr() as usize - base, s.to_vec())) })
        });
        looked.push((shared, mutable));
    }
    (results, looked)
}
fn apply_on(st: &mut TlvStateMut, base: usize, op: &Op) -> Result<(usize, usize), ProgramError> {
    {
        match op {
            Op::Alloc { t, len, allow } => with_tag!(*t, T, P, B, H, {
                let (s, r) = st.alloc::<T>(*len, *allow)?;
                assert_eq!(s.len(), *len, "alloc returned a slice of the wrong length");
                Ok((s.as_ptr() as usize - base, r))
            }),
            Op::Init { t, size, allow } => with_tag!(*t, T, P, B, H, {
                with_size!(*size, S, {
                    let (v, r) = st.init_value::<P<S>>(*allow)?;
                    Ok((v as *mut P<S> as usize - base, r))
                })
            }),
            Op::Realloc { t, len, rep } => with_tag!(*t, T, P, B, H, {
                let s = if *rep == 0 && len % 2 == 0 { st.realloc_first::<T>(*len)? } else { st.realloc_with_repetition::<T>(*len, *rep)? };
                assert_eq!(s.len(), *len, "realloc returned a slice of the wrong length");
                Ok((s.as_ptr() as usize - base, 0))
            }),
            Op::Write { t, rep, seed } => with_tag!(*t, T, P, B, H, {
                let s = if *rep == 0 && seed % 2 == 0 { st.get_first_bytes_mut::<T>()? } else { st.get_bytes_with_repetition_mut::<T>(*rep)? };
                let new = wpat(*seed, s.len());
                s.copy_from_slice(&new);
                Ok((s.as_ptr() as usize - base, 0))
            }),
            Op::WriteTyped { t, rep, size, seed } => with_tag!(*t, T, P, B, H, {
                with_size!(*size, S, {
                    let v = if *rep == 0 && seed % 2 == 0 { st.get_first_value_mut::<P<S>>()? } else { st.get_value_with_repetition_mut::<P<S>>(*rep)? };
                    let new = wpat(*seed, S);
                    v.0.copy_from_slice(&new);
                    Ok((v as *mut P<S> as usize - base, 0))
                })
            }),
            Op::PackVar { t, rep, data, borsh } => with_tag!(*t, T, P, B, H, {
                let first = *rep == 0 && data.len() % 2 == 0;
                match (*borsh, first) {
                    (true, true) => st.pack_first_variable_len_value(&B { data: data.clone() })?,
                    (true, false) => st.pack_variable_len_value_with_repetition(&B { data: data.clone() }, *rep)?,
                    (false, true) => st.pack_first_variable_len_value(&H::new(data.clone()))?,
                    (false, false) => st.pack_variable_len_value_with_repetition(&H::new(data.clone()), *rep)?,
                }
                // offset of the slot: look it up again (read-only)
                let s = st.get_bytes_with_repetition::<T>(*rep)?;
                Ok((s.as_ptr() as usize - base, 0))
            }),
            Op::AllocPack { t, data, borsh, allow } => with_tag!(*t, T, P, B, H, {
                let r = if *borsh {
                    st.alloc_and_pack_variable_len_entry(&B { data: data.clone() }, *allow)?
                } else if data.len() % 3 == 1 {
                    // the read-validating packer: storing must not depend on reading back
                    match *t {
                        0 => st.alloc_and_pack_variable_len_entry(&S0(data.clone()), *allow)?,
                        1 => st.alloc_and_pack_variable_len_entry(&S1(data.clone()), *allow)?,
                        2 => st.alloc_and_pack_variable_len_entry(&S2(data.clone()), *allow)?,
                        3 => st.alloc_and_pack_variable_len_entry(&S3(data.clone()), *allow)?,
                        _ => st.alloc_and_pack_variable_len_entry(&S4(data.clone()), *allow)?,
                    }
                } else {
                    st.alloc_and_pack_variable_len_entry(&H::new(data.clone()), *allow)?
                };
                let s = st.get_bytes_with_repetition::<T>(r)?;
                Ok((s.as_ptr() as usize - base, r))
            }),
        }
    }
}

#[derive(Clone, Copy, PartialEq, Debug)]
pub enum View {
    Mut,
    Borrowed,
    Owned,
}

/// (offset, bytes) of the rep-th entry of tag t through the given view kind
pub fn get_bytes_view(buf: &mut [u8], t: usize, rep: usize, view: View) -> Res<(usize, Vec<u8>)> {
    catch(|| -> Result<(usize, Vec<u8>), ProgramError> {
        with_tag!(t, T, P, B, H, {
            match view {
                View::Mut => {
                    let base = buf.as_ptr() as usize;
                    let st = TlvStateMut::unpack(buf)?;
                    let s = st.get_bytes_with_repetition::<T>(rep)?;
                    Ok((s.as_ptr() as usize - base, s.to_vec()))
                }
                View::Borrowed => {
                    let st = TlvStateBorrowed::unpack(buf)?;
                    let s = if rep == 0 { st.get_first_bytes::<T>()? } else { st.get_bytes_with_repetition::<T>(rep)? };
                    Ok((offset_in(buf, s), s.to_vec()))
                }
                View::Owned => {
                    let st = TlvStateOwned::unpack(buf.to_vec())?;
                    let s = st.get_bytes_with_repetition::<T>(rep)?;
                    // owned copy: offset relative to its own buffer via first-byte search is
                    // meaningless; recover it from the length of the prefix instead
                    let off = {
                        let all = TlvState::get_data(&st);
                        offset_in(all, s)
                    };
                    Ok((off, s.to_vec()))
                }
            }
        })
    })
}
pub fn get_typed_view(buf: &mut [u8], t: usize, rep: usize, size: usize, view: View) -> Res<(usize, Vec<u8>)> {
    catch(|| -> Result<(usize, Vec<u8>), ProgramError> {
        with_tag!(t, T, P, B, H, {
            with_size!(size, S, {
                match view {
                    View::Mut => {
                        let base = buf.as_ptr() as usize;
                        let st = TlvStateMut::unpack(buf)?;
                        let v = st.get_value_with_repetition::<P<S>>(rep)?;
                        Ok((v as *const P<S> as usize - base, v.0.to_vec()))
                    }
                    View::Borrowed => {
                        let base = buf.as_ptr() as usize;
                        let st = TlvStateBorrowed::unpack(buf)?;
                        let v = if rep == 0 { st.get_first_value::<P<S>>()? } else { st.get_value_with_repetition::<P<S>>(rep)? };
                        Ok((v as *const P<S> as usize - base, v.0.to_vec()))
                    }
                    View::Owned => {
                        let st = TlvStateOwned::unpack(buf.to_vec())?;
                        let v = st.get_value_with_repetition::<P<S>>(rep)?;
                        let base = TlvState::get_data(&st).as_ptr() as usize;
                        Ok((v as *const P<S> as usize - base, v.0.to_vec()))
                    }
                }
            })
        })
    })
}
pub fn discs_view(buf: &mut [u8], view: View) -> Res<Vec<[u8; 8]>> {
    catch(|| -> Result<Vec<[u8; 8]>, ProgramError> {
        let ds = match view {
            View::Mut => TlvStateMut::unpack(buf)?.get_discriminators()?,
            View::Borrowed => TlvStateBorrowed::unpack(buf)?.get_discriminators()?,
            View::Owned => TlvStateOwned::unpack(buf.to_vec())?.get_discriminators()?,
        };
        Ok(ds
            .iter()
            .map(|d| {
                let mut a = [0u8; 8];
                a.copy_from_slice(d.as_ref());
                a
            })
            .collect())
    })
}
pub fn open_view(buf: &mut [u8], view: View) -> Res<()> {
    catch(|| -> Result<(), ProgramError> {
        match view {
            View::Mut => {
                TlvStateMut::unpack(buf)?;
            }
            View::Borrowed => {
                TlvStateBorrowed::unpack(buf)?;
            }
            View::Owned => {
                TlvStateOwned::unpack(buf.to_vec())?;
            }
        };
        Ok(())
    })
}
/// variable-length read through the derived unpacker (slot may be larger than the value)
pub fn get_var_borsh(buf: &mut [u8], t: usize, rep: usize) -> Res<Vec<u8>> {
    catch(|| -> Result<Vec<u8>, ProgramError> {
        with_tag!(t, T, P, B, H, {
            let st = TlvStateBorrowed::unpack(buf)?;
            let v = if rep == 0 { st.get_first_variable_len_value::<B>()? } else { st.get_variable_len_value_with_repetition::<B>(rep)? };
            Ok(v.data)
        })
    })
}

// ---------------------------------------------------------------- emit
pub fn emit_tag(t: usize) -> String {
    format!("(tg {})", t)
}
pub fn emit_raw_tag(t: &[u8; 8]) -> String {
    match TAGS.iter().position(|x| x == t) {
        Some(k) => emit_tag(k),
        None => emit::blob(t),
    }
}
fn emit_op(op: &Op, cur_len_for_write: usize) -> String {
    match op {
        Op::Alloc { t, len, allow } => format!("OAlloc {} {} {}", emit_tag(*t), len, emit::boolean(*allow)),
        Op::Init { t, size, allow } => format!(
            "OInit {} {} {}",
            emit_tag(*t),
            emit::blob(&default_bytes(*size)),
            emit::boolean(*allow)
        ),
        Op::Realloc { t, len, rep } => format!("ORealloc {} {} {}", emit_tag(*t), len, rep),
        Op::Write { t, rep, seed } => format!("OWrite {} {} {}", emit_tag(*t), rep, emit_wpat(*seed, cur_len_for_write)),
        Op::WriteTyped { t, rep, size, seed } => {
            format!("OWriteTyped {} {} {} {}", emit_tag(*t), rep, size, emit_wpat(*seed, *size))
        }
        Op::PackVar { t, rep, data, borsh } => format!(
            "OPackVar {} {} {} {}",
            emit_tag(*t),
            rep,
            emit::blob(&var_enc(data, *borsh)),
            emit::boolean(*borsh)
        ),
        Op::AllocPack { t, data, borsh, allow } => format!(
            "OAllocPack {} {} {}",
            emit_tag(*t),
            emit::blob(&var_enc(data, *borsh)),
            emit::boolean(*allow)
        ),
    }
}

// ---------------------------------------------------------------- oracle
/// The abstract state the properties speak about.
#[derive(Clone, Debug, Default)]
pub struct Oracle {
    pub n: usize,
    pub es: Vec<(usize, Vec<u8>)>,
}
impl Oracle {
    pub fn used(&self) -> usize {
        self.es.iter().map(|(_, v)| 12 + v.len()).sum()
    }
    pub fn free(&self) -> usize {
        self.n - self.used()
    }
    pub fn count(&self, t: usize) -> usize {
        self.es.iter().filter(|(k, _)| *k == t).count()
    }
    pub fn find(&self, t: usize, rep: usize) -> Option<usize> {
        self.es
            .iter()
            .enumerate()
            .filter(|(_, (k, _))| *k == t)
            .nth(rep)
            .map(|(i, _)| i)
    }
    pub fn offset_of(&self, i: usize) -> usize {
        self.es[..i].iter().map(|(_, v)| 12 + v.len()).sum::<usize>() + 12
    }
    /// independent encoder (README format): type, LE u32 length, value; zero tail
    pub fn render(&self) -> Vec<u8> {
        let mut out = Vec::with_capacity(self.n);
        for (t, v) in &self.es {
            out.extend_from_slice(&TAGS[*t]);
            out.extend_from_slice(&(v.len() as u32).to_le_bytes());
            out.extend_from_slice(v);
        }
        assert!(out.len() <= self.n);
        out.resize(self.n, 0);
        out
    }
    /// expected result of `op` by the property text: Some((offset, rep)) and the state
    /// change, or None when the operation must fail and change nothing.
    pub fn apply(&mut self, op: &Op) -> Option<(usize, usize)> {
        match op {
            Op::Alloc { t, len, allow } => if *len > self.n { None } else { self.push(*t, vec![0; *len], *allow) },
            Op::Init { t, size, allow } => self.push(*t, default_bytes(*size), *allow),
            Op::AllocPack { t, data, borsh, allow } => self.push(*t, var_enc(data, *borsh), *allow),
            Op::Realloc { t, len, rep } => {
                let i = self.find(*t, *rep)?;
                let old = self.es[i].1.len();
                if *len > old && self.used().saturating_add(*len - old) > self.n {
                    return None;
                }
                if *len as u64 >= 1u64 << 32 {
                    return None;
                }
                self.es[i].1.resize(*len, 0);
                Some((self.offset_of(i), 0))
            }
            Op::Write { t, rep, seed } => {
                let i = self.find(*t, *rep)?;
                let l = self.es[i].1.len();
                self.es[i].1 = wpat(*seed, l);
                Some((self.offset_of(i), 0))
            }
            Op::WriteTyped { t, rep, size, seed } => {
                let i = self.find(*t, *rep)?;
                if self.es[i].1.len() != *size {
                    return None;
                }
                self.es[i].1 = wpat(*seed, *size);
                Some((self.offset_of(i), 0))
            }
            Op::PackVar { t, rep, data, borsh } => {
                let i = self.find(*t, *rep)?;
                let enc = var_enc(data, *borsh);
                if enc.len() > self.es[i].1.len() {
                    return None;
                }
                self.es[i].1[..enc.len()].copy_from_slice(&enc);
                Some((self.offset_of(i), 0))
            }
        }
    }
    fn push(&mut self, t: usize, v: Vec<u8>, allow: bool) -> Option<(usize, usize)> {
        if !allow && self.count(t) > 0 {
            return None;
        }
        if self.used() + 12 + v.len() > self.n || v.len() as u64 >= 1u64 << 32 {
            return None;
        }
        let r = self.count(t);
        self.es.push((t, v));
        Some((self.offset_of(self.es.len() - 1), r))
    }
}

// ---------------------------------------------------------------- generator
fn gen_len(rng: &mut Rng, free: usize) -> usize {
    // free = bytes left for a new entry's value after its 12-byte header (may be "negative" = 0)
    if free > 300 && rng.chance(2, 3) {
        // large slabs: lengths around the u8 / u16 limits
        return *rng.pick(&[254usize, 255, 256, 257, 65523, 65524, 65534, 65535, 65536, 65537, 65548]);
    }
    match rng.below(12) {
        0 => 0,
        1 | 2 => free,
        3 => free + 1,
        4 => free.saturating_sub(1),
        5 => free + rng.range(2, 20) as usize,
        6 => *rng.pick(&TYPED_SIZES),
        7 => rng.below(70) as usize,
        8 if rng.chance(1, 6) => huge_len(rng),
        _ => rng.below(12) as usize,
    }
}
/// lengths at which usize / u32 arithmetic would wrap
fn huge_len(rng: &mut Rng) -> usize {
    *rng.pick(&[usize::MAX, usize::MAX - 1, usize::MAX - 11, usize::MAX - 12, usize::MAX - 23, 1usize << 63, (1usize << 32) - 1, 1usize << 32, (1usize << 32) + 1, u32::MAX as usize - 12, usize::MAX / 2])
}
fn pick_entry(rng: &mut Rng, o: &Oracle, miss: bool) -> (usize, usize) {
    if o.es.is_empty() || miss {
        let t = rng.below(NTAGS as u64) as usize;
        let c = o.count(t);
        return (t, if rng.chance(1, 2) { c } else { c + rng.below(3) as usize });
    }
    let i = rng.below(o.es.len() as u64) as usize;
    let t = o.es[i].0;
    let rep = o.es[..i].iter().filter(|(k, _)| *k == t).count();
    (t, rep)
}
pub fn gen_op(rng: &mut Rng, o: &Oracle, fail_bias: bool) -> Op {
    let free_val = o.free().saturating_sub(12);
    let miss = rng.chance(if fail_bias { 3 } else { 1 }, 12);
    let k = if o.es.is_empty() { rng.below(4) } else { rng.below(14) };
    match k {
        0 | 1 => Op::Alloc {
            t: rng.below(NTAGS as u64) as usize,
            len: gen_len(rng, free_val),
            allow: rng.chance(1, 2),
        },
        2 => Op::Init {
            t: rng.below(NTAGS as u64) as usize,
            size: *rng.pick(&TYPED_SIZES),
            allow: rng.chance(1, 2),
        },
        3 => {
            let borsh = rng.chance(1, 2);
            let room = free_val.saturating_sub(if borsh { 4 } else { 0 });
            let l = match rng.below(5) {
                0 => room,
                1 => room + 1,
                _ => rng.below(20) as usize,
            };
            Op::AllocPack {
                t: rng.below(NTAGS as u64) as usize,
                data: rng.bytes(l),
                borsh,
                allow: rng.chance(1, 2),
            }
        }
        4..=7 => {
            let (t, rep) = pick_entry(rng, o, miss);
            let old = o.find(t, rep).map(|i| o.es[i].1.len()).unwrap_or(0);
            let free = o.free();
            let len = match rng.below(12) {
                _ if free > 300 && rng.chance(1, 2) => *rng.pick(&[255usize, 256, 257, 65535, 65536, 65537, old + 256, old + 65536, old.saturating_sub(256), old.saturating_sub(65536)]),
                0 => 0,
                1 => old,
                2 => old + 1,
                3 => old.saturating_sub(1),
                4 | 5 => old + free,
                6 => old + free + 1,
                7 => old + free.saturating_sub(1),
                8 => old / 2,
                9 => old + rng.below(1 + free as u64) as usize,
                10 if rng.chance(1, 20) => (1usize << 32) + rng.below(3) as usize - 1,
                10 if rng.chance(1, 10) => huge_len(rng),
                _ => rng.below(60) as usize,
            };
            Op::Realloc { t, len, rep }
        }
        8 | 9 => {
            let (t, rep) = pick_entry(rng, o, miss);
            Op::Write { t, rep, seed: if rng.chance(1, 5) { 250 + rng.below(6) as u8 } else { rng.byte() } }
        }
        10 | 11 => {
            let (t, rep) = pick_entry(rng, o, miss);
            let cur = o.find(t, rep).map(|i| o.es[i].1.len()).unwrap_or(3);
            let size = if TYPED_SIZES.contains(&cur) && rng.chance(3, 4) {
                cur
            } else {
                *rng.pick(&TYPED_SIZES)
            };
            Op::WriteTyped { t, rep, size, seed: if rng.chance(1, 5) { 250 + rng.below(6) as u8 } else { rng.byte() } }
        }
        _ => {
            let (t, rep) = pick_entry(rng, o, miss);
            let cur = o.find(t, rep).map(|i| o.es[i].1.len()).unwrap_or(6);
            let borsh = rng.chance(1, 2);
            let room = cur.saturating_sub(if borsh { 4 } else { 0 });
            let l = match rng.below(6) {
                0 => room,
                1 => room + 1,
                2 => room + rng.range(1, 9) as usize,
                _ => rng.below(1 + room as u64) as usize,
            };
            Op::PackVar { t, rep, data: rng.bytes(l), borsh }
        }
    }
}

// ---------------------------------------------------------------- monitor
fn hex_cap(b: &[u8]) -> String {
    if b.len() > 4096 { format!("{}... ({} bytes in all)", emit::hex(&b[..4096]), b.len()) } else { emit::hex(b) }
}
pub struct Mon<'a> {
    pub rep: &'a mut Report,
    pub prop: &'a str,
}
impl<'a> Mon<'a> {
    fn hist_json(n: usize, ops: &[Op]) -> serde_json::Value {
        serde_json::json!({"buffer_size": n, "ops": ops.iter().map(|o| format!("{:?}", o)).collect::<Vec<_>>()})
    }
    /// after an operation: compare the real slab and all lookups with the oracle
    pub fn after_op(
        &mut self,
        buf: &mut [u8],
        before: &[u8],
        o_before: &Oracle,
        o: &Oracle,
        op: &Op,
        expect: Option<(usize, usize)>,
        got: &Res<(usize, usize)>,
        ops_so_far: &[Op],
    ) {
        let n = buf.len();
        let ctx = |extra: serde_json::Value| {
            let mut j = Self::hist_json(n, ops_so_far);
            j["failing_op"] = serde_json::json!(format!("{:?}", op));
            j["observed"] = serde_json::json!(format!("{:?}", got));
            j["expected"] = serde_json::json!(format!("{:?}", expect));
            j["extra"] = extra;
            j.to_string()
        };
        if got.is_panic() {
            self.rep.violate("tlv-op-panic", "a TLV mutation panicked", ctx(serde_json::json!(null)));
            return;
        }
        // --- C04: a failed operation leaves the bytes untouched
        if got.is_err() {
            let unchanged = match op {
                Op::PackVar { t, rep, .. } => {
                    // only the entry's value region may change
                    match o_before.find(*t, *rep) {
                        Some(i) => {
                            let off = o_before.offset_of(i);
                            let l = o_before.es[i].1.len();
                            buf[..off] == before[..off] && buf[off + l..] == before[off + l..]
                        }
                        None => buf[..] == before[..],
                    }
                }
                _ => buf[..] == before[..],
            };
            if !unchanged && self.prop == "C04" {
                self.rep.violate(
                    &format!("failed-op-changed-bytes:{}", op_name(op)),
                    "a failed TLV mutation changed the buffer",
                    ctx(serde_json::json!({"before": hex_cap(before), "after": hex_cap(buf)})),
                );
            }
            if self.prop == "C04" && open_view(buf, View::Borrowed) != Res::Ok(()) {
                self.rep.violate(
                    &format!("failed-op-unreadable:{}", op_name(op)),
                    "after a failed TLV mutation the buffer no longer opens",
                    ctx(serde_json::json!({"after": hex_cap(buf)})),
                );
            }
        }
        // --- result as the property prescribes (C01: operations succeed/fail and address the right entry)
        let result_ok = match (expect, got) {
            (Some(e), Res::Ok(g)) => e == *g,
            (None, Res::Err(_)) => true,
            _ => false,
        };
        if !result_ok && self.prop == "C01" {
            self.rep.violate(
                &format!("wrong-result:{}", op_name(op)),
                "operation result (success/failure, returned offset or repetition number) differs from the entry-list semantics",
                ctx(serde_json::json!(null)),
            );
        }
        if !result_ok {
            return; // the oracle no longer describes the slab; later checks would only repeat this
        }
        // a failed PackVar may legitimately have changed the slot: resynchronise the oracle's view
        // of that slot is done by the caller.
        // --- large slabs / thousands of entries: a lean version of the checks below (the full one is quadratic)
        if buf.len() > 8192 || o.es.len() > 300 {
            let want = o.render();
            if buf[..] != want[..] {
                let first = buf.iter().zip(want.iter()).position(|(a, b)| a != b).unwrap_or(0);
                let lo = first.saturating_sub(16);
                let hi = (first + 48).min(buf.len());
                self.rep.violate(
                    &format!("large-slab-bytes:{}", op_name(op)),
                    "slab bytes differ from the independent encoding of the logical entry list (large slab / many entries)",
                    ctx(serde_json::json!({"first_differing_offset": first, "slab_window": emit::hex(&buf[lo..hi]), "expected_window": emit::hex(&want[lo..hi]), "window_starts_at": lo, "entries": o.es.len()})),
                );
                return;
            }
            if self.prop == "C01" {
                let ds = discs_view(buf, View::Borrowed);
                if ds.clone().map(|d| d.len()) != Res::Ok(o.es.len()) {
                    self.rep.violate("order", "listed types differ from insertion order (many entries)", ctx(serde_json::json!({"listed": format!("{:?}", ds.map(|d| d.len())), "expected": o.es.len()})));
                }
                // offsets and repetition numbers of a sample of entries
                let mut offs = Vec::with_capacity(o.es.len());
                let mut reps = Vec::with_capacity(o.es.len());
                let mut cnt = [0usize; 8];
                let mut off = 12usize;
                for (t, v) in &o.es {
                    offs.push(off);
                    reps.push(cnt[*t]);
                    cnt[*t] += 1;
                    off += 12 + v.len();
                }
                let ne = o.es.len();
                let mut sample: Vec<usize> = vec![0, 1, 254, 255, 256, 257, 1023, 1024, 1025, 4095, 4096, 65535, 65536, ne.saturating_sub(2), ne.saturating_sub(1)];
                sample.retain(|i| *i < ne);
                for i in sample {
                    let (t, v) = &o.es[i];
                    for view in [View::Mut, View::Borrowed, View::Owned] {
                        let g = get_bytes_view(buf, *t, reps[i], view);
                        let good = match &g { Res::Ok((goff, gv)) => *goff == offs[i] && gv.len() == v.len() && gv[..] == v[..], _ => false };
                        if !good {
                            self.rep.violate(&format!("read-back:{}", op_name(op)), "an entry read back by type and repetition differs from the last value written (many entries / large slab)",
                                ctx(serde_json::json!({"view": format!("{:?}", view), "tag": t, "rep": reps[i], "entry_index": i, "expected_offset": offs[i], "expected_len": v.len()})));
                        }
                    }
                }
                for t in 0..NTAGS {
                    if !get_bytes_view(buf, t, cnt[t], View::Borrowed).is_err() {
                        self.rep.violate("phantom-entry", "a lookup beyond the last repetition of a type succeeded", ctx(serde_json::json!({"tag": t, "rep": cnt[t]})));
                    }
                }
            }
            return;
        }
        // --- C03: canonical bytes
        if self.prop == "C03" {
            let want = o.render();
            if buf[..] != want[..] {
                self.rep.violate(
                    &format!("non-canonical:{}", op_name(op)),
                    "slab bytes differ from the independent encoding of the logical entry list (type, LE length, value, zero tail)",
                    ctx(serde_json::json!({"slab": hex_cap(buf), "expected": hex_cap(&want)})),
                );
            }
        }
        // --- C01: read-your-writes, isolation, order, all three views
        if self.prop == "C01" {
            for view in [View::Mut, View::Borrowed, View::Owned] {
                let ds = discs_view(buf, view);
                let want: Vec<[u8; 8]> = o.es.iter().map(|(t, _)| TAGS[*t]).collect();
                if ds != Res::Ok(want.clone()) {
                    self.rep.violate(
                        "order",
                        "listed types differ from insertion order",
                        ctx(serde_json::json!({"view": format!("{:?}", view), "listed": format!("{:?}", ds)})),
                    );
                }
                for (i, (t, v)) in o.es.iter().enumerate() {
                    let r = o.es[..i].iter().filter(|(k, _)| k == t).count();
                    let g = get_bytes_view(buf, *t, r, view);
                    if g != Res::Ok((o.offset_of(i), v.clone())) {
                        self.rep.violate(
                            &format!("read-back:{}", op_name(op)),
                            "an entry read back by type and repetition differs from the last value written (or moved/vanished)",
                            ctx(serde_json::json!({"view": format!("{:?}", view), "tag": t, "rep": r,
                                "observed": format!("{:?}", g), "expected_offset": o.offset_of(i), "expected": emit::hex(v)})),
                        );
                    }
                }
                if <TlvStateBorrowed as TlvState>::get_base_len() != 12 {
                    self.rep.violate("base-len", "get_base_len is not 12", "{}".into());
                }
                for t in 0..NTAGS {
                    let c = o.count(t);
                    if !get_bytes_view(buf, t, c, view).is_err() {
                        self.rep.violate(
                            "phantom-entry",
                            "a lookup beyond the last repetition of a type succeeded",
                            ctx(serde_json::json!({"view": format!("{:?}", view), "tag": t, "rep": c})),
                        );
                    }
                }
            }
        }
    }
}
fn op_name(op: &Op) -> &'static str {
    match op {
        Op::Alloc { .. } => "alloc",
        Op::Init { .. } => "init",
        Op::Realloc { .. } => "realloc",
        Op::Write { .. } => "write",
        Op::WriteTyped { .. } => "write-typed",
        Op::PackVar { .. } => "pack-var",
        Op::AllocPack { .. } => "alloc-pack",
    }
}

// ---------------------------------------------------------------- one history
pub struct HistOut {
    pub term: Option<String>,
    pub nontrivial: bool,
}

pub fn run_history(rep: &mut Report, prop: &str, rng: &mut Rng, n: usize, nops: usize, to_coq: bool, scripted: Option<&[Op]>) {
    run_history_from(rep, prop, rng, Oracle { n, es: vec![] }, nops, to_coq, scripted)
}
/// a history that starts from the canonical slab of `init` (built directly, not through the API)
pub fn run_history_from(rep: &mut Report, prop: &str, rng: &mut Rng, init: Oracle, nops: usize, to_coq: bool, scripted: Option<&[Op]>) {
    let n = init.n;
    let to_coq = to_coq && init.es.is_empty();
    // the slab sits at offset 0..7 from an 8-byte aligned address
    static SHIFT: std::sync::atomic::AtomicUsize = std::sync::atomic::AtomicUsize::new(0);
    let shift = SHIFT.fetch_add(1, std::sync::atomic::Ordering::Relaxed) % 8;
    let mut shifted = emit::Shifted::new(&init.render(), shift);
    let buf: &mut [u8] = shifted.bytes_mut();
    let mut o = init;
    let mut items: Vec<String> = Vec::new();
    let mut ops_done: Vec<Op> = Vec::new();
    let fail_bias = prop == "C04";
    let mut successes = 0usize;
    let mut diverged = false;
    let total = scripted.map(|s| s.len()).unwrap_or(nops);
    for step in 0..total {
        let op = match scripted {
            Some(s) => s[step].clone(),
            None => gen_op(rng, &o, fail_bias),
        };
        let before = buf.to_vec();
        let o_before = o.clone();
        let cur_len = match &op {
            Op::Write { t, rep, .. } => o.find(*t, *rep).map(|i| o.es[i].1.len()).unwrap_or(0),
            _ => 0,
        };
        let mut o_next = o.clone();
        let expect = if diverged { None } else { o_next.apply(&op) };
        let got = apply_op(&mut *buf, &op);
        ops_done.push(op.clone());
        rep.count(&format!("op:{}:{}", op_name(&op), got.kind()));
        if got.is_ok() {
            successes += 1;
        }
        if !diverged {
            // a failed pack may have scribbled inside the slot (allowed): re-read it
            if expect.is_none() {
                if let Op::PackVar { t, rep: r, .. } = &op {
                    if let Some(i) = o_next.find(*t, *r) {
                        let off = o_next.offset_of(i);
                        let l = o_next.es[i].1.len();
                        if off + l <= buf.len() {
                            o_next.es[i].1 = buf[off..off + l].to_vec();
                        }
                    }
                }
            }
            let mut mon = Mon { rep, prop };
            mon.after_op(&mut *buf, &before, &o_before, &o_next, &op, expect, &got, &ops_done);
            let ok = match (expect, &got) {
                (Some(e), Res::Ok(g)) => e == *g,
                (None, Res::Err(_)) => true,
                _ => false,
            };
            if ok {
                o = o_next;
            } else {
                diverged = true;
            }
        }
        if to_coq {
            items.push(format!(
                "IOp ({}) {} {}",
                emit_op(&op, cur_len),
                got.emit(|(a, b)| format!("({}, {})", a, b)),
                cksum(&buf)
            ));
            // a few queries after each op
            let nq = rng.below(3);
            for _ in 0..nq {
                match rng.below(5) {
                    0 | 1 => {
                        let miss = rng.chance(1, 4);
                        let (t, r) = pick_entry(rng, &o, miss);
                        let view = *rng.pick(&[View::Mut, View::Borrowed, View::Owned]);
                        let g = get_bytes_view(&mut *buf, t, r, view);
                        items.push(format!(
                            "IGet {} {} {}",
                            emit_tag(t),
                            r,
                            g.emit(|(off, v)| format!("({}, {}, {})", off, v.len(), cksum(v)))
                        ));
                    }
                    2 => {
                        let miss = rng.chance(1, 4);
                        let (t, r) = pick_entry(rng, &o, miss);
                        let cur = o.find(t, r).map(|i| o.es[i].1.len()).unwrap_or(3);
                        let size = if TYPED_SIZES.contains(&cur) && rng.chance(2, 3) { cur } else { *rng.pick(&TYPED_SIZES) };
                        let view = *rng.pick(&[View::Mut, View::Borrowed, View::Owned]);
                        let g = get_typed_view(&mut *buf, t, r, size, view);
                        items.push(format!("IGetT {} {} {} {}", emit_tag(t), r, size, g.emit(|(off, _)| format!("{}", off))));
                    }
                    3 => {
                        let view = *rng.pick(&[View::Mut, View::Borrowed, View::Owned]);
                        let g = discs_view(&mut *buf, view);
                        items.push(format!(
                            "IDiscs {}",
                            g.emit(|ds| emit::list(&ds.iter().map(emit_raw_tag).collect::<Vec<_>>()))
                        ));
                    }
                    _ => {
                        let view = *rng.pick(&[View::Mut, View::Borrowed, View::Owned]);
                        let g = open_view(&mut *buf, view);
                        items.push(format!("IOpen {}", g.emit(|_| "tt".to_string())));
                    }
                }
            }
        }
    }
    if successes >= 2 {
        rep.count("history:>=2-successful-mutations");
    }
    if to_coq {
        let term = format!(
            "CHist (zeros {}) [\n  {}\n ] {}",
            n,
            items.join(";\n  "),
            emit::blob(&buf)
        );
        rep.case(term, successes >= 1);
    } else {
        let mut h = std::collections::hash_map::DefaultHasher::new();
        use std::hash::{Hash, Hasher};
        buf.hash(&mut h);
        ops_done.len().hash(&mut h);
        rep.monitor_case(h.finish(), successes >= 1);
    }
}

fn corpus() -> Vec<(usize, Vec<Op>)> {
    let mut c = Vec::new();
    // D1: value does not fit after the header was found
    c.push((20, vec![Op::Alloc { t: 0, len: 9, allow: false }]));
    c.push((24, vec![Op::Alloc { t: 0, len: 0, allow: false }, Op::Alloc { t: 1, len: 1, allow: false }]));
    // exact fit, 1..11 spare bytes, duplicate, repetition
    for spare in 0..13usize {
        c.push((
            12 + 5 + spare,
            vec![
                Op::Alloc { t: 0, len: 5, allow: false },
                Op::Alloc { t: 1, len: 0, allow: false },
                Op::Alloc { t: 0, len: 0, allow: true },
                Op::Alloc { t: 0, len: 0, allow: false },
            ],
        ));
    }
    // grow / shrink the middle entry between two others; grow into exactly the free space
    c.push((
        100,
        vec![
            Op::Alloc { t: 0, len: 4, allow: true },
            Op::Alloc { t: 1, len: 6, allow: true },
            Op::Alloc { t: 0, len: 3, allow: true },
            Op::Write { t: 0, rep: 0, seed: 1 },
            Op::Write { t: 1, rep: 0, seed: 50 },
            Op::Write { t: 0, rep: 1, seed: 100 },
            Op::Realloc { t: 1, len: 20, rep: 0 },
            Op::Realloc { t: 1, len: 2, rep: 0 },
            Op::Realloc { t: 1, len: 2 + 100 - 12 * 3 - 4 - 2 - 3, rep: 0 },
            Op::Realloc { t: 1, len: 3 + 100 - 12 * 3 - 4 - 2 - 3, rep: 0 },
            Op::Realloc { t: 0, len: 0, rep: 1 },
            Op::Realloc { t: 0, len: 0, rep: 0 },
            Op::Realloc { t: 2, len: 1, rep: 0 },
            Op::Realloc { t: 0, len: 1, rep: 2 },
        ],
    ));
    c.push((
        64,
        vec![
            Op::Init { t: 3, size: 5, allow: false },
            Op::Init { t: 3, size: 5, allow: false },
            Op::Init { t: 3, size: 3, allow: true },
            Op::WriteTyped { t: 3, rep: 0, size: 5, seed: 9 },
            Op::WriteTyped { t: 3, rep: 1, size: 5, seed: 9 },
            Op::AllocPack { t: 4, data: vec![1, 2, 3], borsh: true, allow: false },
            Op::PackVar { t: 4, rep: 0, data: vec![9, 9], borsh: true },
            Op::PackVar { t: 4, rep: 0, data: vec![9, 9, 9, 9], borsh: true },
            Op::PackVar { t: 4, rep: 0, data: vec![9, 9, 9, 9, 8, 8, 8, 8], borsh: false },
            Op::Realloc { t: 4, len: 1usize << 32, rep: 0 },
        ],
    ));
    c.push((0, vec![Op::Alloc { t: 0, len: 0, allow: false }]));
    c.push((11, vec![Op::Alloc { t: 0, len: 0, allow: false }]));
    c.push((12, vec![Op::Alloc { t: 0, len: 0, allow: false }, Op::Realloc { t: 0, len: 1, rep: 0 }]));
    c
}

/// a value whose advertised packed length does not fit the 32-bit length field
pub struct HugeVar;
impl SplDiscriminate for HugeVar {
    const SPL_DISCRIMINATOR: ArrayDiscriminator = ArrayDiscriminator::new(TAGS[4]);
}
impl VariableLenPack for HugeVar {
    fn pack_into_slice(&self, _dst: &mut [u8]) -> Result<(), ProgramError> {
        Ok(())
    }
    fn unpack_from_slice(_src: &[u8]) -> Result<Self, ProgramError> {
        Ok(HugeVar)
    }
    fn get_packed_len(&self) -> Result<usize, ProgramError> {
        Ok((1usize << 32) + 3)
    }
}

/// "length not representable" with room to spare: only a buffer of more than 4 GiB gets past
/// the room checks, so this is the one place where the failing conversion of the length decides.
/// The buffer is zero pages that are never touched beyond its first and last few KiB.
pub fn huge_length_scenario(rep: &mut Report) {
    if std::mem::size_of::<usize>() < 8 {
        return;
    }
    const BIG: usize = (1usize << 32) + 8192;
    let layout = std::alloc::Layout::from_size_align(BIG, 8).unwrap();
    let p = unsafe { std::alloc::alloc_zeroed(layout) };
    if p.is_null() {
        rep.count("huge-length:skipped (no 4 GiB of address space)");
        return;
    }
    {
        let buf: &mut [u8] = unsafe { std::slice::from_raw_parts_mut(p, BIG) };
        let _ = apply_op(buf, &Op::Alloc { t: 0, len: 16, allow: false });
        let _ = apply_op(buf, &Op::Write { t: 0, rep: 0, seed: 7 });
        // an entry behind the one that will be resized: a late failure must not have moved it
        let _ = apply_op(buf, &Op::Alloc { t: 2, len: 5, allow: false });
        let _ = apply_op(buf, &Op::Write { t: 2, rep: 0, seed: 9 });
        let snap = |b: &[u8]| (b[..4096].to_vec(), b[BIG - 8192..].to_vec());
        let ops: Vec<(&str, Option<Op>)> = vec![
            ("realloc", Some(Op::Realloc { t: 0, len: 1usize << 32, rep: 0 })),
            ("realloc-with-repetition", Some(Op::Realloc { t: 0, len: (1usize << 32) + 5, rep: 0 })),
            ("alloc", Some(Op::Alloc { t: 1, len: 1usize << 32, allow: false })),
            ("alloc-repeated", Some(Op::Alloc { t: 0, len: (1usize << 32) + 1, allow: true })),
            ("alloc-and-pack", None),
        ];
        for (name, op) in ops {
            let before = snap(buf);
            let r: Res<()> = match &op {
                Some(o) => apply_op(buf, o).map(|_| ()),
                None => catch(|| -> Result<(), ProgramError> {
                    let mut st = TlvStateMut::unpack(buf)?;
                    st.alloc_and_pack_variable_len_entry(&HugeVar, rep.monitor_runs % 2 == 0)?;
                    Ok(())
                }),
            };
            let after = snap(buf);
            let reopened = open_view(buf, View::Mut);
            rep.count(&format!("huge-length:{}", name));
            rep.monitor_runs += 1;
            if !r.is_err() || before != after || !reopened.is_ok() {
                let first_diff = before.0.iter().zip(after.0.iter()).position(|(a, b)| a != b);
                rep.violate(&format!("huge-length:{}", name),
                    "a length that does not fit the 32-bit length field must be refused with the buffer untouched and still openable (buffer of 4 GiB + 8 KiB, so the room checks pass)",
                    serde_json::json!({"operation": name, "buffer_len": BIG, "result": format!("{:?}", r.kind()), "first_changed_offset": first_diff,
                        "head_after": emit::hex(&after.0[..64]), "reopens": reopened.is_ok()}).to_string());
                // restore for the next operation
                buf[..4096].copy_from_slice(&before.0);
            }
        }
    }
    unsafe { std::alloc::dealloc(p, layout) };
}

/// a type whose `SPL_DISCRIMINATOR_SLICE` was (legally) overridden with other bytes: the on-wire
/// type must still be `SPL_DISCRIMINATOR`
pub struct OddSlice;
impl SplDiscriminate for OddSlice {
    const SPL_DISCRIMINATOR: ArrayDiscriminator = ArrayDiscriminator::new(TAGS[3]);
    const SPL_DISCRIMINATOR_SLICE: &'static [u8] = &[0x99, 0x98, 0x97, 0x96, 0x95, 0x94, 0x93, 0x92];
}
#[derive(Clone, Copy, Default, bytemuck::Pod, bytemuck::Zeroable)]
#[repr(transparent)]
pub struct OddSliceVal(pub [u8; 3]);
impl SplDiscriminate for OddSliceVal {
    const SPL_DISCRIMINATOR: ArrayDiscriminator = ArrayDiscriminator::new(TAGS[2]);
    const SPL_DISCRIMINATOR_SLICE: &'static [u8] = &[0x89, 0x88, 0x87, 0x86, 0x85, 0x84, 0x83, 0x82];
}
pub fn override_slice_scenario(rep: &mut Report) {
    let mut buf = vec![0u8; 64];
    let r = catch(|| -> Result<(), ProgramError> {
        let mut st = TlvStateMut::unpack(&mut buf)?;
        st.alloc::<OddSlice>(2, false)?;
        st.init_value::<OddSliceVal>(false)?;
        st.get_first_bytes::<OddSlice>()?;
        st.get_first_value::<OddSliceVal>()?;
        Ok(())
    });
    rep.count("override-slice-constant");
    rep.monitor_runs += 1;
    let mut want = vec![];
    want.extend_from_slice(&TAGS[3]);
    want.extend_from_slice(&2u32.to_le_bytes());
    want.extend_from_slice(&[0, 0]);
    want.extend_from_slice(&TAGS[2]);
    want.extend_from_slice(&3u32.to_le_bytes());
    want.extend_from_slice(&[0, 0, 0]);
    want.resize(64, 0);
    if r != Res::Ok(()) || buf != want {
        rep.violate("override-slice-constant", "an entry's on-wire type must be the type's SPL_DISCRIMINATOR even when the type overrides SPL_DISCRIMINATOR_SLICE",
            serde_json::json!({"result": format!("{:?}", r), "bytes": emit::hex(&buf), "expected": emit::hex(&want)}).to_string());
    }
}

/// one operation on a slab that is valid but carries garbage after its terminator (a recycled
/// buffer): resized values are still zero-extended / truncated, every listed entry keeps its bytes,
/// a failed operation changes nothing.  Checked with an independent walk over the raw bytes, since
/// the garbage may legitimately end up right behind the last entry.
pub fn dirty_tail_scenario(rep: &mut Report, prop: &str, rng: &mut Rng, to_coq: bool) {
    let ne = rng.range(1, 5) as usize;
    let es: Vec<(usize, Vec<u8>)> = (0..ne).map(|_| { let l = rng.below(12) as usize; (rng.below(NTAGS as u64) as usize, rng.bytes(l)) }).collect();
    let used: usize = es.iter().map(|(_, v)| 12 + v.len()).sum();
    let slack = 8 + rng.range(1, 40) as usize;
    let mut o = Oracle { n: used + slack, es };
    let mut buf = o.render();
    for x in buf[used + 8..].iter_mut() {
        *x = rng.range(1, 255) as u8;
    }
    let before = buf.clone();
    let i = rng.below(ne as u64) as usize;
    let t = o.es[i].0;
    let r = o.es[..i].iter().filter(|(k, _)| *k == t).count();
    let old = o.es[i].1.len();
    let op = match rng.below(4) {
        0 => Op::Write { t, rep: r, seed: if rng.chance(1, 3) { 250 + rng.below(6) as u8 } else { rng.byte() } },
        1 => Op::Realloc { t, len: rng.below(old as u64 + 1) as usize, rep: r },
        _ => Op::Realloc { t, len: old + rng.range(1, slack as u64 + 3) as usize, rep: r },
    };
    let expect = o.apply(&op);
    let got = apply_op(&mut buf, &op);
    rep.count(&format!("dirty-tail:{}:{}", op_name(&op), got.kind()));
    if to_coq {
        // the byte-level model runs on the same dirty slab
        let cur_len = match &op { Op::Write { .. } => old, _ => 0 };
        let item = format!("IOp ({}) {} {}", emit_op(&op, cur_len), got.emit(|(a, b)| format!("({}, {})", a, b)), cksum(&buf));
        rep.case(format!("CHist {} [\n  {}\n ] {}", emit::blob(&before), item, emit::blob(&buf)), got.is_ok());
    }
    rep.monitor_runs += 1;
    let det = |what: &str, after: &[u8]| serde_json::json!({"what": what, "before": emit::hex(&before), "op": format!("{:?}", op), "observed": format!("{:?}", got), "after": emit::hex(after)}).to_string();
    let class = if prop == "C04" { "dirty-tail-failed-op" } else { "dirty-tail" };
    match (&expect, &got) {
        (_, Res::Panic(_)) => rep.violate("dirty-tail-panic", "a TLV mutation panicked on a valid slab with garbage behind its terminator", det("panic", &buf)),
        (None, Res::Err(_)) => {
            if buf != before {
                rep.violate(class, "a failed operation changed the bytes (slab with garbage behind its terminator)", det("failed op changed bytes", &buf));
            }
        }
        (Some(_), Res::Ok(_)) => {
            // raw walk over the expected entries
            let mut off = 0usize;
            let mut ok = true;
            for (k, v) in &o.es {
                if buf.len() < off + 12 + v.len() || buf[off..off + 8] != TAGS[*k] || buf[off + 8..off + 12] != (v.len() as u32).to_le_bytes() || buf[off + 12..off + 12 + v.len()] != v[..] {
                    ok = false;
                    break;
                }
                off += 12 + v.len();
            }
            if !ok {
                rep.violate(class, "after an operation on a slab with garbage behind its terminator the entries are not the expected ones (resized value zero-extended / truncated, all others byte-identical)", det("entries", &buf));
            }
        }
        _ => rep.violate(class, "operation result differs from the entry-list semantics (slab with garbage behind its terminator)", det("result", &buf)),
    }
}

/// 2-5 operations on one `TlvStateMut` object, then every entry read back through that same object.
/// `hole`: the slab starts with an entry whose type tag alone was zeroed (everything from there on is
/// a tail behind a terminator); an allocation of exactly that size re-creates the header, after which
/// the entries behind it are part of the run again.
pub fn same_object_scenario(rep: &mut Report, prop: &str, rng: &mut Rng, hole: bool, to_coq: bool) {
    let ne = if hole { rng.range(2, 5) } else { rng.below(4) } as usize;
    let es: Vec<(usize, Vec<u8>)> = (0..ne).map(|_| { let l = rng.below(10) as usize; (rng.below(NTAGS as u64) as usize, rng.bytes(l)) }).collect();
    let used: usize = es.iter().map(|(_, v)| 12 + v.len()).sum();
    let mut o = Oracle { n: used + rng.below(60) as usize, es };
    let mut buf = o.render();
    let mut ops: Vec<Op> = Vec::new();
    let mut expects: Vec<Option<(usize, usize)>> = Vec::new();
    if hole {
        let i = rng.below(ne as u64 - 1) as usize; // not the last one: something sits behind the hole
        let off = o.offset_of(i) - 12;
        for x in buf[off..off + 8].iter_mut() {
            *x = 0;
        }
        let (t, l) = (o.es[i].0, o.es[i].1.len());
        let r = o.es[..i].iter().filter(|(k, _)| *k == t).count();
        ops.push(Op::Alloc { t, len: l, allow: true });
        expects.push(Some((off + 12, r)));
    }
    let init = buf.clone();
    let nops = rng.range(if hole { 1 } else { 2 }, 5) as usize;
    for _ in 0..nops {
        let op = gen_op(rng, &o, prop == "C04");
        let mut o2 = o.clone();
        let e = o2.apply(&op);
        if e.is_some() {
            o = o2;
        } else if let Op::PackVar { .. } = op {
            continue; // a failed pack may scribble inside its slot: keep this scenario simple
        }
        ops.push(op);
        expects.push(e);
    }
    let lookups: Vec<(usize, usize)> = o.es.iter().enumerate().map(|(i, (t, _))| (*t, o.es[..i].iter().filter(|(k, _)| k == t).count())).collect();
    let (results, looked) = apply_ops_one_state(&mut buf, &ops, &lookups);
    rep.count(if hole { "same-object:refilled-hole" } else { "same-object:ops" });
    rep.monitor_runs += 1;
    let det = |what: &str| serde_json::json!({"what": what, "initial_slab": emit::hex(&init), "ops_on_one_state_object": ops.iter().map(|x| format!("{:?}", x)).collect::<Vec<_>>(),
        "results": results.iter().map(|x| format!("{:?}", x)).collect::<Vec<_>>(), "expected": expects.iter().map(|x| format!("{:?}", x)).collect::<Vec<_>>(), "final_slab": emit::hex(&buf)}).to_string();
    if results.iter().any(|r| r.is_panic()) {
        rep.violate("same-object-panic", "a TLV operation panicked (several operations on one state object)", det("panic"));
        return;
    }
    let res_ok = results.len() == expects.len() && results.iter().zip(expects.iter()).all(|(r, e)| match (r, e) { (Res::Ok(g), Some(x)) => g == x, (Res::Err(_), None) => true, _ => false });
    if !res_ok {
        rep.violate("same-object-result", "results of operations run on one state object differ from the entry-list semantics", det("results"));
        return;
    }
    // entries as the oracle has them (after a refilled hole the value is whatever was there: the oracle kept it)
    let mut off = 0usize;
    let mut bytes_ok = true;
    for (k, v) in &o.es {
        if buf.len() < off + 12 + v.len() || buf[off..off + 8] != TAGS[*k] || buf[off + 8..off + 12] != (v.len() as u32).to_le_bytes() || buf[off + 12..off + 12 + v.len()] != v[..] {
            bytes_ok = false;
            break;
        }
        off += 12 + v.len();
    }
    if !bytes_ok {
        rep.violate("same-object-bytes", "after operations run on one state object the slab does not hold the expected entries", det("bytes"));
        return;
    }
    for (i, ((t, r), (sh, mu))) in lookups.iter().zip(looked.iter()).enumerate() {
        let want = Res::Ok((o.offset_of(i), o.es[i].1.clone()));
        if *sh != want || *mu != want {
            rep.violate("same-object-lookup", "an entry looked up through the state object that performed the operations is not the entry the slab holds",
                serde_json::json!({"tag": t, "rep": r, "shared": format!("{:?}", sh), "mutable": format!("{:?}", mu), "context": det("lookup")}).to_string());
            return;
        }
    }
    if to_coq {
        // the model has no object state: the same operations one after the other
        let mut items = Vec::new();
        let mut b2 = init.clone();
        let mut o_c = Oracle { n: o.n, es: vec![] };
        let _ = &mut o_c;
        for (op, r) in ops.iter().zip(results.iter()) {
            let cur = match op { Op::Write { t, rep: rr, .. } => { let mut c = b2.clone(); get_bytes_view(&mut c, *t, *rr, View::Borrowed).map(|(_, v)| v.len()) } _ => Res::Ok(0) };
            let cur_len = match cur { Res::Ok(l) => l, _ => 0 };
            let _ = apply_op(&mut b2, op);
            items.push(format!("IOp ({}) {} {}", emit_op(op, cur_len), r.emit(|(a, b)| format!("({}, {})", a, b)), cksum(&b2)));
        }
        if b2 == buf {
            rep.case(format!("CHist {} [\n  {}\n ] {}", emit::blob(&init), items.join(";\n  "), emit::blob(&buf)), true);
        } else {
            rep.violate("same-object-vs-fresh", "the same operations give different bytes on one state object and on a fresh object per operation", det("fresh objects differ"));
        }
    }
}

pub fn run(ctx: &Ctx, prop: &str) -> Report {
    let mut rep = Report::new(prop);
    rep.corr_module = "Tlv".into();
    rep.expect_classes(&[
        "op:alloc:ok", "op:alloc:err", "op:init:ok", "op:init:err", "op:realloc:ok", "op:realloc:err",
        "op:write:ok", "op:write:err", "op:write-typed:ok", "op:write-typed:err", "op:pack-var:ok",
        "op:pack-var:err", "op:alloc-pack:ok", "op:alloc-pack:err", "history:>=2-successful-mutations",
        "history:large-slab", "history:>10MiB-slab", "history:thousands-of-entries", "history:300-entries", "override-slice-constant",
        "same-object:ops", "same-object:refilled-hole", "dirty-tail:realloc:ok", "dirty-tail:realloc:err", "dirty-tail:write:ok",
    ]);
    let mut rng = Rng::new(ctx.seed.wrapping_mul(31).wrapping_add(match prop {
        "C01" => 1,
        "C03" => 3,
        _ => 4,
    }));
    for (n, ops) in corpus() {
        run_history(&mut rep, prop, &mut rng, n, 0, true, Some(&ops));
    }
    if prop == "C04" || prop == "C01" {
        huge_length_scenario(&mut rep);
    }
    // sizes and counts that cross the u8 / u16 limits (monitor only: too large to evaluate in Coq)
    for k in 0..ctx.scale(40, 500) {
        let n = *rng.pick(&[66_000usize, 70_000, 131_200, 140_000, 66_000 + (k % 13) as usize]);
        let nops = rng.range(3, 10) as usize;
        run_history(&mut rep, prop, &mut rng, n, nops, false, None);
        rep.count("history:large-slab");
    }
    // slabs above 10 MiB / 16 MiB with one entry longer than that
    for (n, l) in [(10 * 1024 * 1024 + 4096usize, 10 * 1024 * 1024 + 1usize), ((1usize << 24) + 4096, (1usize << 24) + 1)] {
        let ops = vec![
            Op::Alloc { t: 0, len: l, allow: false },
            Op::Write { t: 0, rep: 0, seed: 3 },
            Op::Alloc { t: 1, len: 5, allow: false },
            Op::Write { t: 1, rep: 0, seed: 4 },
            Op::Realloc { t: 0, len: l + 7, rep: 0 },
            Op::Realloc { t: 0, len: l - 2, rep: 0 },
            Op::Alloc { t: 2, len: 1, allow: true },
        ];
        run_history(&mut rep, prop, &mut rng, n, 0, false, Some(&ops));
        rep.count("history:>10MiB-slab");
    }
    // bounds the sources under test spell out (read at run time): an entry count and a value length just past each
    let mined_counts: Vec<usize> = crate::mined_ints("type-length-value/src", 300, 400_000).into_iter().filter(|n| ![1099usize, 4199, 65_999].contains(n)).rev().take(3).collect();
    let mined_sizes: Vec<usize> = crate::mined_ints("type-length-value/src", 300, 48 * 1024 * 1024).into_iter().rev().take(4).collect();
    rep.count(&format!("mined-from-source:counts={:?}:sizes={:?}", mined_counts, mined_sizes));
    for &m in &mined_sizes {
        let ops = vec![
            Op::Alloc { t: 0, len: m - 1, allow: false },
            Op::Write { t: 0, rep: 0, seed: 5 },
            Op::Alloc { t: 1, len: 3, allow: false },
            Op::Realloc { t: 0, len: m, rep: 0 },
            Op::Realloc { t: 0, len: m + 1, rep: 0 },
            Op::Write { t: 1, rep: 0, seed: 6 },
            Op::Realloc { t: 0, len: m - 2, rep: 0 },
            Op::Alloc { t: 2, len: 1, allow: true },
        ];
        run_history(&mut rep, prop, &mut rng, m + 200, 0, false, Some(&ops));
        run_history(&mut rep, prop, &mut rng, m + 12 + 15, 0, false, Some(&ops));
    }
    // thousands of entries (counts across 2^8, 2^10, 2^12, 2^16), then operations on early and late ones
    for count in [1100usize, 4200, 66_000].into_iter().chain(mined_counts.iter().map(|n| n + 1)) {
        let es: Vec<(usize, Vec<u8>)> = (0..count).map(|i| (if i % 97 == 5 { 1 } else { 0 }, vec![(i % 251) as u8])).collect();
        let used: usize = es.iter().map(|(_, v)| 12 + v.len()).sum();
        let init = Oracle { n: used + 64, es };
        let zeros_of_t0 = init.count(0);
        let ops = vec![
            Op::Realloc { t: 0, len: 9, rep: 3 },
            Op::Write { t: 0, rep: zeros_of_t0 - 1, seed: 77 },
            Op::Write { t: 0, rep: 1024, seed: 78 },
            Op::Realloc { t: 0, len: 0, rep: 1 },
            Op::Realloc { t: 1, len: 4, rep: 2 },
            Op::Write { t: 0, rep: 255, seed: 79 },
            Op::Alloc { t: 3, len: 2, allow: false },
        ];
        run_history_from(&mut rep, prop, &mut rng, init, 0, false, Some(&ops));
        rep.count("history:thousands-of-entries");
    }
    override_slice_scenario(&mut rep);
    for k in 0..ctx.scale(1500, 15000) {
        same_object_scenario(&mut rep, prop, &mut rng, k % 3 == 0, k < ctx.scale(100, 1000));
    }
    for k in 0..ctx.scale(400, 4000) {
        dirty_tail_scenario(&mut rep, prop, &mut rng, k < ctx.scale(120, 1200));
    }
    {
        // more than 256 entries of one type: repetition numbers 255, 256, 257 must address the right entry
        let mut ops: Vec<Op> = (0..300).map(|i| Op::Alloc { t: if i % 50 == 7 { 1 } else { 0 }, len: 1, allow: true }).collect();
        for r in [254usize, 255, 256, 257, 293, 294] {
            ops.push(Op::Write { t: 0, rep: r, seed: (r % 251) as u8 + 1 });
        }
        ops.push(Op::Realloc { t: 0, len: 3, rep: 256 });
        ops.push(Op::Realloc { t: 0, len: 0, rep: 255 });
        ops.push(Op::Write { t: 0, rep: 257, seed: 9 });
        run_history(&mut rep, prop, &mut rng, 13 * 300 + 40, 0, false, Some(&ops));
        rep.count("history:300-entries");
    }
    let n_coq = ctx.scale(2000, 30000);
    for i in 0..n_coq {
        let n = match rng.below(10) {
            0 => rng.below(13) as usize,
            1 | 2 => rng.range(12, 40) as usize,
            3..=7 => rng.range(40, 140) as usize,
            _ => rng.range(140, 300) as usize,
        };
        let nops = if i % 5 == 0 { rng.range(12, 40) } else { rng.range(1, 14) } as usize;
        run_history(&mut rep, prop, &mut rng, n, nops, true, None);
    }
    let n_mon = ctx.scale(40_000, 600_000);
    for _ in 0..n_mon {
        let n = match rng.below(10) {
            0 => rng.below(13) as usize,
            1 | 2 => rng.range(12, 40) as usize,
            3..=7 => rng.range(40, 140) as usize,
            _ => rng.range(140, 300) as usize,
        };
        let nops = rng.range(1, 30) as usize;
        run_history(&mut rep, prop, &mut rng, n, nops, false, None);
    }
    rep
}
