//! Gallina term emitter and report plumbing shared by all property modules.
use std::collections::{BTreeMap, HashSet};
use std::fmt::Write as _;
use std::hash::{Hash, Hasher};

pub fn n<T: Into<u128>>(x: T) -> String {
    format!("{}", x.into())
}
pub fn byte(b: u8) -> String {
    format!("x{:02x}", b)
}
pub fn blob(b: &[u8]) -> String {
    if b.len() > 2048 {
        // Coq's numeral parser overflows its stack on very long literals: chunk
        let parts: Vec<String> = b.chunks(2048).map(blob).collect();
        return format!("(concat [{}])", parts.join("; "));
    }
    if b.iter().all(|&x| x == 0) {
        return format!("(blob {} 0)", b.len());
    }
    let mut s = String::with_capacity(b.len() * 2 + 16);
    let _ = write!(s, "(blob {} 0x", b.len());
    let mut started = false;
    for &x in b.iter().rev() {
        if !started && x == 0 {
            continue;
        }
        started = true;
        let _ = write!(s, "{:02x}", x);
    }
    s.push(')');
    s
}
pub fn list(items: &[String]) -> String {
    format!("[{}]", items.join("; "))
}
pub fn boolean(b: bool) -> &'static str {
    if b {
        "true"
    } else {
        "false"
    }
}
pub fn option(o: Option<String>) -> String {
    match o {
        Some(s) => format!("(Some {})", s),
        None => "None".into(),
    }
}

/// What was observed on the implementation.
#[derive(Clone, Debug, PartialEq, Eq)]
pub enum Res<T> {
    Ok(T),
    Err(String),
    Panic(String),
}
impl<T> Res<T> {
    pub fn kind(&self) -> &'static str {
        match self {
            Res::Ok(_) => "ok",
            Res::Err(_) => "err",
            Res::Panic(_) => "panic",
        }
    }
    pub fn is_ok(&self) -> bool {
        matches!(self, Res::Ok(_))
    }
    pub fn is_err(&self) -> bool {
        matches!(self, Res::Err(_))
    }
    pub fn is_panic(&self) -> bool {
        matches!(self, Res::Panic(_))
    }
    pub fn emit(&self, f: impl Fn(&T) -> String) -> String {
        match self {
            Res::Ok(v) => format!("(ROk {})", f(v)),
            Res::Err(_) => "RErr".into(),
            Res::Panic(_) => "RPanic".into(),
        }
    }
    pub fn map<U>(self, f: impl FnOnce(T) -> U) -> Res<U> {
        match self {
            Res::Ok(v) => Res::Ok(f(v)),
            Res::Err(e) => Res::Err(e),
            Res::Panic(e) => Res::Panic(e),
        }
    }
}

/// Run `f` on the implementation, turning a panic into `Res::Panic`.
pub fn catch<T, E: std::fmt::Debug>(f: impl FnOnce() -> Result<T, E>) -> Res<T> {
    match std::panic::catch_unwind(std::panic::AssertUnwindSafe(f)) {
        Ok(Ok(v)) => Res::Ok(v),
        Ok(Err(e)) => Res::Err(format!("{:?}", e)),
        Err(p) => {
            let msg = if let Some(s) = p.downcast_ref::<&str>() {
                s.to_string()
            } else if let Some(s) = p.downcast_ref::<String>() {
                s.clone()
            } else {
                "panic".to_string()
            };
            Res::Panic(msg)
        }
    }
}
pub fn catch_plain<T>(f: impl FnOnce() -> T) -> Res<T> {
    catch(|| Ok::<T, ()>(f()))
}

#[derive(Clone, Debug)]
pub struct Violation {
    /// short class id (stable across runs; KNOWN_FINDINGS.txt matches on it)
    pub class: String,
    pub what: String,
    /// JSON text describing the failing input, observed and expected behaviour
    pub detail: String,
}

#[derive(Default)]
pub struct Report {
    pub prop: String,
    pub cases: Vec<String>,
    pub distinct: HashSet<u64>,
    pub nontrivial_distinct: HashSet<u64>,
    pub hist: BTreeMap<String, u64>,
    pub samples: Vec<String>,
    pub monitor_runs: u64,
    pub violations: Vec<Violation>,
    pub expected_classes: Vec<String>,
    pub exhaustive: Vec<String>,
    pub corr_module: String,
}
impl Report {
    pub fn new(prop: &str) -> Self {
        Report {
            prop: prop.into(),
            ..Default::default()
        }
    }
    pub fn count(&mut self, key: &str) {
        *self.hist.entry(key.to_string()).or_insert(0) += 1;
    }
    pub fn count_n(&mut self, key: &str, k: u64) {
        *self.hist.entry(key.to_string()).or_insert(0) += k;
    }
    /// record one model-evaluated case (a Gallina term of the property's `case` type)
    pub fn case(&mut self, term: String, nontrivial: bool) {
        let mut h = std::collections::hash_map::DefaultHasher::new();
        term.hash(&mut h);
        let k = h.finish();
        self.distinct.insert(k);
        if nontrivial {
            self.nontrivial_distinct.insert(k);
        }
        if self.samples.len() < 6 && (nontrivial || self.cases.len() % 97 == 0) {
            let mut s = term.clone();
            if s.len() > 600 {
                s.truncate(600);
                s.push_str("...");
            }
            self.samples.push(s);
        }
        self.cases.push(term);
    }
    /// monitor-only execution (implementation + oracle, not sent to Coq)
    pub fn monitor_case(&mut self, key: u64, nontrivial: bool) {
        self.monitor_runs += 1;
        if nontrivial {
            self.nontrivial_distinct.insert(key ^ 0x5555_0000_5555_0000);
        }
    }
    pub fn violate(&mut self, class: &str, what: &str, detail: String) {
        // keep the first few of every class (a flood of one class must not hide another)
        let same = self.violations.iter().filter(|v| v.class == class).count();
        if same < 3 && self.violations.len() < 300 {
            self.violations.push(Violation {
                class: class.into(),
                what: what.into(),
                detail,
            });
        }
        self.count(&format!("violation:{}", class));
    }
    /// classes of the model's case split the generator is expected to reach
    pub fn expect_classes(&mut self, cs: &[&str]) {
        for c in cs {
            self.expected_classes.push((*c).into());
        }
    }
}

pub fn json_str(s: &str) -> String {
    serde_json::to_string(s).unwrap()
}
pub fn hex(b: &[u8]) -> String {
    b.iter().map(|x| format!("{:02x}", x)).collect()
}

pub fn write_out(rep: &Report, out_dir: &str, tag: &str, shard_size: usize) -> std::io::Result<()> {
    std::fs::create_dir_all(out_dir)?;
    let nshards = if rep.cases.is_empty() {
        0
    } else {
        (rep.cases.len() + shard_size - 1) / shard_size
    };
    for k in 0..nshards {
        let lo = k * shard_size;
        let hi = usize::min(lo + shard_size, rep.cases.len());
        let mut s = String::new();
        let module = if rep.corr_module.is_empty() { rep.prop.clone() } else { rep.corr_module.clone() };
        let _ = writeln!(s, "From SplVerif Require Import Lib.Base Corr.Common Corr.{}.", module);
        let _ = writeln!(s, "Local Open Scope N_scope.");
        let _ = writeln!(s, "Definition cases : list case := [");
        for (i, c) in rep.cases[lo..hi].iter().enumerate() {
            let sep = if lo + i + 1 == hi { "" } else { ";" };
            let _ = writeln!(s, "{}{}", c, sep);
        }
        let _ = writeln!(s, "].");
        let _ = writeln!(s, "Eval vm_compute in (bad check cases).");
        std::fs::write(format!("{}/cases_{}_{}_{}.v", out_dir, rep.prop, tag, k), s)?;
    }
    let unreached: Vec<&String> = rep
        .expected_classes
        .iter()
        .filter(|c| !rep.hist.contains_key(*c))
        .collect();
    let j = serde_json::json!({
        "property": rep.prop,
        "tag": tag,
        "cases": rep.cases.len(),
        "shards": nshards,
        "shard_size": shard_size,
        "distinct": rep.distinct.len(),
        "distinct_nontrivial": rep.nontrivial_distinct.len(),
        "monitor_runs": rep.monitor_runs,
        "hist": rep.hist,
        "samples": rep.samples,
        "unreached_classes": unreached,
        "exhaustive": rep.exhaustive,
        "violations": rep.violations.iter().map(|v| serde_json::json!({
            "class": v.class, "what": v.what, "detail": serde_json::from_str::<serde_json::Value>(&v.detail).unwrap_or(serde_json::Value::String(v.detail.clone()))
        })).collect::<Vec<_>>(),
    });
    std::fs::write(
        format!("{}/report_{}_{}.json", out_dir, rep.prop, tag),
        serde_json::to_string_pretty(&j).unwrap(),
    )
}

/// Input bytes placed at a chosen offset from an 8-byte aligned address: the allocator
/// hands out aligned `Vec<u8>`s, so without this every parser would only ever see aligned
/// input and a zero-copy read with an alignment requirement would go unnoticed.
pub struct Shifted {
    backing: Vec<u64>,
    shift: usize,
    len: usize,
}
impl Shifted {
    pub fn new(b: &[u8], shift: usize) -> Self {
        let shift = shift % 8;
        let mut backing = vec![0u64; (b.len() + shift + 7) / 8 + 1];
        let bytes: &mut [u8] = bytemuck::cast_slice_mut(&mut backing);
        bytes[shift..shift + b.len()].copy_from_slice(b);
        Shifted { backing, shift, len: b.len() }
    }
    pub fn bytes(&self) -> &[u8] {
        let bytes: &[u8] = bytemuck::cast_slice(&self.backing);
        &bytes[self.shift..self.shift + self.len]
    }
    pub fn bytes_mut(&mut self) -> &mut [u8] {
        let bytes: &mut [u8] = bytemuck::cast_slice_mut(&mut self.backing);
        &mut bytes[self.shift..self.shift + self.len]
    }
}
