use sha2::{Digest, Sha256};
use std::collections::HashSet;
fn main() {
    // names "Err<hex>" whose nonce-0 value (bytes 13..17 LE of SHA-256("spl_program_error:" name LE32(0))) is a boundary
    let mut targets: HashSet<u32> = HashSet::new();
    for v in [0u32, 1, 6998, 6999, 7000, 7001, 7002, 255, 256, 65535, 65536, 0x7fff_ffff, 0x8000_0000, 0x8000_0001] { targets.insert(v); }
    for k in 0..4u32 { targets.insert(u32::MAX - k); }
    for k in 1020..1030u32 { targets.insert(u32::MAX - k); }
    for k in 6990..7000u32 { targets.insert(k); }
    let threads = 12u64;
    let per = (1u64 << 33) / threads; // ~2 sweeps of the u32 space
    let hs: Vec<_> = (0..threads).map(|t| { let targets = targets.clone(); std::thread::spawn(move || {
        let mut out = Vec::new();
        let pre = { let mut h = Sha256::new(); h.update(b"spl_program_error:"); h };
        for i in (t * per)..((t + 1) * per) {
            let name = format!("Err{:X}", i);
            let mut h = pre.clone(); h.update(name.as_bytes()); h.update(0u32.to_le_bytes());
            let dg = h.finalize();
            let d = u32::from_le_bytes([dg[13], dg[14], dg[15], dg[16]]);
            if targets.contains(&d) { out.push((name, d)); }
        }
        out }) }).collect();
    for h in hs { for (n, d) in h.join().unwrap() { println!("{} {}", n, d); } }
}
