#!/usr/bin/env python3
"""Mutation survey: how many small source changes do the checks notice?

    tools/mutsurvey.py gen  [--out DIR]                   enumerate mutants of /repo's non-test code
    tools/mutsurvey.py run  [--out DIR] [--workers N] [--only REGEX] [--limit K]
    tools/mutsurvey.py report [--out DIR]

Nothing here is registered in MANIFEST.json: it is a development aid that measures the
tie between model and code (DESIGN.md 12).  /repo itself is never modified: every worker
gets its own git worktree of /repo's HEAD and its own copy of /verif whose harness is
re-pointed at that worktree (under DIR, default /tmp/mut), all removed by `clean`.

For each mutant a worker
  1. writes the mutated file into its worktree and builds the crate (mutants that do not
     compile are dropped),
  2. runs ./check <prop> for the properties anchored in that file until one reports a
     VIOLATION,
  3. if none does, runs the crate's own tests (and its dependants') to see whether the
     existing suite notices; what passes both is a *survivor* to triage by hand:
     equivalent mutant, outside every property, or a gap in the checks.
"""
import sys, os, re, json, subprocess, argparse, shutil, time, threading, queue

REPO = "/repo"
VERIF = os.path.dirname(os.path.dirname(os.path.abspath(__file__)))

# file -> (crate, [properties whose checks exercise it], [packages whose tests to run])
TARGETS = {
    "type-length-value/src/state.rs": ("spl-type-length-value", ["C01", "C02", "C03", "C04", "C15", "C12"], ["spl-type-length-value", "spl-tlv-account-resolution", "spl-type-length-value-derive-test"]),
    "type-length-value/src/length.rs": ("spl-type-length-value", ["C02", "C01", "C15"], ["spl-type-length-value", "spl-tlv-account-resolution"]),
    "type-length-value/src/variable_len_pack.rs": ("spl-type-length-value", ["C15", "C04"], ["spl-type-length-value", "spl-type-length-value-derive-test"]),
    "type-length-value-derive/src/builder.rs": ("spl-type-length-value-derive", ["C15"], ["spl-type-length-value-derive-test"]),
    "list-view/src/list_view.rs": ("spl-list-view", ["C09", "C10"], ["spl-list-view"]),
    "list-view/src/list_view_mut.rs": ("spl-list-view", ["C09", "C10"], ["spl-list-view"]),
    "list-view/src/list_view_read_only.rs": ("spl-list-view", ["C09", "C10"], ["spl-list-view"]),
    "pod/src/primitives.rs": ("spl-pod", ["C13"], ["spl-pod"]),
    "pod/src/bytemuck.rs": ("spl-pod", ["C13", "C10"], ["spl-pod"]),
    "pod/src/option.rs": ("spl-pod", ["C14"], ["spl-pod"]),
    "tlv-account-resolution/src/seeds.rs": ("spl-tlv-account-resolution", ["C11", "C05"], ["spl-tlv-account-resolution"]),
    "tlv-account-resolution/src/pubkey_data.rs": ("spl-tlv-account-resolution", ["C11", "C05"], ["spl-tlv-account-resolution"]),
    "tlv-account-resolution/src/account.rs": ("spl-tlv-account-resolution", ["C05", "C06", "C07", "C12"], ["spl-tlv-account-resolution"]),
    "tlv-account-resolution/src/state.rs": ("spl-tlv-account-resolution", ["C08", "C06", "C07", "C12", "C05"], ["spl-tlv-account-resolution"]),
    "tlv-account-resolution/src/error.rs": ("spl-tlv-account-resolution", ["C19"], ["spl-tlv-account-resolution"]),
    "type-length-value/src/error.rs": ("spl-type-length-value", ["C19"], ["spl-type-length-value"]),
    "list-view/src/error.rs": ("spl-list-view", ["C19"], ["spl-list-view"]),
    "generic-token/src/generic_token.rs": ("spl-generic-token", ["C16", "C17"], ["spl-generic-token", "spl-generic-token-tests"]),
    "generic-token/src/token.rs": ("spl-generic-token", ["C16", "C17"], ["spl-generic-token", "spl-generic-token-tests"]),
    "generic-token/src/token_2022.rs": ("spl-generic-token", ["C16", "C17"], ["spl-generic-token", "spl-generic-token-tests"]),
    "discriminator/src/discriminator.rs": ("spl-discriminator", ["C18", "C02", "C01"], ["spl-discriminator", "spl-type-length-value"]),
    "discriminator-syn/src/lib.rs": ("spl-discriminator-syn", ["C18"], ["spl-discriminator", "spl-type-length-value-derive-test"]),
    "discriminator-syn/src/parser.rs": ("spl-discriminator-syn", ["C18"], ["spl-discriminator"]),
    "program-error-derive/src/parser.rs": ("spl-program-error-derive", ["C19"], ["spl-program-error"]),
    "program-error-derive/src/macro_impl.rs": ("spl-program-error-derive", ["C19"], ["spl-program-error"]),
}

SWAPS = [("is_signer", "is_writable"), ("saturating_add", "wrapping_add"), ("saturating_sub", "wrapping_sub"),
         ("saturating_mul", "wrapping_mul"), (".min(", ".max("), ("true", "false"), ("account_index", "data_index"),
         ("checked_add", "checked_sub"), ("checked_mul", "checked_add"), (".first()", ".last()"),
         ("to_le_bytes", "to_be_bytes"), ("from_le_bytes", "from_be_bytes"), ("&&", "||"),
         ("copy_from_slice", "clone_from_slice")]


def baseline(f):
    """the committed text of a source file (HEAD of /repo), independent of what the working tree holds right now"""
    rc, o = sh(["git", "-C", REPO, "show", "HEAD:" + f])
    assert rc == 0, o
    return o


def code_region(lines):
    """indices of lines that are library code: before the first #[cfg(test)], not comments/attributes/use."""
    out = []
    for i, l in enumerate(lines):
        s = l.strip()
        if s.startswith("#[cfg(test)]"):
            break
        if re.match(r"^(\d+, )+\d+,$", s):   # byte tables
            continue
        if not s or s.startswith("//") or s.startswith("#[") or s.startswith("#![") or s.startswith("use ") or s.startswith("pub use "):
            continue
        out.append(i)
    return out


def strip_strings(l):
    """mask string literals and trailing comments so operators inside them are not mutated"""
    res, i, n = [], 0, len(l)
    while i < n:
        c = l[i]
        if c == '"':
            j = i + 1
            while j < n and l[j] != '"':
                j += 2 if l[j] == "\\" else 1
            res.append(" " * (min(j, n - 1) - i + 1)); i = j + 1
        elif l.startswith("//", i):
            res.append(" " * (n - i)); break
        else:
            res.append(c); i += 1
    return "".join(res)[:n].ljust(n)


def mutants_of_line(l):
    """yield (col, old, new, operator)"""
    m = strip_strings(l)
    typeish = re.search(r"\b(impl|where|fn|struct|enum|trait|type)\b", m) is not None
    # relational
    for mo in re.finditer(r"(<=|>=|==|!=)", m):
        o = mo.group(1)
        if m[mo.start() - 1:mo.start()] in ("<", ">", "=", "!", "-", "+", "*", "/", "|", "&", "^", "%") and o in ("==",):
            continue
        if o in ("<=", ">=") and m[mo.start() - 1:mo.start()] in ("<", ">"):   # <<= >>=
            continue
        new = {"<=": "<", ">=": ">", "==": "!=", "!=": "=="}[o]
        yield mo.start(), o, new, "rel"
    for mo in re.finditer(r" (<|>) ", m):
        if typeish:
            continue
        o = mo.group(1)
        yield mo.start() + 1, o, o + "=", "rel"
    # arithmetic
    for mo in re.finditer(r" (\+|-|\*|/|%) ", m):
        o = mo.group(1)
        after = m[mo.end():mo.end() + 1]
        if o == "+" and (after.isupper() or after == "'" or after == "?"):   # trait bounds
            continue
        if typeish and o in ("+", "*"):
            continue
        new = {"+": "-", "-": "+", "*": "/", "/": "*", "%": "/"}[o]
        yield mo.start() + 1, o, new, "arith"
    for mo in re.finditer(r"(\+=|-=)", m):
        yield mo.start(), mo.group(1), {"+=": "-=", "-=": "+="}[mo.group(1)], "arith"
    # integer literals
    for mo in re.finditer(r"(?<![A-Za-z0-9_.\"'#x])(\d+)(?![A-Za-z0-9_.]*[A-Za-z_'x])(?![\d.])", m):
        v = int(mo.group(1))
        if v > 100000:
            continue
        yield mo.start(), mo.group(1), str(v + 1), "lit"
        if v > 0:
            yield mo.start(), mo.group(1), str(v - 1), "lit"
    # identifier / method swaps
    for a, b in SWAPS:
        for x, y in ((a, b), (b, a)):
            for mo in re.finditer(re.escape(x), m):
                if x[0].isalpha() and (m[mo.start() - 1:mo.start()].isalnum() or m[mo.start() - 1:mo.start()] == "_"):
                    continue
                if x[-1].isalpha() and (m[mo.end():mo.end() + 1].isalnum() or m[mo.end():mo.end() + 1] == "_"):
                    continue
                yield mo.start(), x, y, "swap"
    # negation removal
    for mo in re.finditer(r"\bif !", m):
        yield mo.start(), "if !", "if ", "neg"
    # inclusive range
    for mo in re.finditer(r"\.\.=", m):
        yield mo.start(), "..=", "..", "range"


def gen(out):
    os.makedirs(out, exist_ok=True)
    muts = []
    for f, (crate, props, pkgs) in TARGETS.items():
        lines = baseline(f).split("\n")
        for i in code_region(lines):
            l = lines[i]
            seen = set()
            for col, old, new, op in mutants_of_line(l):
                if l[col:col + len(old)] != old or (col, new) in seen:
                    continue
                seen.add((col, new))
                muts.append({"file": f, "line": i + 1, "col": col, "old": old, "new": new, "op": op,
                             "text": l.strip()[:140]})
            s = l.strip()
            # statement deletion: a stand-alone call / early return / assignment through a place
            if re.match(r"^(return Err\(.*\);|[a-z_][A-Za-z0-9_\.\[\]:&\*]*(\(.*\))\??;|[a-z_][A-Za-z0-9_\.\[\]\*]*(\[.*\])? (=|\+=|-=|\|=) .*;)$", s) and not s.startswith("let "):
                muts.append({"file": f, "line": i + 1, "col": -1, "old": s, "new": "", "op": "del", "text": s[:140]})
    for k, m in enumerate(muts):
        m["id"] = "m%04d" % k
    with open(os.path.join(out, "mutants.jsonl"), "w") as fh:
        for m in muts:
            fh.write(json.dumps(m) + "\n")
    by = {}
    for m in muts:
        by[m["file"]] = by.get(m["file"], 0) + 1
    for f in sorted(by):
        print("%5d  %s" % (by[f], f))
    print("%5d  total -> %s" % (len(muts), os.path.join(out, "mutants.jsonl")))


def sh(cmd, cwd=None, timeout=None, env=None):
    try:
        p = subprocess.run(cmd, cwd=cwd, timeout=timeout, env=env, stdout=subprocess.PIPE, stderr=subprocess.STDOUT, text=True)
        return p.returncode, p.stdout
    except subprocess.TimeoutExpired:
        return 124, "timeout"


def setup_worker(out, k):
    W = os.path.join(out, "w%d" % k)
    if os.path.exists(os.path.join(W, "ready")):
        sh(["git", "-C", os.path.join(W, "repo"), "checkout", "--", "."])   # a killed run may have left a mutant behind
        return W
    shutil.rmtree(W, ignore_errors=True)
    os.makedirs(W)
    sh(["git", "-C", REPO, "worktree", "prune"])
    rc, o = sh(["git", "-C", REPO, "worktree", "add", "--detach", "-f", os.path.join(W, "repo"), "HEAD"])
    assert rc == 0, o
    rc, o = sh(["rsync", "-a", "--exclude", ".build", "--exclude", "replays", "--exclude", ".git", "--exclude", "coq/corr",
                "--exclude", "seeded", VERIF + "/", os.path.join(W, "verif") + "/"])
    assert rc == 0, o
    for rel in ("harness/Cargo.toml", "harness/pod-matrix/Cargo.toml", "harness/src/main.rs",
                "harness/.cargo/config.toml", "harness/pod-matrix/.cargo/config.toml",
                "harness/disc-alone/Cargo.toml", "harness/disc-alone/.cargo/config.toml"):
        p = os.path.join(W, "verif", rel)
        if os.path.exists(p):
            s = open(p).read().replace('"/repo/', '"%s/repo/' % W).replace('"/verif/', '"%s/verif/' % W)
            open(p, "w").write(s)
    open(os.path.join(W, "ready"), "w").write("ok")
    return W


def apply_mutant(W, m):
    p = os.path.join(W, "repo", m["file"])
    lines = baseline(m["file"]).split("\n")
    l = lines[m["line"] - 1]
    if m["op"] == "del":
        lines[m["line"] - 1] = l[:len(l) - len(l.lstrip())] + "/* deleted */"
    else:
        c = m["col"]
        assert l[c:c + len(m["old"])] == m["old"]
        lines[m["line"] - 1] = l[:c] + m["new"] + l[c + len(m["old"]):]
    open(p, "w").write("\n".join(lines))


def restore(W, m):
    open(os.path.join(W, "repo", m["file"]), "w").write(baseline(m["file"]))


def run_one(W, m, tier):
    env = dict(os.environ, CARGO_NET_OFFLINE="true", CARGO_TERM_COLOR="never")
    crate, props, pkgs = TARGETS[m["file"]]
    res = dict(m)
    t0 = time.time()
    apply_mutant(W, m)
    try:
        rc, o = sh(["cargo", "build", "--offline", "--quiet", "-p", crate], cwd=os.path.join(W, "repo"), timeout=1200, env=env)
        if rc != 0:
            res["outcome"] = "no-compile"
            return res
        res["checks"] = {}
        for p in props:
            rc, o = sh([os.path.join(W, "verif", "check"), p, "--tier", tier], cwd=os.path.join(W, "verif"), timeout=2400, env=env)
            v = [x for x in o.splitlines() if x.startswith("VIOLATION")]
            if rc != 0 and v:
                res["checks"][p] = "no-input" if v[0].rstrip().endswith("no-failing-input-found") else "caught"
                res["outcome"] = "caught" if res["checks"][p] == "caught" else "caught-no-input"
                res["by"] = p
                res["line_out"] = v[0]
                if res["checks"][p] == "caught":
                    break
            elif rc != 0:
                res["checks"][p] = "error rc=%d: %s" % (rc, o[-300:])
            else:
                res["checks"][p] = "pass"
        if res.get("outcome") == "caught":
            return res
        # the existing suite
        args = []
        for p in pkgs:
            args += ["-p", p]
        rc, o = sh(["cargo", "test", "--offline", "--quiet"] + args, cwd=os.path.join(W, "repo"), timeout=2400, env=env)
        res["suite"] = "pass" if rc == 0 else "fail"
        if "outcome" not in res:
            res["outcome"] = "survivor" if rc == 0 else "suite-only"
        return res
    finally:
        restore(W, m)
        res["secs"] = round(time.time() - t0, 1)


def run(out, workers, only, limit, tier):
    muts = [json.loads(l) for l in open(os.path.join(out, "mutants.jsonl"))]
    done = set()
    rp = os.path.join(out, "results.jsonl")
    if os.path.exists(rp):
        for l in open(rp):
            done.add(json.loads(l)["id"])
    todo = [m for m in muts if m["id"] not in done and (not only or re.search(only, m["file"] + ":" + m["op"] + ":" + m["id"]))]
    if limit:
        todo = todo[:limit]
    print("%d mutants to run, %d already done" % (len(todo), len(done)), flush=True)
    q = queue.Queue()
    for m in todo:
        q.put(m)
    lock = threading.Lock()

    def work(k):
        W = setup_worker(out, k)
        while True:
            try:
                m = q.get_nowait()
            except queue.Empty:
                return
            try:
                os.makedirs(os.path.join(out, "claims"), exist_ok=True)
                os.mkdir(os.path.join(out, "claims", m["id"]))      # atomic claim: several runs may share DIR
            except FileExistsError:
                continue
            try:
                r = run_one(W, m, tier)
            except Exception as e:   # noqa
                r = dict(m, outcome="tool-error", detail=repr(e))
            with lock:
                with open(rp, "a") as fh:
                    fh.write(json.dumps(r) + "\n")
                print("%s %-16s %s:%d %s -> %s  [%s] %ss" % (r["id"], r["outcome"], r["file"], r["line"], r["old"][:30], r["new"][:30], r.get("by", ""), r.get("secs")), flush=True)

    ts = [threading.Thread(target=work, args=(k,)) for k in range(workers)]
    for t in ts:
        t.start()
    for t in ts:
        t.join()


def report(out):
    rs = [json.loads(l) for l in open(os.path.join(out, "results.jsonl"))]
    tot = {}
    for r in rs:
        tot[r["outcome"]] = tot.get(r["outcome"], 0) + 1
    print(json.dumps(tot, indent=1))
    for r in rs:
        if r["outcome"] in ("survivor", "suite-only", "caught-no-input", "tool-error"):
            print("%s %-15s %s:%d  %s -> %s   | %s" % (r["id"], r["outcome"], r["file"], r["line"], r["old"], r["new"], r["text"]))


def clean(out):
    for d in sorted(os.listdir(out)) if os.path.isdir(out) else []:
        W = os.path.join(out, d)
        if d.startswith("w") and os.path.isdir(os.path.join(W, "repo")):
            sh(["git", "-C", REPO, "worktree", "remove", "--force", os.path.join(W, "repo")])
            shutil.rmtree(W, ignore_errors=True)
    sh(["git", "-C", REPO, "worktree", "prune"])


if __name__ == "__main__":
    ap = argparse.ArgumentParser()
    ap.add_argument("cmd", choices=["gen", "run", "report", "clean"])
    ap.add_argument("--out", default="/tmp/mut")
    ap.add_argument("--workers", type=int, default=6)
    ap.add_argument("--only", default=None)
    ap.add_argument("--limit", type=int, default=0)
    ap.add_argument("--tier", default="quick")
    a = ap.parse_args()
    if a.cmd == "gen":
        gen(a.out)
    elif a.cmd == "run":
        run(a.out, a.workers, a.only, a.limit, a.tier)
    elif a.cmd == "report":
        report(a.out)
    else:
        clean(a.out)
