use solana_pubkey::Pubkey;
use std::collections::BTreeMap;
fn main() {
    let program = Pubkey::new_from_array([7u8; 32]);
    let threads = 12u64;
    let per = 6_000_000u64;
    let hs: Vec<_> = (0..threads).map(|t| std::thread::spawn(move || {
        let mut found: BTreeMap<u8, u64> = BTreeMap::new();
        for c in (t * per)..((t + 1) * per) {
            let (_, bump) = Pubkey::find_program_address(&[b"vault", &c.to_le_bytes()], &program);
            if bump < 250 { found.entry(bump).or_insert(c); }
        }
        found })).collect();
    let mut all: BTreeMap<u8, u64> = BTreeMap::new();
    for h in hs { for (b, c) in h.join().unwrap() { all.entry(b).or_insert(c); } }
    for (b, c) in all { println!("{} {}", b, c); }
}
