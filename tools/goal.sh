#!/bin/bash
# usage: goal.sh <file.v> <line> [extra tactic text]  -- show the goal after the first <line> lines
f=$1; n=$2; shift 2
tmp=$(mktemp /tmp/goalXXXX.v)
head -n "$n" "$f" > "$tmp"
echo "$@" >> "$tmp"
echo "Show." >> "$tmp"
cd /verif/coq && timeout 300 coqtop -Q theories SplVerif -batch -l "$tmp" 2>&1 | tail -n ${TAILN:-40}
rm -f "$tmp"
