#!/usr/bin/env python3
"""Generate coq/pins/<id>.v from coq/theories/Props/<id>.v: one `Check name : statement.`
per Theorem.  Run by hand after editing a Props file; the pins are committed, so a
later silent weakening of a theorem makes the pinned Check fail."""
import re, sys, os
root = os.path.dirname(os.path.dirname(os.path.abspath(__file__)))
for pid in sys.argv[1:]:
    src = open(os.path.join(root, "coq/theories/Props", pid + ".v")).read()
    # strip comments
    out, depth, i = [], 0, 0
    while i < len(src):
        if src.startswith("(*", i): depth += 1; i += 2
        elif src.startswith("*)", i) and depth > 0: depth -= 1; i += 2
        else:
            if depth == 0: out.append(src[i])
            i += 1
    code = "".join(out)
    imports = "\n".join(re.findall(r"^From .*?\.$|^Local Open Scope.*?\.$|^Import .*?\.$", code, re.M | re.S))
    first = imports.split("\n")[0]
    imports = imports.replace(first, first[:-1] + " Props.%s." % pid, 1)
    thms = re.findall(r"Theorem\s+([A-Za-z0-9_']+)\s*:(.*?)\.\s*\nProof\.", code, re.S)
    lines = [imports, "(* PINS *)"]
    for name, stmt in thms:
        lines.append("Check %s : %s." % (name, " ".join(stmt.split())))
    open(os.path.join(root, "coq/pins", pid + ".v"), "w").write("\n".join(lines) + "\n")
    print(pid, len(thms), "theorems pinned")
