#!/bin/bash
# usage: seedtest.sh <seed-dir> <worktree> <crate> <testname> <prop> [more props...]
# 1. confirms the demo: passes on the clean worktree, fails with the patch, suite passes with the patch
# 2. applies the patch to /repo, runs ./check for each property, restores /repo
set -u
SEED=$1; WT=$2; CRATE=$3; TNAME=$4; shift 4
export CARGO_NET_OFFLINE=true
cd "$WT" || exit 2
git checkout -q -- . ; git clean -q -fd -e target
CRATEDIR=$(cargo metadata --offline --no-deps --format-version 1 2>/dev/null | python3 -c "import json,sys;m=json.load(sys.stdin);print([p['manifest_path'] for p in m['packages'] if p['name']=='$CRATE'][0].rsplit('/',1)[0])")
mkdir -p "$CRATEDIR/tests"; cp "$SEED/demo.rs" "$CRATEDIR/tests/$TNAME.rs"
echo "== demo on clean tree"; cargo test --offline -q -p "$CRATE" --test "$TNAME" 2>&1 | grep -E "^test result|error(\[|:)" | head -5
git apply "$SEED/patch.diff" || { echo "PATCH DOES NOT APPLY"; exit 2; }
echo "== demo with patch"; cargo test --offline -q -p "$CRATE" --test "$TNAME" 2>&1 | grep -E "^test result|error(\[|:)" | head -5
rm -f "$CRATEDIR/tests/$TNAME.rs"
echo "== existing suite with patch"; cargo test --offline -q --workspace 2>&1 | grep -E "^test result|error(\[|:)|FAILED" | sort | uniq -c | head -8
git checkout -q -- . ; git clean -q -fd -e target
cd /verif
git -C /repo apply "$SEED/patch.diff" || { echo "PATCH DOES NOT APPLY TO /repo"; exit 2; }
for P in "$@"; do echo "== ./check $P with patch"; ./check "$P" 2>&1 | tail -6; echo "exit=$?"; done
git -C /repo checkout -- .
git -C /repo status --short | head -3
