"""Per-property registry used by ./check: generation rule text, partial clauses, masks,
profiles.  The theorem list of a property is whatever coq/pins/<id>.v pins."""

ALLOWED_AXIOMS = set()   # no axioms are expected anywhere (DESIGN 5)

HARNESS_TIMEOUT = {"quick": 600, "thorough": 3000}
SHARD_TIMEOUT = {"quick": 600, "thorough": 1800}

TRUSTED_BASE = [
    "Coq 8.16.1 kernel; vm_compute for the in-Coq evaluation of the model on the recorded cases (no native_compute)",
    "no axioms: every pinned theorem must print 'Closed under the global context'",
    "hand-written Gallina model of the anchored functions; tie to /repo = correspondence check (differential, bounded by its generators) run on every check",
    "Rust harness (generators, catch_unwind recorder, Gallina emitter, monitors with independent oracles) and the python driver (sharding, parsing '= [...] : list N', assumption audit)",
    "Rust core semantics taken as given: slice indexing/copy_within/fill/split_at, to/from_le_bytes, integer try_from, overflow panics under overflow-checks, &mut exclusivity",
    "no extraction",
]
ASSUMPTIONS = [
    "the model is tied to the code only on the generated cases; class coverage is in coverage.histogram / unreached_classes",
]

PROPS = {
    "C11": {
        "rule": "seed lists from a structure-aware generator (every kind in every position, totals steered to 30..35 bytes, "
                "literal lengths 0..300 with every value 250..290, 15/16/17 account-key seeds, u8 parameters biased to 0/1/127/128/255), "
                "single-seed packs into destinations of right/wrong length, 32-byte arrays (valid packings, one-byte mutations, garbage after the "
                "terminator, literals reaching exactly/one past the end, truncated last seed, random), short slices for Seed::unpack/PubkeyData::unpack; "
                "a case is non-trivial when it packs/unpacks at least one seed successfully; distinct = distinct Gallina case terms",
        "partial": [],
        "masks": [],
        "assumptions": ["key-data re-pack law is stated for initialised configs (DESIGN 3)"],
    },
}
