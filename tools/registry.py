"""Per-property registry used by ./check: generation rule text, partial clauses, masks,
profiles.  The theorem list of a property is whatever coq/pins/<id>.v pins."""

ALLOWED_AXIOMS = set()   # no axioms are expected anywhere (DESIGN 5)

HARNESS_TIMEOUT = {"quick": 600, "thorough": 3000}
SHARD_TIMEOUT = {"quick": 600, "thorough": 1800}

TRUSTED_BASE = [
    "Coq 8.16.1 kernel; vm_compute for the in-Coq evaluation of the model on the recorded cases (no native_compute)",
    "no axioms: every pinned theorem must print 'Closed under the global context'",
    "hand-written Gallina model of the anchored functions; tie to /repo = correspondence check (differential, bounded by its generators) run on every check",
    "Rust harness (generators, catch_unwind recorder, Gallina emitter, monitors with independent oracles) and the python driver (sharding, parsing '= [...] : list N', assumption audit)",
    "Rust core semantics taken as given: slice indexing/copy_within/fill/split_at, to/from_le_bytes, integer try_from, overflow panics under overflow-checks, &mut exclusivity",
    "no extraction",
]
ASSUMPTIONS = [
    "the model is tied to the code only on the generated cases; class coverage is in coverage.histogram / unreached_classes",
]

PROPS = {

    "C15": {"rule": "accounts in the runtime's serialized layout (opened with solana_program_entrypoint::deserialize; original length = initial length, 10 KiB spare) holding 1-5 TLV entries "
            "(5 tags, repeated types, Borsh- and hand-packed values of 0..40 bytes, 0..60 spare zero bytes); histories of 1-6 realloc_and_pack operations on one AccountInfo targeting first / middle / last / missing entries "
            "with new sizes {same, +-1, 0, half, +2..60, around the 10 KiB growth limit}; after each: result, data length, serialized length field, all bytes against a Vec oracle + independent encoder; "
            "derived packer on 7 compiled items (String/Vec/Option/nested/enum; where-clause, inline-bound and const generics) x 300 random values: packed length, exact bytes, larger-slot decode, too-small slot; "
            "non-trivial = at least one successful resize", "partial": ["the derived packer equals Borsh: differential (compiled items vs borsh::to_vec, and vs the Gallina Borsh universe in Coq)"],
            "masks": [], "assumptions": ["AccountInfo::resize modelled as truncate / zero-extend with the 10 KiB limit over the original length; memory safety of its unsafe code is outside the model"]},

    "C12": {"rule": "histories of 1-8 init / update operations over 1-4 instruction discriminators (two sharing a 7-byte prefix) with arbitrary 35-byte configs, list lengths 0..8 (update to longer / shorter / equal / empty), "
            "accounts of the advertised total size -1 / 0 / +1 / +40 / random; after every operation every list is reloaded (unpack_with_tlv_state) and compared with a map oracle; failed operations must leave the bytes unchanged; "
            "exact size and one-byte-less for n = 0..8; malformed account bytes (mutated header, 0xfffffff0 length, trailing non-zero) through init/update/reload; non-trivial = at least one successful init/update",
            "partial": [], "masks": [], "assumptions": ["type tags are non-zero; lists shorter than 10^8 entries in the init/update theorems (any real account is < 10 MiB)"]},

    "C05": {"rule": 'worlds of 3-8 keys, a program id, instruction data of 0..300 bytes, 0-6 accounts with data of 0..300 bytes (or none); configs from the real constructors: fixed keys, PDAs over 0-4 seeds (literals, instruction-data slices incl. 0/32/33 bytes and ranges ending at / one past the end, account keys, account-data slices; indices in range, one past, random), 15 and 16 account-key seeds, external-program PDAs (index in / out of range), key-from-data configs at offsets len-32 / len-31; plus raw 35-byte configs over all kind bytes (3, 4, 127, 128, 129, 255) and flag bytes {0,1,2,255}' + "; every config is resolved by the real ExtraAccountMeta::resolve and by an independent resolver written from the property text (PDAs recomputed with Pubkey::try_find_program_address); "
            "the Gallina PDA derivation (SHA-256 + Ed25519 point test) is compared with solana-pubkey on 60 seed sets and 60 random 32-byte strings per run; constructors on 2000 seed lists; non-trivial = resolved successfully",
            "partial": ["PDA hash / curve test equal the crates': the executable oracle Lib/Pda.v is validated per run, the theorems quantify over any find_pda"], "masks": [],
            "assumptions": ["stored configs are 32 bytes (ExtraAccountMeta.address_config is [u8; 32])"]},
    "C06": {"rule": 'worlds of 3-8 keys, a program id, instruction data of 0..300 bytes, 0-6 accounts with data of 0..300 bytes (or none); configs from the real constructors: fixed keys, PDAs over 0-4 seeds (literals, instruction-data slices incl. 0/32/33 bytes and ranges ending at / one past the end, account keys, account-data slices; indices in range, one past, random), 15 and 16 account-key seeds, external-program PDAs (index in / out of range), key-from-data configs at offsets len-32 / len-31; plus raw 35-byte configs over all kind bytes (3, 4, 127, 128, 129, 255) and flag bytes {0,1,2,255}' + "; scenarios: 0-6 instruction metas over the key universe (duplicate keys with mixed flags), 0-6 stored configs, a pool with one data value per key (PDAs and key-from-data targets added, 1/6 left out); "
            "both helpers run on the same stored TLV data (written by the real init); every appended meta is checked against the metas before it", "partial": [], "masks": [], "assumptions": []},
    "C07": {"rule": 'worlds of 3-8 keys, a program id, instruction data of 0..300 bytes, 0-6 accounts with data of 0..300 bytes (or none); configs from the real constructors: fixed keys, PDAs over 0-4 seeds (literals, instruction-data slices incl. 0/32/33 bytes and ranges ending at / one past the end, account keys, account-data slices; indices in range, one past, random), 15 and 16 account-key seeds, external-program PDAs (index in / out of range), key-from-data configs at offsets len-32 / len-31; plus raw 35-byte configs over all kind bytes (3, 4, 127, 128, 129, 255) and flag bytes {0,1,2,255}' + "; an accepted list is built by resolving off-chain and restoring the configured flags, then every single-field mutation (one key, one flag, one swap, one account dropped / added, one data byte), "
            "lists shorter than the config list, and malformed stored data (truncated, mutated header, random, 0xffffffff length); expected verdict from the independent resolver", "partial": [], "masks": [], "assumptions": []},
    "C08": {"rule": 'worlds of 3-8 keys, a program id, instruction data of 0..300 bytes, 0-6 accounts with data of 0..300 bytes (or none); configs from the real constructors: fixed keys, PDAs over 0-4 seeds (literals, instruction-data slices incl. 0/32/33 bytes and ranges ending at / one past the end, account keys, account-data slices; indices in range, one past, random), 15 and 16 account-key seeds, external-program PDAs (index in / out of range), key-from-data configs at offsets len-32 / len-31; plus raw 35-byte configs over all kind bytes (3, 4, 127, 128, 129, 255) and flag bytes {0,1,2,255}' + "; scenarios as C06 under the property's precondition (initial infos mirror the metas, pool functional, fetcher = the pool, error for keys outside); each scenario also re-run with the pool reversed and rotated", "partial": [], "masks": [], "assumptions": ["fetcher returns Err for keys that are not in the pool"]},

    "C18": {"rule": "700 generated items per run (struct/enum, unit/braced, 0-2 lifetimes, 0-3 type parameters with inline bounds / defaults / where-clauses, const parameters, extra attributes) "
            "with hash-input literals of 0..200 chars over an alphabet with quotes, backslashes, tab/newline, braces, non-ASCII (2-4 byte UTF-8) written as escaped or raw literals, lengths 55/56/63/64/119/120 to cross SHA-256 block boundaries, "
            "leading/trailing whitespace; each goes through the real SplDiscriminateBuilder at run time (bytes + emitted impl header parsed back with syn), ArrayDiscriminator::new_with_hash_input and sha2; "
            "8 compiled derives (incl. inline-bound/const/defaulted generics); u64/array/slice conversions on boundary and random values and all slice lengths 0..20",
            "partial": ["macro sha2 = run-time solana-sha256-hasher = SHA-256: decided by the correspondence with the Gallina SHA-256 (third independent implementation), not by a theorem"],
            "masks": [], "assumptions": ["token strings of bounds/defaults are compared after whitespace normalisation"]},
    "C19": {"rule": "500 generated enums per run (names 1..30 chars, 1..12 unit variants, explicit discriminants, messages with quotes/escapes/Unicode written as escaped or raw literals, 1/8 missing messages, doc comments and extra attributes, "
            "renamed error crate in 1/4, hashed start in 1/2, a wrong declared start in 1/5 of those) through the real spl_program_error / to_str generators included by #[path]; names needing a non-zero nonce found by scanning 3M names; "
            "5 compiled enums through the real macros (hashed, plain with explicit discriminants, renamed crate, Unicode/raw messages, the two derives); TlvError / ListViewError / AccountResolutionError scanned over start-2..start+64 via TryFrom<u32> and FromPrimitive",
            "partial": ["Display (thiserror), TryFromPrimitive/FromPrimitive (num_enum, num-derive) and the wrong-start diagnostic are third-party / generator output: decided by execution"],
            "masks": [], "assumptions": ["messages are brace-free (no format arguments), as the property states"]},

    "C16": {"rule": 'accounts and mints with random/boundary field values, every option tag and account state, packed by spl-token-interface; extended for Token-2022 with an account-type byte (right, wrong, invalid) plus TLV-looking data or garbage of 0..400 bytes, zero padding, the 355-byte multisig length; random lengths around 82/165/166/355; sparse random strings; the bytes at 45/108/165 swept over {0,1,2,3,255}; option tags and state corrupted in 1/8; each string goes through generic Account/Mint::unpack under three program ids, the trait getters, Pack::unpack of both reference crates and StateWithExtensions::unpack; non-trivial = some parser accepted', "partial": ["the reference model (Token/Model.v) equals the crates: validated on every run in both directions, not proved"], "masks": [],
            "assumptions": ["program ids and packed lengths are read from the crates and compared with the constants the model uses"]},
    "C17": {"rule": 'accounts and mints with random/boundary field values, every option tag and account state, packed by spl-token-interface; extended for Token-2022 with an account-type byte (right, wrong, invalid) plus TLV-looking data or garbage of 0..400 bytes, zero padding, the 355-byte multisig length; random lengths around 82/165/166/355; sparse random strings; the bytes at 45/108/165 swept over {0,1,2,3,255}; option tags and state corrupted in 1/8; each string goes through generic Account/Mint::unpack under three program ids, the trait getters, Pack::unpack of both reference crates and StateWithExtensions::unpack; non-trivial = some parser accepted' + "; C17 additionally sweeps every length 0..400 with the bytes at 45/108/165 over {0,1,2,3,255} (thorough: all 256 values at 45)", "partial": [], "masks": [], "assumptions": []},

    "C13": {"rule": "exhaustive: all 65536 values of u16 and i16 in both directions and all 256 PodBool bytes (sent to Coq as three blobs and compared by one recursive check each); "
            "u32/u64/u128/i64: boundary values (0, 1, max, max-1, top bit, single bits, a byte-order pattern) and random values; usize conversions at 0, 65535/6/7, 2^32+-1, usize::MAX, 2^63 and random; "
            "byte casts of every slice length 0..64 for the 7 Pod types (pod_from_bytes, pod_maybe_from_bytes, pod_slice_from_bytes, with pointer aliasing checked); "
            "Borsh/Serde/Wincode equality with the primitive on every value (harness) and per feature set of spl-pod alone (pod-matrix crate: quick = none, each single feature, all; thorough = all 16); "
            "thorough adds an exhaustive u32 loop on the implementation", "partial": ["Borsh, Serde and Wincode encodings equal the primitive's: third-party derives, decided by differential execution only"],
            "masks": [], "extra": "pod_matrix",
            "assumptions": ["usize is 64 bits (the host the libraries are tested on)"]},
    "C14": {"rule": "Address carrier: zero, all-ones, all 256 single-bit patterns, one non-zero byte at each of the 32 positions, random sparse values; u64 carrier (test Nullable impl, none = 0): 0, 1, max, single bits, random; "
            "every path on every value: get/as_ref/as_mut/copied/cloned, From<T>, into Option/COption, TryFrom<Option>/<COption>, default, byte cast, Borsh, Serde; non-trivial = a some-value",
            "partial": ["memory and Borsh images equal the wrapped value's; Serde writes none as null and rejects Some(none): decided by differential execution"], "masks": [],
            "assumptions": []},

    "C09": {"rule": "histories of 1-16 operations (init, push, remove(i) in/out of range, element write in/out of range, sort by element bytes, interleaved queries: "
            "reopen read-only/mutably, visible slice, bytes_used/allocated) over 10 element types (sizes 1,3,35,2,4,8,16,16,0,0; alignments 1..16) x 4 prefix widths, capacities 0..8 "
            "(+ 1-3 slop bytes in 10%), arena offsets aligned and (1/8) arbitrary, buffers pre-filled with random bytes; the PodU16 boundary (capacity 65535/65536, stored 65534/65535); "
            "size_of for n in {0,1,2,7,1000, around usize::MAX/35, usize::MAX}; non-trivial = at least two successful operations",
            "partial": [], "masks": ["none: the model is byte-exact (stale element copies after remove and padding bytes included)"],
            "assumptions": ["capacity < 2^64 (a Rust slice has fewer than 2^63 elements)", "'a buffer of size_of(n) has capacity n' is stated for non-zero-sized elements", "sort uses the lexicographic order on element bytes (unique result)"]},
    "C10": {"rule": "every buffer length 0..header+3*size+2 x every start offset 0..15 of a 16-aligned arena x 9 stored lengths {0, cap, cap+1, prefix max, 2^63, 2^64-1, 2^64, 2^128-1, 1} "
            "x 10 element types x 4 prefix widths, other bytes random; unpack, unpack_mut (and init on a copy) each time; a sample (every 97th / 11th) is also evaluated in Coq; "
            "non-trivial = accepted", "partial": [], "masks": [],
            "assumptions": ["known finding D3: model and monitor expect a panic for a 128-bit prefix above usize::MAX (an Err is accepted too)"]},

    "C01": {"rule": 'histories of 1-40 operations (alloc with/without repetition, init-with-default, realloc to {0, same, +-1, exact fit, fit+-1, half, random, 2^32}, byte and typed writes, variable-length pack with a Borsh-derived and a hand-written packer, alloc-and-pack) over zeroed buffers of 0..300 bytes and 5 tags (two sharing a 7-byte prefix, one with leading and one with trailing zero bytes); state-aware targets (existing entry / missing type / one-past repetition); after every operation the result (value offset by pointer arithmetic, repetition number), an Adler-32 of the slab and 0-2 random queries (get bytes / typed get / list types / reopen, through the mutable, borrowed or owned view) are recorded; the final slab is compared in full; non-trivial = at least one successful mutation; distinct = distinct case terms (Coq cases) or distinct final slabs (monitor-only histories)', "partial": [], "masks": [],
            "assumptions": ["histories start from a zeroed buffer (theorems: from any canonical slab)", "type tags are non-zero (the zero tag is the terminator)", "typed values are alignment-1 Pod types"]},
    "C03": {"rule": 'histories of 1-40 operations (alloc with/without repetition, init-with-default, realloc to {0, same, +-1, exact fit, fit+-1, half, random, 2^32}, byte and typed writes, variable-length pack with a Borsh-derived and a hand-written packer, alloc-and-pack) over zeroed buffers of 0..300 bytes and 5 tags (two sharing a 7-byte prefix, one with leading and one with trailing zero bytes); state-aware targets (existing entry / missing type / one-past repetition); after every operation the result (value offset by pointer arithmetic, repetition number), an Adler-32 of the slab and 0-2 random queries (get bytes / typed get / list types / reopen, through the mutable, borrowed or owned view) are recorded; the final slab is compared in full; non-trivial = at least one successful mutation; distinct = distinct case terms (Coq cases) or distinct final slabs (monitor-only histories)', "partial": [], "masks": [],
            "assumptions": ["histories start from a zeroed buffer", "type tags are non-zero"]},
    "C04": {"rule": 'histories of 1-40 operations (alloc with/without repetition, init-with-default, realloc to {0, same, +-1, exact fit, fit+-1, half, random, 2^32}, byte and typed writes, variable-length pack with a Borsh-derived and a hand-written packer, alloc-and-pack) over zeroed buffers of 0..300 bytes and 5 tags (two sharing a 7-byte prefix, one with leading and one with trailing zero bytes); state-aware targets (existing entry / missing type / one-past repetition); after every operation the result (value offset by pointer arithmetic, repetition number), an Adler-32 of the slab and 0-2 random queries (get bytes / typed get / list types / reopen, through the mutable, borrowed or owned view) are recorded; the final slab is compared in full; non-trivial = at least one successful mutation; distinct = distinct case terms (Coq cases) or distinct final slabs (monitor-only histories)' + "; the C04 generator biases towards failing operations (missing entries, one-byte-short allocations, growth beyond free space)", "partial": [], "masks": ["after a failed variable-length pack only the bytes outside the entry's value region are required to be unchanged"],
            "assumptions": ["histories start from a zeroed buffer", "type tags are non-zero"]},
    "C02": {"rule": "byte strings: valid entry runs (table tags and random non-zero tags, value sizes 0..20 and the typed sizes) followed by every terminator shape "
            "(nothing, 1-7 zeros, 8-11 zeros, zero tag + garbage, 1-11 non-zero bytes, zeros with one non-zero byte), single-byte mutations, truncation at any offset, "
            "last length field set to exactly / one past the end / 0xffffffff; uniformly random strings 0..64; mostly-zero strings; queries: every table tag x repetitions 0..count+1 "
            "x fixed sizes around the entry size, through the three view kinds, offsets by pointer arithmetic; non-trivial = accepted with at least one entry",
            "partial": [], "masks": [],
            "assumptions": ["fixed-size lookups use alignment-1 value types"]},
    "C11": {
        "rule": "seed lists from a structure-aware generator (every kind in every position, totals steered to 30..35 bytes, "
                "literal lengths 0..300 with every value 250..290, 15/16/17 account-key seeds, u8 parameters biased to 0/1/127/128/255), "
                "single-seed packs into destinations of right/wrong length, 32-byte arrays (valid packings, one-byte mutations, garbage after the "
                "terminator, literals reaching exactly/one past the end, truncated last seed, random), short slices for Seed::unpack/PubkeyData::unpack; "
                "a case is non-trivial when it packs/unpacks at least one seed successfully; distinct = distinct Gallina case terms",
        "partial": [],
        "masks": [],
        "assumptions": ["key-data re-pack law is stated for initialised configs (DESIGN 3)"],
    },
}
