#!/bin/bash
# MANIFEST.setup_cmd: build the Coq development (full .vo) and the Rust harness, offline.
set -e
cd "$(dirname "$0")"
export CARGO_NET_OFFLINE=true
( cd coq && coq_makefile -f _CoqProject $(find theories -name '*.v' | sort) -o Makefile >/dev/null && timeout 3000 make -j16 2>&1 | grep -v '^COQ' || true )
( cd coq && make -j16 >/dev/null )   # fails the setup if anything does not build
( cd harness && cargo build --offline --quiet 2>/dev/null && cargo build --offline --quiet --release 2>/dev/null )
( cd harness/pod-matrix && cargo build --offline --quiet --features bytemuck,serde,borsh,wincode 2>/dev/null && cargo build --offline --quiet 2>/dev/null )
echo "setup ok"
